# -*- coding: utf-8 -*-
"""
Explicit-state search over the real line-driven Gherkin parser (engine E2 of
DESIGN.md), shared by C05 (error discipline) and C04 (attachment of accepted
lines).

A *history* is a tuple of indexes into the line-kind alphabet ``KINDS``.  It is
always executed through one of the five real entry points of ``behave.parser``
(``parse_feature`` / ``parse_rule`` / ``parse_scenario`` / ``parse_steps`` /
``parse_tags``) on the text ``"\\n".join(lines)``.  ``behave.parser.Parser`` is
replaced (in this process only) by a subclass whose only change is that
``action()`` - the per-line dispatcher called by the real parse loop - is
wrapped, so that

* the number of per-line dispatches is counted (termination / one action call
  per line),
* an exception leaving ``action()`` is known to stem from *consuming a line*
  (the history is then dead: every extension fails in the same way) as opposed
  to the end-of-text action,
* after every consumed line the **canonical abstraction** of the parser state
  is read off the real ``Parser`` object's attributes.

Canonical abstraction (DESIGN C05) - these are all the parser fields that any
``action_*`` / ``_build_*`` / ``parse_step`` / ``diagnose_*`` reads besides the
current line: entry variant, ``state``, language, feature present? (+ its
background present? / has steps? - read by ``Feature.add_rule`` when the next
rule is opened), rule present?, kind of ``scenario_container`` with
(background present?, own steps?, inherited steps?, has scenarios?), kind of
``statement`` and whether it has steps, ``last_step_type`` set?, pending tags?,
open table width, examples pending?, open doc-string (terminator, column).
Names, descriptions, cell texts and line numbers already stored in the model
are never read again by the parser and are not part of the abstraction.  For the
same reason the "hostile text" line kinds (names, cells, tag words, free text
made of str.format / %-interpolation metacharacters) add no abstract state:
they differ from their plain twin only in text content; the driver checks on
every run that a hostile kind leads to the same abstract state as its twin.
The abstraction is validated on every run (``check_transition_function``): over
*all* line sequences up to the no-dedup bound, (abstract state, line kind) must
determine (next abstract state, outcome class).
"""
from __future__ import print_function
import logging

# ---------------------------------------------------------------- alphabet
KINDS = (
    u"Feature: F", u"Rule: R", u"Background: B", u"Scenario: S", u"Scenario Outline: O", u"Examples: E",
    u"Funktionalit\xe4t: F", u"Regel: R", u"Grundlage: B", u"Szenario: S", u"Szenariogrundriss: O", u"Beispiele: E",
    u"  Given g", u"  When w", u"  Then t", u"  And a", u"  But b", u"  * s", u"  Wenn w",
    u"@t1 @t2", u"@t1 x",
    u"    | a |", u"    | a | b |", u"    | a | b",
    u'    """', u"    '''",
    u"    free text", u"  less",
    u"# c", u"# language: de", u"# language: zz",
    u"", u"   ",
)
KIND_NAMES = (
    "feature", "rule", "background", "scenario", "outline", "examples",
    "de:feature", "de:rule", "de:background", "de:scenario", "de:outline", "de:examples",
    "given", "when", "then", "and", "but", "star", "de:when",
    "tags", "badtag",
    "row1", "row2", "row-open",
    "dq", "sq",
    "text", "text-less-indent",
    "comment", "lang-de", "lang-zz",
    "blank", "ws",
)
assert len(KINDS) == len(KIND_NAMES)

# ---- hostile text: one representative per formatting mechanism that an error message could push user text
# through (str.format: named field, positional field, lone braces; % interpolation: %s, %(x)s, lone %)
HOSTILE_ATOMS = (u"{name}", u"{}", u"{", u"}", u"%s", u"%(x)s", u"%")
HOSTILE = u"{name} {} } { %s %(x)s %"
# hostile twins of the plain kinds: same keyword / same number of cells / same indentation, only the TEXT that
# reaches names, cells, descriptions, tag words (and error messages) differs.  name -> (line, plain twin)
_HOSTILE_KINDS = (
    ("feature!", u"Feature: " + HOSTILE, "feature"), ("rule!", u"Rule: " + HOSTILE, "rule"),
    ("background!", u"Background: " + HOSTILE, "background"), ("scenario!", u"Scenario: " + HOSTILE, "scenario"),
    ("outline!", u"Scenario Outline: " + HOSTILE, "outline"), ("examples!", u"Examples: " + HOSTILE, "examples"),
    ("given!", u"  Given " + HOSTILE, "given"), ("when!", u"  When " + HOSTILE, "when"),
    ("and!", u"  And " + HOSTILE, "and"), ("but!", u"  But " + HOSTILE, "but"), ("star!", u"  * " + HOSTILE, "star"),
    ("tags!", u"@t{name}%s @{}%(x)s%", "tags"), ("badtag!", u"@t1 " + HOSTILE, "badtag"),
    ("row1!", u"    | " + HOSTILE + u" |", "row1"), ("row2!", u"    | {name} {} } { | %s %(x)s % |", "row2"),
    ("row-open!", u"    | {name} {} | %s %", "row-open"),
    ("text!", u"    " + HOSTILE + u" text", "text"), ("text-less-indent!", u"  " + HOSTILE, "text-less-indent"),
    ("lang-zz!", u"# language: {name}%s%(x)s{", "lang-zz"),
    # steps whose text ends with ':' (BEHAVE_STRIP_STEPS_WITH_TRAILING_COLON=yes strips it when an argument follows)
    ("given:", u"  Given g:", "given"), ("star:", u"  * s:", "star"),
)
PLAIN_NK = len(KINDS)
KINDS = KINDS + tuple(k[1] for k in _HOSTILE_KINDS)
KIND_NAMES = KIND_NAMES + tuple(k[0] for k in _HOSTILE_KINDS)
TWIN = dict((KIND_NAMES.index(k[0]), KIND_NAMES.index(k[2])) for k in _HOSTILE_KINDS)
NK = len(KINDS)
ENTRIES = ("feature", "rule", "scenario", "steps", "tags")


def text_of(hist):
    return u"\n".join(KINDS[k] for k in hist)


def names_of(hist):
    return " / ".join(KIND_NAMES[k] for k in hist)


# ---------------------------------------------------------------- recording parser
class _Rec(object):
    calls = 0
    inflight = False
    snap = None
    parser = None

    def reset(self):
        self.calls = 0
        self.inflight = False
        self.snap = None
        self.parser = None


REC = _Rec()
_P = {}


_PM_CODE = {}
_ENVS = {}
STRIP_COLON_ENV = {"BEHAVE_STRIP_STEPS_WITH_TRAILING_COLON": "yes"}


def fresh_parser_module(env=None):
    """A private, freshly executed copy of behave/parser.py that is not registered in sys.modules (source compiled
    once per worker).  env: environment variables that are set while the module body runs (behave.parser reads its
    documented switches at import time) and restored afterwards - the worker's own behave.parser is not affected."""
    import os
    import types
    import behave.parser as real
    path = real.__file__
    if path.endswith(("c", "o")):
        path = path[:-1]
    if path not in _PM_CODE:
        with open(path, "rb") as f:
            _PM_CODE[path] = compile(f.read(), path, "exec")
    mod = types.ModuleType("behave.parser")
    mod.__package__ = "behave"
    mod.__file__ = path
    saved = dict((k, os.environ.get(k)) for k in (env or {}))
    try:
        os.environ.update(env or {})
        exec(_PM_CODE[path], mod.__dict__)
    finally:
        for k, v in saved.items():
            if v is None:
                os.environ.pop(k, None)
            else:
                os.environ[k] = v
    return mod


def switched_env(name="strip-colon"):
    """recording environment (like install()) around a private module copy executed with a documented switch ON"""
    if name not in _ENVS:
        install()
        _ENVS[name] = _make_env(fresh_parser_module(STRIP_COLON_ENV))
    return _ENVS[name]


def install():
    """Replace behave.parser.Parser by the recording subclass (idempotent, this process only)."""
    if _P:
        return _P
    import behave.parser as bp
    logging.getLogger("behave").addHandler(logging.NullHandler())
    logging.getLogger("behave").propagate = False
    _P.update(_make_env(bp))
    return _P


def _make_env(bp):
    from behave import model
    Base = bp.Parser

    class RecParser(Base):
        def __init__(self, *a, **kw):
            Base.__init__(self, *a, **kw)
            REC.parser = self

        def action(self, line):
            REC.calls += 1
            REC.inflight = True
            Base.action(self, line)
            REC.inflight = False
            REC.snap = abstract(self)

    RecParser.__name__ = "Parser"
    bp.Parser = RecParser
    return dict(bp=bp, model=model, Base=Base, ParserError=bp.ParserError,
                entry={"feature": bp.parse_feature, "rule": bp.parse_rule, "scenario": bp.parse_scenario,
                       "steps": bp.parse_steps, "tags": bp.parse_tags},
                states=[s.name for s in bp.State if hasattr(Base, "action_" + s.name.lower())])


SUBCLASS_KINDS = ("own-signature", "counting", "plain")
_SUB = {}


def parser_subclass(kind):
    """Library use: tools subclass behave.parser.Parser.  -> factory(variant) building one object of
    (own-signature) a subclass with its own constructor signature - one positional settings argument - that calls
    super().__init__ with keywords; (counting) a signature-compatible subclass whose __init__ counts its calls (a
    constructor runs once per object); (plain) a subclass overriding nothing."""
    if not _SUB:
        Base = install()["Base"]

        class SettingsParser(Base):
            def __init__(self, settings):
                Base.__init__(self, language=settings.get("language"), variant=settings.get("variant"))
                self.settings = settings

        class CountingParser(Base):
            def __init__(self, language=None, variant=None):
                Base.__init__(self, language, variant)
                self.init_calls = getattr(self, "init_calls", 0) + 1

        class PlainParser(Base):
            pass

        _SUB["own-signature"] = lambda variant: SettingsParser({"variant": variant, "project": "x"})
        _SUB["counting"] = lambda variant: CountingParser(variant=variant)
        _SUB["plain"] = lambda variant: PlainParser(variant=variant)
    return _SUB[kind]


METHOD_OF_ENTRY = {"feature": "parse", "rule": "parse_rule", "scenario": "parse_scenario", "steps": "parse_steps"}


def run_subclass(kind, entry, text):
    """-> (outcome like run_text, constructor calls or None): the entry point method called on a subclass object"""
    P = install()
    obj = parser_subclass(kind)(entry)
    try:
        res = getattr(obj, METHOD_OF_ENTRY[entry])(text)
        out = ("ok", type(res).__name__)
    except P["ParserError"] as e:
        out = ("PE", e.line, exc_site(e))
    except Exception as e:
        out = ("EXC", type(e).__name__, exc_site(e))
    return out, getattr(obj, "init_calls", None), (res if out[0] == "ok" else None)


def _bgsig(bg):
    if bg is None:
        return None
    inh = bg.inherited_background
    return (bool(bg.steps), bool(inh is not None and bg.use_inheritance and inh.steps))


def abstract(p):
    """canonical abstraction, read from the attributes of the real Parser object"""
    m = _P["model"]
    f = p.feature
    c = p.scenario_container
    if c is None:
        csig = ("none",)
    else:
        kind = "rule" if isinstance(c, m.Rule) else "feature" if isinstance(c, m.Feature) else type(c).__name__
        csig = (kind, _bgsig(c.background), bool(c.scenarios))
    s = p.statement
    if s is None:
        ssig = ("none",)
    else:
        if isinstance(s, m.Rule):
            kind = "rule"
        elif isinstance(s, m.Background):
            kind = "background"
        elif isinstance(s, m.ScenarioOutline):
            kind = "outline"
        elif isinstance(s, m.Scenario):
            kind = "scenario"
        else:
            kind = type(s).__name__
        ssig = (kind, bool(getattr(s, "steps", None)))
    doc = None
    if p.state.name == "MULTILINE_TEXT":
        doc = (p.multiline_terminator, p.multiline_leading)
    return (p.variant, p.state.name, p.language,
            None if f is None else ("F", _bgsig(f.background)),
            p.rule is not None, csig, ssig,
            p.last_step_type is not None, bool(p.tags),
            None if p.table is None else len(p.table.headings),
            (p.examples is not None, bool(p.examples)), doc)


def abstract_tags(text, hlen):
    """parse_tags has no line machine: everything its future depends on is
    (no line yet?, text empty?, first character '@'?, a comment word already seen?)"""
    words = text.split()
    return ("tags", hlen == 0, text == u"", text.startswith(u"@"), any(w.startswith(u"#") for w in words))


def exc_site(e):
    """innermost function of behave/parser.py on the traceback of e"""
    tb = e.__traceback__
    name = "?"
    while tb is not None:
        code = tb.tb_frame.f_code
        fn = code.co_filename.replace("\\", "/")
        if fn.endswith("behave/parser.py"):
            name = code.co_name
        tb = tb.tb_next
    return name


def run_text(entry, text, hlen=None, env=None):
    """-> (outcome, dead, abstract_state_or_None, action_calls, result)

    outcome = ("ok", typename) | ("PE", line, site) | ("EXC", exception typename, site)
    dead    = the exception left Parser.action (a line could not be consumed)
    """
    P = env or _P or install()
    REC.reset()
    res = None
    try:
        res = P["entry"][entry](text)
        out = ("ok", type(res).__name__)
    except P["ParserError"] as e:
        out = ("PE", e.line, exc_site(e))
        try:
            u"%s" % (e,)                # the message must be printable whatever text went into it
        except Exception as e2:
            out = ("EXC", type(e2).__name__, "ParserError.__str__")
    except Exception as e:      # internal exception: the thing C05 forbids
        out = ("EXC", type(e).__name__, exc_site(e))
    dead = REC.inflight
    if entry == "tags":
        dead = out[0] != "ok"
        snap = None if dead else abstract_tags(text, hlen)
    elif dead:
        snap = None
    elif REC.snap is not None:
        snap = REC.snap
    elif REC.parser is not None and out[0] == "ok":
        snap = abstract(REC.parser)     # no line dispatched at all: initial state of the entry point
    else:
        snap = None
        dead = True
    calls = REC.calls
    REC.parser = None
    return out, dead, snap, calls, res


def run_history(entry, hist, env=None):
    return run_text(entry, text_of(hist), len(hist), env)


def nlines(text):
    return len(text.splitlines())


# ---------------------------------------------------------------- the C05 invariant
def invariant(entry, text, out, calls, where):
    """C05 invariant on one parse -> list of (descriptor, message)"""
    v = []
    n = nlines(text)
    ename = "parse_" + entry
    if out[0] == "EXC":
        v.append(({"subcheck": "internal-exception", "entry": ename, "exc": out[1], "site": out[2]},
                  "%s raised %s (in Parser.%s) instead of returning a model or raising ParserError; %s"
                  % (ename, out[1], out[2], where)))
    elif out[0] == "PE":
        line = out[1]
        if not (isinstance(line, int) and not isinstance(line, bool) and 1 <= line <= n):
            v.append(({"subcheck": "error-line", "clause": "out-of-range", "entry": ename, "site": out[2]},
                      "%s raised ParserError with line=%r for a text of %d line(s); %s" % (ename, line, n, where)))
    passes = 2 if entry == "steps" else 1   # parse_steps reads its text twice; the bound only has to be finite
    if calls > passes * n:
        v.append(({"subcheck": "termination", "clause": "more-than-one-action-per-line", "entry": ename},
                  "%d per-line dispatches for %d line(s); %s" % (calls, n, where)))
    return v


SWITCH_ON_KINDS = tuple(range(PLAIN_NK)) + tuple(i for i, n in enumerate(KIND_NAMES) if n in ("given:", "star:"))
BADTAG_KINDS = tuple(i for i, n in enumerate(KIND_NAMES) if n in ("badtag", "badtag!"))


def fault_line_violation(entry, hist, parent_alive, dead, out):
    """Catalogued fault 'malformed tag token' inside the searches: when the last line of a history is the
    malformed tag line, its parent history was alive and consuming it raises ParserError, the error must be
    reported at that very line (whatever blank / comment lines precede it)."""
    if hist and hist[-1] in BADTAG_KINDS and parent_alive and dead and out[0] == "PE" and out[1] != len(hist):
        return [({"subcheck": "fault-line", "clause": "wrong-line", "entry": "parse_" + entry, "site": out[2]},
                 "malformed tag token on line %d is reported at line %r; history [%s]"
                 % (len(hist), out[1], names_of(hist)))]
    return []


def outclass(out, hlen=None):
    """outcome class used for the abstraction cross-check (line numbers are judged by the invariant, not here)"""
    if out[0] == "PE":
        return ("PE", out[2])
    return out
