# -*- coding: utf-8 -*-
"""Independent reference semantics of tag expressions (used by C07, C08, C09 and the reference interpreter).
AST: ("lit", name) | ("not", x) | ("and", x, y) | ("or", x, y) | ("true",); a literal containing * ? [ is a wildcard."""

def glob_match(pat, s):
    """hand-written case-sensitive glob (*, ?, [seq], [!seq], ranges); no fnmatch involved"""
    def m(i, j):
        while i < len(pat):
            ch = pat[i]
            if ch == "*":
                return any(m(i + 1, k) for k in range(j, len(s) + 1))
            if j >= len(s):
                return False
            if ch == "?":
                pass
            elif ch == "[":
                end = pat.find("]", i + 1)
                if end < 0:
                    if s[j] != "[":
                        return False
                else:
                    # fnmatch semantics (the documentation refers to fnmatch): [seq], [!seq], ranges a-c
                    body = pat[i + 1:end]
                    neg = body.startswith("!")
                    if neg:
                        body = body[1:]
                    chars = set()
                    q = 0
                    while q < len(body):
                        if q + 2 < len(body) and body[q + 1] == "-":
                            chars.update(chr(c) for c in range(ord(body[q]), ord(body[q + 2]) + 1))
                            q += 3
                        else:
                            chars.add(body[q])
                            q += 1
                    if (s[j] in chars) == neg:
                        return False
                    i = end
            elif ch != s[j]:
                return False
            i += 1
            j += 1
        return j == len(s)
    return m(0, 0)


def is_wild(op):
    return any(c in op for c in "*?[")


def ref_eval(ast, tags):
    k = ast[0]
    if k == "lit":
        if is_wild(ast[1]):
            return any(glob_match(ast[1], t) for t in tags)
        return ast[1] in tags
    if k == "not":
        return not ref_eval(ast[1], tags)
    if k == "and":
        return ref_eval(ast[1], tags) and ref_eval(ast[2], tags)
    if k == "or":
        return ref_eval(ast[1], tags) or ref_eval(ast[2], tags)
    if k == "true":
        return True
    raise ValueError(ast)


