# -*- coding: utf-8 -*-
"""
Core of the bounded-exhaustive checking framework (engines E1..E4 of DESIGN.md).

A check module (checks/cNN_*.py) exposes

    PROPERTY = "C07"; LEVEL = "exploration"; RULE = "..."; ASSUMPTIONS = [...]
    def run(ctx): ...     # drives ctx.sweep()/ctx.bfs(), returns nothing

and one or more *module-level* case functions ``f(case) -> result`` where
``result`` is a dict (or a list of dicts, for a shard that expands to several
executions) with the optional keys

    v    list of violations: (descriptor_dict, message)   descriptor = the
         "(subcheck, clause, trigger...)" of DESIGN 4.5, str -> str
    nt   hashable key if the case is non-trivial by the check's rule
    out  hashable "observed outcome" class (for the distinct_outcomes guard)
    dg   digest of the complete observation (determinism replay)
    case the concrete case (only for list results: the sub-case to replay)
    n    number of executions this result stands for (default 1)
    st   model-checking counts {"states":..,"transitions":..,"traces":..}

Cases must be picklable; they are run in a pool of long-lived worker processes
(fork), sharded deterministically (chunk k goes to whichever worker is free,
but results are independent of placement - proven on every run by the replay
self-check, which re-executes a slice of the cases in reverse order in other
workers and compares digests).
"""
from __future__ import print_function
import os, sys, time, json, pickle, base64, hashlib, itertools, traceback
import multiprocessing as mp
import collections

VERIF = os.path.dirname(os.path.dirname(os.path.abspath(__file__)))
EXIT_OK, EXIT_VIOLATION, EXIT_HARNESS = 0, 1, 2
MAX_REPLAY_FILES = int(os.environ.get("VERIF_MAX_REPLAYS", "5"))


def digest(obj):
    return hashlib.sha1(repr(obj).encode("utf-8", "backslashreplace")).hexdigest()[:16]


def jsonable(x, depth=0):
    if depth > 12:
        return repr(x)
    if isinstance(x, (str, int, float, bool)) or x is None:
        return x
    if isinstance(x, bytes):
        return x.decode("latin-1")
    if isinstance(x, dict):
        return {str(k): jsonable(v, depth + 1) for k, v in x.items()}
    if isinstance(x, (list, tuple)):
        return [jsonable(v, depth + 1) for v in x]
    if isinstance(x, (set, frozenset)):
        return sorted((jsonable(v, depth + 1) for v in x), key=repr)
    return repr(x)


class HarnessError(Exception):
    pass


# ---------------------------------------------------------------- worker side
_W = {}


def _worker_init(modname, seed, replay_stride):
    _W["mod"] = sys.modules.get(modname) or __import__(modname, fromlist=["x"])
    _W["seed"] = seed
    _W["stride"] = replay_stride
    init = getattr(_W["mod"], "init_worker", None)
    if init:
        init()


def _norm_results(case, res):
    if res is None:
        res = {}
    if isinstance(res, dict):
        res = [res]
    out = []
    for r in res:
        if "case" not in r:
            r["case"] = case
        out.append(r)
    return out


def _run_chunk(args):
    funcname, start, cases, want_digests, keep = args
    func = getattr(_W["mod"], funcname)
    agg = {"n": 0, "calls": 0, "nt": set(), "out": collections.Counter(), "v": [],
           "vcount": collections.Counter(), "dg": {}, "samples": [], "st": collections.Counter(),
           "keep": [], "err": None}
    stride = _W["stride"]
    off = _W["seed"] % stride if stride else 0
    for i, case in enumerate(cases):
        idx = start + i
        try:
            results = _norm_results(case, func(case))
        except BaseException as e:      # a harness bug, not a property violation
            agg["err"] = "case #%d %r: %s" % (idx, case, traceback.format_exc())
            break
        agg["calls"] += 1
        dgs = []
        for r in results:
            agg["n"] += r.get("n", 1)
            if r.get("nt") is not None:
                agg["nt"].add(r["nt"])
            if "out" in r:
                agg["out"][r["out"]] += 1
            for k, val in (r.get("st") or {}).items():
                agg["st"][k] += val
            for desc, msg in r.get("v", ()):
                key = tuple(sorted(desc.items()))
                agg["vcount"][key] += 1
                if agg["vcount"][key] <= 3:
                    agg["v"].append((idx, r["case"], desc, msg))
            dgs.append(r.get("dg"))
            if keep and "keep" in r:
                agg["keep"].append(r["keep"])
        if want_digests or (stride and idx % stride == off):
            agg["dg"][idx] = digest(dgs)
        if idx < 3 or (stride and idx % (stride * 7) == off):
            if len(agg["samples"]) < 4:
                agg["samples"].append(results[0]["case"])
    return agg


# ---------------------------------------------------------------- driver side
class Ctx(object):
    def __init__(self, module, tier, seed, nproc=None, replay_only=None):
        self.module = module
        self.prop = module.PROPERTY
        self.tier = tier
        self.quick = tier == "quick"
        self.seed = seed
        self.nproc = nproc or int(os.environ.get("VERIF_NPROC", "0")) or min(16, os.cpu_count() or 4)
        self.t0 = time.time()
        self.evaluations = 0
        self.nt = set()
        self.outcomes = collections.Counter()
        self.vcount = collections.Counter()
        self.vsamples = {}
        self.samples = []
        self.st = collections.Counter()
        self.notes = {}
        self.caps_hit = []
        self.replayed = 0
        self.nondet = []
        self.guards = []
        self.sweeps = []
        self._pool = None
        self.replay_stride = 97 if self.quick else 997
        self.bounds = {}

    # -- pool
    def pool(self):
        if self._pool is None:
            ctx = mp.get_context("fork")
            self._pool = ctx.Pool(self.nproc, _worker_init,
                                  (self.module.__name__, self.seed, self.replay_stride))
        return self._pool

    def close(self):
        if self._pool is not None:
            self._pool.close()
            self._pool.join()
            self._pool = None

    # -- E1/E3/E4: sweep over an enumerated case list
    def sweep(self, func, cases, chunk=64, name=None, replay=True, keep=False):
        """Run func(case) for every case; aggregates into the context.
        Returns the list of r['keep'] values when keep=True."""
        fname = func.__name__
        name = name or fname
        t0 = time.time()

        def chunks():
            it = iter(cases)
            start = 0
            while True:
                blk = list(itertools.islice(it, chunk))
                if not blk:
                    return
                yield (fname, start, blk, False, keep)
                start += len(blk)

        total = 0
        digests = {}
        kept = []
        first_cases = {}
        pending_for_replay = []
        for agg in self.pool().imap_unordered(_run_chunk, self._tee(chunks(), pending_for_replay)):
            if agg["err"]:
                raise HarnessError("worker failure in %s: %s" % (name, agg["err"]))
            self.evaluations += agg["n"]
            total += agg["n"]
            self.nt |= agg["nt"]
            self.outcomes.update(agg["out"])
            self.st.update(agg["st"])
            for key, cnt in agg["vcount"].items():
                self.vcount[key] += cnt
            for idx, case, desc, msg in agg["v"]:
                key = tuple(sorted(desc.items()))
                cur = self.vsamples.get(key)
                if cur is None or idx < cur[0]:
                    self.vsamples[key] = (idx, case, desc, msg, fname)
            digests.update(agg["dg"])
            if len(self.samples) < 6:
                self.samples.extend(agg["samples"][: 6 - len(self.samples)])
            kept.extend(agg["keep"])
        # determinism replay: same cases, reverse order, other workers
        if replay and digests:
            idxs = sorted(digests)
            if len(idxs) > 400:
                step = len(idxs) // 400 + 1
                idxs = idxs[self.seed % step::step]
            want = {i: digests[i] for i in idxs}
            bycase = {i: c for (i, c) in pending_for_replay if i in want}
            jobs = [(fname, i, [bycase[i]], True, False) for i in sorted(bycase, reverse=True)]
            for agg in self.pool().imap_unordered(_run_chunk, jobs):
                if agg["err"]:
                    raise HarnessError("worker failure in replay of %s: %s" % (name, agg["err"]))
                for i, d in agg["dg"].items():
                    self.replayed += 1
                    if d != want[i] and not self.nondet:
                        # deferred: the remaining sweeps still run, because on a tree that leaks state or object
                        # addresses into observations a later sweep usually shows the violation behind it (violations
                        # beat harness errors); without any violation the run still ends as a harness error
                        self.nondet.append("NONDETERMINISM in %s: case #%d %r gives digest %s, then %s"
                                           % (name, i, bycase[i], want[i], d))
        self.sweeps.append({"name": name, "executions": total, "wall_s": round(time.time() - t0, 2)})
        return kept

    def _tee(self, chunk_iter, store):
        stride = self.replay_stride
        off = self.seed % stride
        for job in chunk_iter:
            fname, start, blk, _, _ = job
            for i, c in enumerate(blk):
                if (start + i) % stride == off:
                    store.append((start + i, c))
            yield job

    # -- direct (in driver) recording, for cheap pure checks and BFS drivers
    def record(self, case, res, fname=None):
        for r in _norm_results(case, res):
            self.evaluations += r.get("n", 1)
            if r.get("nt") is not None:
                self.nt.add(r["nt"])
            if "out" in r:
                self.outcomes[r["out"]] += 1
            self.st.update(r.get("st") or {})
            for desc, msg in r.get("v", ()):
                self.violation(desc, msg, r["case"], fname)
            if len(self.samples) < 6:
                self.samples.append(r["case"])

    def violation(self, desc, msg, case, fname=None):
        key = tuple(sorted(desc.items()))
        self.vcount[key] += 1
        if key not in self.vsamples:
            self.vsamples[key] = (-1, case, desc, msg, fname)

    def guard(self, ok, what):
        """vacuity guard: a failed guard is a harness error, never a pass"""
        self.guards.append((bool(ok), what))

    def cap(self, what):
        self.caps_hit.append(what)

    def note(self, key, value):
        self.notes[key] = value


# ---------------------------------------------------------------- known findings
def load_known():
    path = os.path.join(VERIF, "known_findings.json")
    if not os.path.exists(path):
        return []
    with open(path) as f:
        data = json.load(f)
    return [e for e in data.get("findings", [])]


def match_known(prop, desc, known):
    for e in known:
        if e.get("property") != prop:
            continue
        m = e.get("match", {})
        ok = True
        for k, v in m.items():
            dv = desc.get(k)
            if isinstance(v, list):
                if dv not in v:
                    ok = False
                    break
            elif dv != v:
                ok = False
                break
        if ok and m:
            return e
    return None


# ---------------------------------------------------------------- finishing
def finish(ctx, module, exc=None):
    prop = ctx.prop
    wall = time.time() - ctx.t0
    known = load_known()
    unknown, hit = [], {}
    for key, cnt in sorted(ctx.vcount.items(), key=lambda kv: ctx.vsamples[kv[0]][0]):
        desc = dict(key)
        e = match_known(prop, desc, known)
        if e is not None:
            hit.setdefault(e["id"], [e, 0])
            hit[e["id"]][1] += cnt
        else:
            unknown.append((key, cnt))
    lines = []
    for fid, (e, cnt) in sorted(hit.items()):
        lines.append("KNOWN-FINDING: property=%s %s [%s; %d manifestations]" % (prop, e["what"], fid, cnt))
    mutant = bool(os.environ.get("VERIF_REPO"))      # mutation protocol: never touch the committed evidence
    out_base = "/dev/shm/verif-mutant-out" if mutant else VERIF
    replay_dir = os.path.join(out_base, "replays")
    nfile = 0
    for key, cnt in unknown:
        idx, case, desc, msg, fname = ctx.vsamples[key]
        if nfile < MAX_REPLAY_FILES:
            os.makedirs(replay_dir, exist_ok=True)
            path = os.path.join(replay_dir, "%s-%d.json" % (prop, nfile))
            with open(path, "w") as f:
                json.dump({"property": prop, "descriptor": desc, "message": msg, "manifestations": cnt,
                           "module": module.__name__, "func": fname, "tier": ctx.tier,
                           "case_repr": repr(case),
                           "case_pickle_b64": base64.b64encode(pickle.dumps(case, 2)).decode("ascii"),
                           "case": jsonable(case)}, f, indent=1, ensure_ascii=True)
            nfile += 1
            lines.append("VIOLATION property=%s replay=%s" % (prop, path))
            lines.append("  descriptor=%s manifestations=%d\n  %s" % (json.dumps(desc, sort_keys=True), cnt,
                                                                   msg.replace("\n", "\n  ")))
        else:
            lines.append("  (further violation class %s x%d, no replay file written)" % (json.dumps(dict(key)), cnt))
    failed_guards = [w for ok, w in ctx.guards if not ok]
    level = module.LEVEL
    cov = {
        "evaluations": int(ctx.evaluations),
        "distinct_nontrivial": len(ctx.nt),
        "rule": module.RULE,
        "samples": [jsonable(s) for s in ctx.samples[:6]] or ["(none)"],
        "exhaustive": not ctx.caps_hit,
        "caps_hit": ctx.caps_hit,
        "distinct_outcomes": len(ctx.outcomes),
        "outcome_histogram_top": [[jsonable(k), v] for k, v in ctx.outcomes.most_common(12)],
        "replayed_for_determinism": ctx.replayed,
        "known_findings_hit": {fid: cnt for fid, (e, cnt) in hit.items()},
        "sweeps": ctx.sweeps,
        "guards": [{"ok": ok, "what": w} for ok, w in ctx.guards],
        "bound_completed": ctx.bounds,
        "workers": ctx.nproc,
        "repo": repo_dir(),
    }
    cov.update(ctx.notes)
    if ctx.st.get("states"):
        cov["states"] = int(ctx.st["states"])
        cov["transitions"] = int(ctx.st.get("transitions", 0))
        cov["traces_validated_against_impl"] = int(ctx.st.get("traces", 0))
    ev = {"property_id": prop, "tier": ctx.tier, "seed": int(ctx.seed), "level": level,
          "coverage": cov, "assumptions": list(getattr(module, "ASSUMPTIONS", [])),
          "wall_s": round(wall, 2), "violations": int(sum(c for _, c in unknown))}
    os.makedirs(os.path.join(out_base, "evidence"), exist_ok=True)
    with open(os.path.join(out_base, "evidence", "%s.json" % prop), "w") as f:
        json.dump(ev, f, indent=1, sort_keys=True)
    print("%s tier=%s executions=%d distinct_nontrivial=%d distinct_outcomes=%d replayed=%d wall=%.1fs%s"
          % (prop, ctx.tier, ctx.evaluations, len(ctx.nt), len(ctx.outcomes), ctx.replayed, wall,
             (" states=%d transitions=%d" % (ctx.st["states"], ctx.st["transitions"])) if ctx.st.get("states") else ""))
    for s in ctx.sweeps:
        print("  sweep %-32s executions=%-9d %.1fs" % (s["name"], s["executions"], s["wall_s"]))
    for l in lines:
        print(l)
    if exc is not None and not unknown:
        print("HARNESS-ERROR: %s" % exc)
        return EXIT_HARNESS
    if unknown:
        if exc is not None:
            # e.g. NONDETERMINISM caused by state that the tree under test leaks from one case into the next:
            # the violations found so far are real and are what gets reported
            print("note: the run also ended with a harness error: %s" % str(exc)[:300])
        # a violation takes precedence over a failed vacuity guard (a broken tree often also starves a guard)
        for w in failed_guards:
            print("note: vacuity guard not met on this tree: %s" % w)
        return EXIT_VIOLATION
    if failed_guards:
        for w in failed_guards:
            print("HARNESS-ERROR: vacuity guard failed: %s" % w)
        return EXIT_HARNESS
    print("OK property=%s held on everything explored" % prop)
    return EXIT_OK


def repo_dir():
    return os.environ.get("VERIF_REPO") or "/repo"


def load_check(prop):
    import importlib
    cdir = os.path.join(VERIF, "checks")
    for fn in sorted(os.listdir(cdir)):
        if fn.lower().startswith(prop.lower() + "_") and fn.endswith(".py"):
            return importlib.import_module("checks." + fn[:-3])
    raise SystemExit("no check module for %s" % prop)


def main(argv):
    import argparse
    ap = argparse.ArgumentParser()
    ap.add_argument("prop")
    ap.add_argument("--tier", default=os.environ.get("VERIF_TIER") or "quick", choices=["quick", "thorough"])
    ap.add_argument("--replay")
    ap.add_argument("--nproc", type=int)
    a = ap.parse_args(argv)
    seed = int(os.environ.get("VERIF_SEED", "0") or 0)
    module = load_check(a.prop)
    if a.replay:
        return replay(module, a.replay)
    ctx = Ctx(module, a.tier, seed, a.nproc)
    exc = None
    try:
        module.run(ctx)
    except HarnessError as e:
        exc = e
    except Exception:
        exc = traceback.format_exc()
    finally:
        ctx.close()
    if exc is None and ctx.nondet:
        exc = HarnessError(ctx.nondet[0])
    return finish(ctx, module, exc)


def replay(module, path):
    with open(path) as f:
        data = json.load(f)
    case = pickle.loads(base64.b64decode(data["case_pickle_b64"]))
    init = getattr(module, "init_worker", None)
    if init:
        init()
    func = getattr(module, data.get("func") or "run_case")
    print("replaying %s\n  case: %s" % (path, data["case_repr"]))
    res = _norm_results(case, func(case))
    bad = 0
    want = data["descriptor"]
    for r in res:
        for desc, msg in r.get("v", ()):
            mark = "*" if desc == want else " "
            print(" %s violation %s\n    %s" % (mark, json.dumps(desc, sort_keys=True), msg.replace("\n", "\n    ")))
            if desc == want:
                bad += 1
    if bad:
        print("VIOLATION property=%s replay=%s" % (module.PROPERTY, path))
        return EXIT_VIOLATION
    print("replay: the recorded violation does not reproduce on %s" % repo_dir())
    return EXIT_OK
