# -*- coding: utf-8 -*-
"""Shared case enumeration for the run-level checks (C01, C03, C09, C12, C14, ...): E1 + E3 of DESIGN.md."""
import itertools
from . import prog as P
from . import harness, refrun

CFGS = {
    "default": {},
    "stop": {"stop": True},
    "dry": {"dry": True},
    "wip": {"wip": True},
    "tags_t": {"tags": "t"},
    "tags_not_t": {"tags": "not t"},
    "stop_tags_t": {"stop": True, "tags": "t"},
    "dry_tags_t": {"dry": True, "tags": "t"},
    "cafs": {"cafs": True},
}
# further combinations of the switches (C01's quantifier: "all combinations of --stop / --dry-run / @wip")
CFGS.update({
    "stop_dry": {"stop": True, "dry": True},
    "wip_dry": {"wip": True, "dry": True},
    "wip_cafs": {"wip": True, "cafs": True},
    "stop_cafs": {"stop": True, "cafs": True},
    "dry_cafs": {"dry": True, "cafs": True},
    "stop_tags_not_t": {"stop": True, "tags": "not t"},
    "dry_tags_not_t": {"dry": True, "tags": "not t"},
    "stop_dry_tags_t": {"stop": True, "dry": True, "tags": "t"},
})
COMBO_CFGS = ("stop_dry", "wip_dry", "wip_cafs", "stop_cafs", "dry_cafs", "stop_tags_not_t", "dry_tags_not_t",
              "stop_dry_tags_t")
PLAIN_CFGS = ("default", "stop", "dry")
TAG_CFGS = ("wip", "tags_t", "tags_not_t", "stop_tags_t")


def retag(node, path, target, tag):
    """add `tag` to the element at `target` (path relative to feature; ("ex", path, b) = examples block)"""
    if target == path:
        return (node[0], node[1] + (tag,)) + node[2:]
    if node[0] in ("F", "R"):
        items = list(node[3])
        for k, it in enumerate(items):
            sub = path + (k,)
            if target[:len(sub)] == sub or (target[0] == "ex" and target[1][:len(sub)] == sub):
                items[k] = retag(it, sub, target, tag)
        return (node[0], node[1], node[2], tuple(items))
    if node[0] == "O" and target[0] == "ex" and target[1] == path:
        ex = list(node[3])
        t, rows = ex[target[2]]
        ex[target[2]] = (t + (tag,), rows)
        return (node[0], node[1], node[2], tuple(ex))
    return node


def tag_targets(feature):
    out = [()]

    def walk(node, path):
        for k, it in enumerate(node[3]):
            p = path + (k,)
            out.append(p)
            if it[0] == "R":
                walk(it, p)
            elif it[0] == "O":
                for b in range(len(it[3])):
                    out.append(("ex", p, b))
    walk(feature, ())
    return out


def tag_variants(feature, tags=("t", "wip"), max_tags=1):
    """feature with exactly one tag placed on one element (all placements)"""
    for tgt in tag_targets(feature):
        for tag in tags:
            yield retag(feature, (), tgt, tag)


def exec_case(case):
    """case = (prog, cfgkey|cfgdict, faults, cleanups, hooks) -> (ref, obs)"""
    prog, cfg, faults, cleanups, hooks = case
    cfgd = CFGS[cfg] if isinstance(cfg, str) else cfg
    obs = harness.run_case(prog, cfgd, faults=faults, cleanups=cleanups, hooks=hooks)
    ref = refrun.predict(prog, cfgd, faults=faults, cleanups=cleanups, hooks=hooks)
    return ref, obs


def hook_count(prog, cfg, cleanups=None):
    cfgd = CFGS[cfg] if isinstance(cfg, str) else cfg
    return len(refrun.predict(prog, cfgd, hooks=True, cleanups=cleanups).hooks)


def cleanup_sites(prog):
    """every (trigger, layer) at which one cleanup can be registered in an all-pass run"""
    sites = [(("hook", "before_all", None), None)]
    for p, kind in P.element_paths(prog):
        if kind == "F":
            sites.append((("hook", "before_feature", p), None))
        elif kind == "R":
            sites.append((("hook", "before_rule", p), None))
        elif kind in ("S", "row"):
            sites.append((("hook", "before_scenario", p), None))
            sites.append((("step", p, 0), None))
            sites.append((("step", p, 0), "feature"))
            sites.append((("step", p, 0), "testrun"))
    return sites


def step_cases(tier, second=True):
    """E1: shapes x outcome deviations x configurations (no hooks)"""
    quick = tier == "quick"
    shapes = list(P.shapes(tier))
    for si, shp in enumerate(shapes):
        sz = P.size(shp)
        prog = (shp, P.SECOND_FEATURE) if second else (shp,)
        bound = 2 if (si < 12 or (not quick and sz <= 5)) else 1
        if not quick and si < 30:
            bound = 2
        for ndev, pr in P.deviations((shp,), bound, second=("fail", "error", "undefined", "pending", "skip")):
            for cfg in PLAIN_CFGS:
                yield ((pr[0], P.SECOND_FEATURE) if second else pr, cfg, None, None, False)
            if ndev and sz <= (4 if quick else 6) and "'fail'" in repr(pr) or "'error'" in repr(pr):
                # continue_after_failed_step: later passing steps must not wash out an earlier failure
                yield ((pr[0], P.SECOND_FEATURE) if second else pr, "cafs", None, None, False)
    # tagged variants: one tag on one element, <= 1 outcome deviation, the tag-sensitive configurations
    for si, shp in enumerate(shapes):
        if quick and (P.size(shp) > 4 or len(shp[3]) > 2):
            continue
        if not quick and P.size(shp) > 6:
            continue
        for tv in tag_variants(shp):
            for ndev, pr in P.deviations((tv,), 1, outcomes=("fail", "pending", "undefined", "skip", "abort")
                                         if quick else P.NONPASS):
                tag = "wip" if "wip" in repr(tv) else "t"
                for cfg in (("wip", "stop") if tag == "wip" else ("tags_t", "tags_not_t", "stop_tags_t")):
                    yield ((pr[0], P.SECOND_FEATURE) if second else pr, cfg, None, None, False)
                if tag == "wip" and ndev == 1 and "pending" in repr(pr):
                    yield ((pr[0], P.SECOND_FEATURE), "default", None, None, False)


def combo_cases(tier):
    """E1: small shapes x one tag placement x <= 1 (quick) / 2 (thorough) deviations x the switch combinations"""
    quick = tier == "quick"
    for shp in P.shapes(tier):
        if P.size(shp) > (2 if quick else 4) or len(shp[3]) > 2:
            continue
        variants = [shp] + [tv for tv in tag_variants(shp)]
        for tv in variants:
            rp = repr(tv)
            tag = "wip" if "'wip'" in rp else "t" if "'t'" in rp else None
            for ndev, pr in P.deviations((tv,), 1 if quick else 2, outcomes=("fail", "error", "pending", "undefined", "skip", "abort"),
                                         second=("fail", "pending", "skip")):
                for cfg in COMBO_CFGS:
                    needs = "wip" if cfg.startswith("wip") else "t" if "tags" in cfg else None
                    if needs != tag:
                        continue
                    yield ((pr[0], P.SECOND_FEATURE), cfg, None, None, False)


def excclass_cases(tier):
    """E1: small shapes x {untagged, one @wip placement} x one exception-class variant (P.CLASS_VARIANTS) or one outcome reached through
    Context.execute_steps() (P.EXEC_VARIANTS) at one step
    x {default, --wip, continue_after_failed_step, --stop}"""
    quick = tier == "quick"
    for shp in P.shapes(tier):
        if P.size(shp) > (3 if quick else 5) or len(shp[3]) > 2:
            continue
        variants = [(shp, None)] + [(tv, "wip") for tv in tag_variants(shp, tags=("wip",))]
        for tv, tag in variants:
            for ndev, pr in P.deviations((tv,), 1, outcomes=P.CLASS_VARIANTS + P.EXEC_VARIANTS):
                if not ndev:
                    continue
                for cfg in (("default", "wip", "cafs", "wip_cafs") if tag else ("default", "stop", "cafs")):
                    yield ((pr[0], P.SECOND_FEATURE), cfg, None, None, False)


def fault_cases(tier):
    """E3: all-pass programs x every hook invocation raising (2 kinds) and every cleanup site raising"""
    quick = tier == "quick"
    shapes = [s for s in P.shapes(tier) if P.size(s) <= (5 if quick else 7) and len(s[3]) <= 2]
    for shp in shapes:
        variants = [shp, retag(shp, (), (), "t"), retag(shp, (), (0,), "t")]
        for v in variants:
            prog = (v, P.SECOND_FEATURE)
            for cfg in (("default",) if quick else ("default", "stop")):
                n = hook_count(prog, cfg)
                for k in range(n):
                    for kind in ("exc", "assert"):
                        yield (prog, cfg, {k: kind}, None, True)
        prog = (shp, P.SECOND_FEATURE)
        for trig, layer in cleanup_sites((shp,)):
            yield (prog, "default", None, {trig: [("c0", True, layer)]}, True)
            yield (prog, "default", None, {trig: [("c0", "assert", layer)]}, True)
            yield (prog, "default", None, {trig: [("c0", False, layer)]}, True)


def nonpass_fault_cases(tier, outcomes=("fail", "error", "pending", "undefined", "skip")):
    """E1 x E3: one non-passing step, then a single hook fault at every hook invocation of THAT run (a fault meets an
    element that has already failed: after_step of the failing step, after_scenario / after_tag of its scenario, ...)"""
    quick = tier == "quick"
    shapes = [s for s in P.shapes(tier) if P.size(s) <= (3 if quick else 5) and len(s[3]) <= 2]
    for si, shp in enumerate(shapes):
        variants = [shp] if quick else [shp, retag(shp, (), (0,), "t")]
        for v in variants:
            for nd, pr in P.deviations((v,), 1, outcomes=outcomes):
                if not nd:
                    continue
                prog = (pr[0], P.SECOND_FEATURE)
                for cfg in (("default",) if quick else ("default", "stop")):
                    n = hook_count(prog, cfg)
                    for k in range(n):
                        yield (prog, cfg, {k: "assert" if k % 2 else "exc"}, None, True)
