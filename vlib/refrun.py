# -*- coding: utf-8 -*-
"""
Reference interpreter of abstract programs (DESIGN 3.4): predicts the
observation record of vlib.harness.run_case from the property statements
(C01, C02, C03, C09, C12, C13) - no caches, no flags, no cursors.

Predictions are *accept sets* wherever a statement is silent.
"""
from . import prog as P
from .ref_tags import ref_eval

L = lambda n: ("lit", n)
EXPRS = {
    None: None,
    "t": L("t"), "u": L("u"), "not t": ("not", L("t")), "t and u": ("and", L("t"), L("u")),
    "t or u": ("or", L("t"), L("u")), "not (t or u)": ("not", ("or", L("t"), L("u"))),
    "t and not u": ("and", L("t"), ("not", L("u"))), "t*": L("t*"),
    "-t": ("not", L("t")), "~t": ("not", L("t")), "t,u": ("or", L("t"), L("u")), "@t": L("t"),
    # every spelling of an old-style negation: prefix {-, ~} x optional @ (one representative per rewriting)
    "-@t": ("not", L("t")), "~@t": ("not", L("t")), "@t,~@u": ("or", L("t"), ("not", L("u"))),
    "not u": ("not", L("u")),
    # wildcard operands that combine ONE star with the other wildcard kinds, and a character class alone
    "[t]*": L("[t]*"), "not ?*": ("not", L("?*")), "[!u]": L("[!u]"),
    # a tag whose text contains '<' and '>' (legal tag text, looks like an outline placeholder)
    "r<1>": L("r<1>"), "not r<1>": ("not", L("r<1>")),
    # several --tags arguments are AND-ed (list form), in both dialects
    "t && not u": ("and", L("t"), ("not", L("u"))), "t && -u": ("and", L("t"), ("not", L("u"))),
    "t,u && -u": ("and", ("or", L("t"), L("u")), ("not", L("u"))), "t or u && not t": ("and", ("or", L("t"), L("u")), ("not", L("t"))),
}

ERRC = {"error", "hook_error", "undefined", "pending", "cleanup_error"}
UNT = {"untested", "untested_pending", "untested_undefined"}
PASSL = {"passed", "pending_warn", "xfailed", "xpassed"}
FAILING = ERRC | {"failed"}
ALL_BUT_PASSED_SKIPPED = {"untested", "failed", "error"}


def accept(children, explicit_skip=False, dry=False):
    """C03 roll-up accept-set, clause by clause (DESIGN 3.4 'roll-up accept-sets'): the union of the
    consequents of every clause of the statement whose antecedent holds (two clauses firing = the
    statement does not say which wins). `dry`: the children come from a dry run, in which nothing is
    executed at all, so the 'none of its contents was executed -> untested' clause fires whenever an
    untested child exists (an `error` child is then a scenario with an undefined step)."""
    ch = list(children)
    s = set()
    if any(c in ERRC for c in ch):
        s.add("error")
    if any(c == "failed" for c in ch):
        s.add("failed")
    if ch and all(c == "skipped" for c in ch):
        s.add("skipped")
    # an undefined step is never executed: (untested|skipped|undefined)* with an untested member = nothing executed
    if ch and all(c in UNT or c in ("skipped", "undefined") for c in ch) and any(c in UNT for c in ch):
        s.add("untested")
    nonsk = [c for c in ch if c != "skipped"]
    if nonsk and all(c in PASSL for c in nonsk) and not s:
        s.add("passed")
    if not s:
        s = set(ALL_BUT_PASSED_SKIPPED)      # passed + untested remainder: anything but passed/skipped
    if dry and any(c in UNT for c in ch):
        s.add("untested")
    if explicit_skip:
        s.add("skipped")
    return s


class Ref(object):
    def __init__(self, prog, cfg=None, faults=None, cleanups=None, hooks=False):
        self.prog = prog
        cfg = cfg or {}
        self.cfg = cfg
        self.expr = EXPRS[cfg.get("tags")] if not isinstance(cfg.get("tags"), tuple) else cfg["tags"][1]
        self.dry = bool(cfg.get("dry"))
        self.wip = bool(cfg.get("wip"))
        self.stop = bool(cfg.get("stop")) or self.wip
        self.cafs = bool(cfg.get("cafs"))
        # continue_after_failed_step is documented for *failed* steps; whether execution also continues after an
        # undefined / pending / interrupted step is not stated -> two admissible variants (see C02)
        self.cafs_all = bool(cfg.get("cafs_all", True))
        self.faults = faults or {}
        self.cleanups = cleanups or {}
        self.with_hooks = hooks
        # results
        self.status = {}        # path -> accept set
        self.steps = {}         # scenario path -> [accept set]
        self.calls = []
        self.hooks = []
        self.cleanup_log = []
        self.hook_failures = 0
        self.aborted = False
        self.halt = False       # no further element is started (--stop after failure / abort after failure)
        self.any_failed = False
        self.undefined_seen = False
        self.cleanups_failed = False
        self.loose_hooks = False    # after abort/kbi the hook log is only required to be well nested
        self.explicit_skip = set()
        self.hook_error_elems = set()
        self.cleanup_error_elems = set()
        self.scopes = []        # stack of (layer, [cleanup (cid, raising)])
        self.info = {p: (k, i) for p, k, i in P.walk_scenarios(prog)}
        self.mechanisms = set()
        self.fault_sites = []   # "hookname@kind" of every injected fault that fired
        self.visited = []       # scenario paths in the order their run was started (incl. de-selected ones)
        self.processed = {}     # scenario path -> indexes of the steps that get a match/result event pair
        self.not_started = set()  # feature indexes never started (--stop / abort / failed before_all)

    # -- selection
    def selected(self, tags):
        ok = True
        if self.expr is not None:
            ok = ref_eval(self.expr, set(tags))
        if self.wip:
            ok = ok and ("wip" in tags)
        return ok

    def container_selected(self, node, path, inh):
        tags = tuple(inh) + tuple(node[1])
        if self.selected(tags):
            return True
        return self.any_child_selected(path) or self.any_inner_own_match(node, tags)

    def any_inner_own_match(self, node, tags):
        """an inner rule/outline whose OWN effective tags satisfy the expression although none of its scenarios
        does (e.g. 't and not u' with @t on the outline and @u on its examples): the statement is silent on
        whether the enclosing containers count as selected -> callers only relax the hook-log comparison"""
        for it in node[3]:
            if it[0] in ("R", "O"):
                t2 = tuple(tags) + tuple(x for x in it[1] if x != P.PTAG)
                if self.selected(t2):
                    return True
            if it[0] == "R" and self.any_inner_own_match(it, tuple(tags) + tuple(it[1])):
                return True
        return False

    def any_child_selected(self, path):
        for p, (k, i) in self.info.items():
            if p[:len(path)] == path and self.selected(i["tags"]):
                return True
        return False

    # -- hooks / faults / cleanups
    def hook(self, name, ref, kind=""):
        """returns True if the hook invocation raised"""
        if self.dry or not self.with_hooks:
            return False
        if self.with_hooks is not True and name not in self.with_hooks:
            return False        # the environment does not provide this hook
        k = len(self.hooks)
        self.hooks.append((name, ref))
        if "tag" not in name and "step" not in name:
            for cid, raising, layer in self.cleanups.get(("hook", name, ref), ()):
                self.add_cleanup(cid, raising, layer)
        if k in self.faults:
            self.hook_failures += 1
            self.fault_sites.append("%s@%s" % (name, kind))
            return True
        return False

    def add_cleanup(self, cid, raising, layer):
        if layer:
            for sc in reversed(self.scopes):
                if sc[0] == layer:
                    sc[1].append((cid, raising))
                    return
            raise LookupError(layer)
        self.scopes[-1][1].append((cid, raising))

    def push(self, layer):
        self.scopes.append((layer, []))

    def pop(self):
        layer, cl = self.scopes.pop()
        return self.run_cleanups(cl)

    def run_cleanups(self, cl):
        failed = False
        for cid, raising in reversed(cl):
            self.cleanup_log.append(cid)
            if raising:
                failed = True
        return failed

    # -- run
    def run(self):
        self.push("testrun")
        if self.hook("before_all", None):
            self.aborted = True
        no_more = self.aborted
        for fi, f in enumerate(self.prog):
            if no_more:
                self.never_started(f, (fi,))
                self.not_started.add(fi)
                continue
            failed = self.container(f, (fi,), (), "feature")
            if failed:
                self.any_failed = True
                if self.stop or self.aborted:
                    no_more = True
        if self.hook("after_all", None):
            self.aborted = True
        layer, cl = self.scopes[-1]
        if self.run_cleanups(cl):
            self.cleanups_failed = True
        self.verdict = bool(self.any_failed or self.aborted or self.hook_failures or self.undefined_seen
                            or self.cleanups_failed)
        return self

    def never_started(self, node, path):
        for p, kind in P.element_paths(self.prog):
            if p[:len(path)] == path and p not in self.status:
                self.status[p] = {"untested"}
                if kind in ("S", "row"):
                    self.steps[p] = [{"untested"}] * len(self.info[p][1]["steps"])

    def container(self, node, path, inh, layer):
        tags = tuple(inh) + tuple(node[1])
        sel = self.container_selected(node, path, inh)
        own_match = self.selected(tags)
        self.push(layer)
        failed_count = 0
        hook_failed = False
        hooks_called = False
        skip_untested = self.aborted
        if not self.dry and sel:
            if self.with_hooks and not self.any_child_selected(path):
                # own tags match, no scenario selected: statement silent on whether hooks fire
                self.loose_hooks = True
            hooks_called = True
            for t in node[1]:
                if self.hook("before_tag", ("tag", t), layer):
                    hook_failed = True
            if self.hook("before_" + layer, path):
                hook_failed = True
            if hook_failed:
                failed_count += 1
            skip_untested = hook_failed or self.aborted
        if self.aborted:
            self.loose_hooks = True
        if not skip_untested:
            for k, it in enumerate(node[3]):
                p = path + (k,)
                if it[0] == "S":
                    failed = self.scenario(p)
                elif it[0] == "O":
                    failed = self.outline(it, p)
                else:
                    failed = self.container(it, p, tags, "rule")
                if failed:
                    failed_count += 1
                    if self.stop or self.aborted:
                        break
        if hooks_called:
            if self.hook("after_" + layer, path):
                hook_failed = True
            for t in node[1]:
                if self.hook("after_tag", ("tag", t), layer):
                    hook_failed = True
            if hook_failed:
                failed_count += 1
        cleanup_failed = self.pop()
        if cleanup_failed:
            failed_count += 1
            self.cleanup_error_elems.add(path)
        if hook_failed:
            self.hook_error_elems.add(path)
        # everything below that was not visited stays untested
        self.never_started(node, path)
        self.status[path] = None        # structural accept-set, computed by the comparer from actual children
        return failed_count > 0

    def outline(self, node, path):
        failed_count = 0
        n = sum(len(rows) for _, rows in node[3])
        for ri in range(n):
            failed = self.scenario(path + (ri,))
            if failed:
                failed_count += 1
                if self.stop or self.aborted:
                    break
        for ri in range(n):
            p = path + (ri,)
            if p not in self.status:
                self.status[p] = {"untested"}
                self.steps[p] = [{"untested"}] * len(self.info[p][1]["steps"])
        self.status[path] = None
        return failed_count > 0

    def scenario(self, path):
        kind, info = self.info[path]
        tags, own, steps = info["tags"], info["own"], info["steps"]
        sel = self.selected(tags)
        failed = False
        hook_failed = False
        hooks_called = False
        skip_untested = self.aborted
        entry_aborted = self.aborted
        self.push("scenario")
        self.visited.append(path)
        proc = self.processed.setdefault(path, [])
        if not self.dry and sel:
            hooks_called = True
            for t in own:
                if self.hook("before_tag", ("tag", t), "scenario"):
                    hook_failed = True
            if self.hook("before_scenario", path):
                hook_failed = True
            if hook_failed:
                failed = True
            skip_untested = hook_failed or self.aborted
        sts = []
        explicit = False
        wip_tag = "wip" in tags
        if skip_untested:
            if sel:
                sts = [{"untested"}] * len(steps)
            else:
                # de-selected scenario reached after an abort: statement silent (skipped or untested)
                sts = [{"untested", "skipped"}] * len(steps)
        elif not sel:
            sts = [{"skipped"}] * len(steps)
        elif self.dry:
            for idx, (sid, o) in enumerate(steps):
                proc.append(idx)
                if o == "undefined":
                    sts.append({"undefined", "untested_undefined"})
                    self.undefined_seen = True
                    self.mechanisms.add("dry-undefined")
                else:
                    sts.append({"untested"})
        else:
            going = True
            for idx, (sid, o) in enumerate(steps):
                if not going:
                    if explicit and not failed:
                        sts.append({"skipped"})
                    elif o == "undefined":
                        sts.append({"undefined"})
                        self.undefined_seen = True
                    else:
                        sts.append({"skipped"})
                    continue
                proc.append(idx)
                if o == "undefined":
                    sts.append({"undefined"})
                    self.undefined_seen = True
                    failed = True
                    going = self.cafs and self.cafs_all
                    continue
                st = None
                o = P.BASE.get(o, o)        # exception-class variants behave like their base outcome
                bfail = self.hook("before_step", (path, idx))
                if not bfail and o.startswith("convert"):
                    st = "error"            # the argument converter raised: the step function is never called
                elif not bfail:
                    self.calls.append((path, sid))
                    for cid, raising, layer in self.cleanups.get(("step", path, idx), ()):
                        self.add_cleanup(cid, raising, layer)
                    if o in ("pass", "abort"):
                        st = "passed"
                        if o == "abort":
                            self.aborted = True
                            self.mechanisms.add("abort")
                    elif o == "fail":
                        st = "failed"
                    elif o == "error":
                        st = "error"
                    elif o == "kbi":
                        st = "error"
                        self.aborted = True
                        self.loose_hooks = True
                    elif o == "pending":
                        st = "pending_warn" if wip_tag else "pending"
                    elif o == "skip":
                        st = "skipped"
                        explicit = True
                        # skip() marks every not-yet-executed step skipped; executed ones keep their status
                    else:
                        raise ValueError(o)
                afail = self.hook("after_step", (path, idx))
                if bfail or afail:
                    st = "hook_error"
                sts.append({st})
                if st in FAILING:
                    failed = True
                    going = self.cafs and (self.cafs_all or (st in ("failed", "error", "hook_error") and o != "kbi"))
                elif explicit:
                    going = False
        if hooks_called:
            if self.hook("after_scenario", path):
                hook_failed = True
            for t in own:
                if self.hook("after_tag", ("tag", t), "scenario"):
                    hook_failed = True
            if hook_failed:
                failed = True
        if self.pop():
            failed = True
            self.cleanup_error_elems.add(path)
        if hook_failed:
            self.hook_error_elems.add(path)
        if explicit:
            self.explicit_skip.add(path)
        self.steps[path] = sts
        self.status[path] = None
        if entry_aborted and not sel:
            self.status[path] = {"untested", "skipped"}
        if failed:
            self.any_failed = True
        return failed


def predict(prog, cfg=None, faults=None, cleanups=None, hooks=False):
    return Ref(prog, cfg, faults, cleanups, hooks).run()


# ----------------------------------------------------------------- comparison
def _norm_hooks(log):
    """sort each maximal run of consecutive after_tag entries (order among them is not stated)"""
    out, run = [], []
    for e in log:
        if e[0] == "after_tag":
            run.append(e)
        else:
            out.extend(sorted(run))
            run = []
            out.append(e)
    out.extend(sorted(run))
    return out


def children_of(prog, path, status):
    """actual child statuses of a container/outline path"""
    node = P.get(prog, path)
    if node[0] == "O":
        n = sum(len(rows) for _, rows in node[3])
        return [status[path + (ri,)] for ri in range(n)]
    return [status[path + (k,)] for k in range(len(node[3]))]


def compare(prog, ref, obs, what=("verdict", "steps", "calls", "status", "hooks", "cleanups")):
    """-> list of (descriptor, message)"""
    v = []
    cfgs = ",".join(k for k in ("dry", "stop", "wip", "cafs") if ref.cfg.get(k)) or "default"
    if ref.cfg.get("tags"):
        cfgs += ",tags"
    if obs["escaped"]:
        v.append(({"subcheck": "run", "clause": "exception-escapes-run", "exc": obs["escaped"]},
                  "run() raised %s: %s" % (obs["escaped"], obs.get("escaped_msg"))))
        return v
    if "verdict" in what and obs["verdict"] != ref.verdict:
        why = ("abort" if ref.aborted else "hook" if ref.hook_failures else "cleanup" if ref.cleanups_failed
               else "undefined" if ref.undefined_seen and not ref.any_failed else "step-or-child")
        v.append(({"subcheck": "verdict", "clause": "false-green" if ref.verdict else "false-red",
                   "config": cfgs, "reason": why},
                  "run() returned failed=%s, expected %s (reason class %s)" % (obs["verdict"], ref.verdict, why)))
    if "steps" in what:
        for path, sts in sorted(ref.steps.items()):
            got = obs["steps"].get(path)
            if got is None or len(got) != len(sts):
                v.append(({"subcheck": "steps", "clause": "step-count"},
                          "scenario %r: %r steps observed, %d expected" % (path, got, len(sts))))
                continue
            for i, (g, acc) in enumerate(zip(got, sts)):
                if g not in acc:
                    v.append(({"subcheck": "steps", "clause": "status", "config": cfgs,
                               "got": g, "want": "|".join(sorted(acc))},
                              "scenario %r step #%d: status %s, expected %s (all steps: %s)"
                              % (path, i, g, sorted(acc), got)))
                    break
    if "calls" in what and obs["calls"] != ref.calls:
        if True:
            i = next((k for k, (a, b) in enumerate(zip(obs["calls"], ref.calls)) if a != b),
                     min(len(obs["calls"]), len(ref.calls)))
            v.append(({"subcheck": "calls", "clause": "call-log", "config": cfgs,
                       "kind": "extra" if len(obs["calls"]) > len(ref.calls) else
                               "missing" if len(obs["calls"]) < len(ref.calls) else "order"},
                      "step-function call log differs at #%d: got %r, expected %r"
                      % (i, obs["calls"][i:i + 3], ref.calls[i:i + 3])))
    if "status" in what:
        for path, kind in P.element_paths(prog):
            got = obs["status"].get(path)
            if kind in ("S", "row"):
                acc = ref.status.get(path)
                if acc is None:
                    acc = accept(obs["steps"][path], path in ref.explicit_skip, dry=ref.dry)
                clause = "scenario-rollup"
            else:
                acc = accept(children_of(prog, path, obs["status"]), dry=ref.dry)
                clause = "container-rollup"
            if path in ref.hook_error_elems and path in ref.cleanup_error_elems:
                # a hook of the element AND one of its cleanups raised: which of the two error marks wins is not stated
                acc = set(FAILING) | {"hook_error"}
                clause = "hook+cleanup-error-mark"
            elif path in ref.hook_error_elems:
                acc = {"hook_error"}
                clause = "hook-error-mark"
            elif path in ref.cleanup_error_elems:
                acc = set(FAILING)
                clause = "cleanup-error-mark"
            if got not in acc:
                kids = obs["steps"].get(path) if kind in ("S", "row") else children_of(prog, path, obs["status"])
                v.append(({"subcheck": "status", "clause": clause, "kind": kind, "got": str(got),
                           "want": "|".join(sorted(acc)), "children": "+".join(sorted(set(kids))),
                           "fault": ",".join(ref.fault_sites)},
                          "%s %r has status %s, acceptable %s; children %s (config %s)"
                          % (kind, path, got, sorted(acc), kids, cfgs)))
    if "hooks" in what and ref.with_hooks:
        if ref.loose_hooks:
            bad = _nesting_error(obs["hooks"])
            if bad:
                v.append(({"subcheck": "hooks", "clause": "nesting"}, bad))
        elif _norm_hooks(obs["hooks"]) != _norm_hooks(ref.hooks):
            a, b = _norm_hooks(obs["hooks"]), _norm_hooks(ref.hooks)
            i = next((k for k, (x, y) in enumerate(zip(a, b)) if x != y), min(len(a), len(b)))
            v.append(({"subcheck": "hooks", "clause": "order", "config": cfgs,
                       "got": a[i][0] if i < len(a) else "end", "want": b[i][0] if i < len(b) else "end"},
                      "hook log differs at #%d: got %r, expected %r" % (i, a[i:i + 3], b[i:i + 3])))
    if "cleanups" in what and obs["cleanups"] != ref.cleanup_log:
        v.append(({"subcheck": "cleanups", "clause": "order-or-missing"},
                  "cleanup log %r, expected %r" % (obs["cleanups"], ref.cleanup_log)))
    return v


def _cafs_relaxed(ref, obs):
    """continue_after_failed_step: after an undefined/pending step the statement is silent"""
    for path, sts in ref.steps.items():
        seen_fail = False
        for a in sts:
            if "undefined" in a or "pending" in a:
                return True
    return False


PAIR = {"before_all": "after_all", "before_feature": "after_feature", "before_rule": "after_rule",
        "before_scenario": "after_scenario", "before_step": "after_step"}


def _nesting_error(log):
    """well-nestedness of a hook log: every before_X(e) closed by after_X(e) in stack order"""
    stack = []
    for name, ref in log:
        if "tag" in name:
            continue
        if name in PAIR:
            stack.append((name, ref))
        else:
            if not stack or PAIR[stack[-1][0]] != name or stack[-1][1] != ref:
                return "hook %s(%r) does not close %r" % (name, ref, stack[-1] if stack else None)
            stack.pop()
    if stack:
        return "hooks left open: %r" % stack
    return None
