# -*- coding: utf-8 -*-
"""
Abstract Gherkin documents -> text + the model a faithful parser must return
(C04), plus per-line annotations used by C05's fault acceptor.

Nothing in here is derived from behave/parser.py: the expected model is
computed from the abstract document while the text is written (every emitted
line knows its own 1-based number), keyword aliases come from the keyword
*table* ``behave.i18n.languages`` (data, part of the property statement:
"every supported language, every alias").

Abstract document (plain picklable literals)::

    doc   = {"lang": "en", "header": False, "alias": {kind: alias}, "tags": [..], "name": str,
             "desc": [str], "bg": BG | None, "items": [S | O | R]}
    BG    = {"name": str, "desc": [str], "steps": [STEP]}
    S     = {"k": "scenario", "tags": [..], "name": str, "desc": [str], "steps": [STEP]}
    O     = {"k": "outline",  ... as S ..., "examples": [{"tags": [..], "name": str, "table": TABLE | None}]}
    R     = {"k": "rule", "tags": [..], "name": str, "desc": [str], "bg": BG | None, "items": [S | O]}
    STEP  = (kind, name, arg)     kind in given/when/then/and/but/star
    arg   = None | ("text", quotes, [content lines][, close[, shift]]) | ("table", [heading cells], [[row cells], ..])
            | ("both", "text" | "table" (which comes first), text arg, table arg)
            (close: column of the closing quotes relative to the opening ones: 0, +n, -n or "col0";
             shift: indentation of the whole doc-string relative to where a table would stand: 0, +n, -n)
            (cells are written raw, e.g. "x\\|y"; the expected cell is the unescaped, stripped text)

Layout (all optional)::

    {"indent": "2" | "0" | "4" | "tab", "insert": {base_pos: [lines]}, "taglines": 1 | 2,
     "tagcomment": bool, "eol": "\\n" | "\\r\\n" | "\\r", "eol_at": {line index: eol}, "final_newline": bool,
     "trail": (blanks, kinds | "all"), "strip_colon": bool}

``insert`` puts extra (blank / comment) lines *before* base line number
``base_pos`` (0-based index in the un-deviated rendering; ``nbase`` = after the
last line).  The expected line numbers move accordingly because they are taken
from the emission itself.
"""
from __future__ import print_function
import itertools

BLOCK_KINDS = ("feature", "rule", "background", "scenario", "scenario_outline", "examples")
STEP_KINDS = ("given", "when", "then", "and", "but")
INDENT_UNITS = {"0": u"", "2": u"  ", "4": u"    ", "tab": u"\t"}

_LANG = {}


def languages():
    """The keyword table: etc/gherkin/gherkin-languages.json of the repository under test (the upstream cucumber
    data that behave/i18n.py is generated from), in i18n's key spelling.  Falls back to behave.i18n.languages if
    the file is missing (then a truncated alias list in i18n.py cannot be noticed; table_source() tells)."""
    if not _LANG:
        import json
        import os
        from vlib.core import repo_dir
        path = os.path.join(repo_dir(), "etc", "gherkin", "gherkin-languages.json")
        try:
            with open(path, encoding="utf-8") as f:
                data = json.load(f)
            for lang, tab in data.items():
                tab = dict(tab)
                if "scenarioOutline" in tab:
                    tab["scenario_outline"] = tab.pop("scenarioOutline")
                _LANG[lang] = tab
            _SRC.append(path)
        except (IOError, OSError, ValueError):
            from behave import i18n
            _LANG.update(i18n.languages)
            _SRC.append("behave.i18n")
    return _LANG


_SRC = []


def table_source():
    languages()
    return _SRC[0]


def default_alias(lang, kind):
    """Alias used where the document does not name one: the first alias of the keyword table that is not '* '
    and (step keywords) does not merely extend another step alias of the language - so that a document that
    puts ONE alias under test is not disturbed by its other keywords.  Decided from the table alone."""
    tab = languages()[lang]
    if kind == "star":
        return u"* "
    if kind in STEP_KINDS:
        every = [b for k in STEP_KINDS for b in tab[k] if b != u"* "]
        for a in tab[kind]:
            if a != u"* " and not any(b != a and a.lower().startswith(b.lower()) for b in every):
                return a
        return u"* " if u"* " in tab[kind] else tab[kind][0]
    return tab[kind][0]


class AnyOf(object):
    """accept-set marker inside an expected model"""
    def __init__(self, options, why=""):
        self.options = tuple(options)
        self.why = why

    def __repr__(self):
        return "AnyOf%r" % (self.options,)


# ---------------------------------------------------------------- rendering
class _Out(object):
    def __init__(self, layout):
        layout = layout or {}
        self.unit = INDENT_UNITS[layout.get("indent", "2")]
        self.insert = layout.get("insert") or {}
        self.taglines = layout.get("taglines")
        self.tagcomment = layout.get("tagcomment", False)
        # trailing whitespace: (blanks, kinds of lines that get them | "all"); never on doc-string content lines
        self.trail = layout.get("trail")
        # BEHAVE_STRIP_STEPS_WITH_TRAILING_COLON=yes: a step that carries a doc-string or table loses a trailing ':'
        self.strip_colon = layout.get("strip_colon", False)
        self.lines = []
        self.base = 0
        self.indoc = set()      # base positions at which an inserted line would be doc-string content
        self.ann = []           # per base line: (kind, info)
        self._in_doc = False

    def _flush_inserts(self):
        for extra in self.insert.get(self.base, ()):
            self.lines.append(extra)

    def emit(self, level, text, kind, info=None, raw=False):
        if self._in_doc:
            self.indoc.add(self.base)
        self._flush_inserts()
        if self.trail and kind != "doc_line" and (self.trail[1] == "all" or kind in self.trail[1]):
            if not raw:
                text = self.unit * level + text
                raw = True
            text += self.trail[0]
        if raw:
            self.lines.append(text)
        else:
            self.lines.append((self.unit * level + text) if text != u"" or kind != "doc_line" else u"")
        self.base += 1
        self.ann.append((kind, info))
        return len(self.lines)

    def finish(self):
        self._flush_inserts()


def _tags(out, level, tags):
    """-> expected [{"name", "line"}]"""
    if not tags:
        return []
    nl = out.taglines or 1
    groups = [tags]
    if nl == 2 and len(tags) >= 2:
        h = (len(tags) + 1) // 2
        groups = [tags[:h], tags[h:]]
    exp = []
    for g in groups:
        text = u" ".join(u"@" + t for t in g)
        if out.tagcomment:
            text += u"   # trailing comment @notatag"
        n = out.emit(level, text, "tag")
        exp.extend({"kind": "tag", "name": t, "line": n} for t in g)
    return exp


def _unescape(cell):
    return cell.replace(u"\\|", u"|").strip()


def _table(out, level, table, kind):
    headings, rows = table
    exp = {"kind": "table", "headings": [_unescape(c) for c in headings], "rows": []}
    exp["line"] = out.emit(level, u"| " + u" | ".join(headings) + u" |", "row", (kind, len(headings), 0))
    for i, r in enumerate(rows):
        n = out.emit(level, u"| " + u" | ".join(r) + u" |", "row", (kind, len(headings), i + 1))
        exp["rows"].append({"kind": "row", "cells": [_unescape(c) for c in r], "line": n})
    return exp


class _StepCtx(object):
    """tracks the possible types of the preceding step (a set: aliases may be ambiguous)"""
    def __init__(self, lang, alias, bg_last):
        self.tab = languages()[lang]
        self.lang = lang
        self.alias = alias
        self.prev = None
        self.bg_last = bg_last      # frozenset of types supplied by the enclosing background(s) or None

    def types(self, kind, alias):
        inherit = self.prev or self.bg_last
        if kind == "star" or alias == u"* ":
            if self.prev:
                t = set(self.prev)
            else:
                # no preceding step in this element: the statement is silent; behave documents '*' as a
                # generic step -> 'given' when nothing precedes; a type supplied by the background is fine too
                t = {"given"} | set(self.bg_last or ())
        else:
            t = set()
            for k in STEP_KINDS:
                if alias in self.tab[k]:
                    if k in ("and", "but"):
                        if inherit:
                            t |= set(inherit)
                    else:
                        t.add(k)
        t = frozenset(t)
        self.prev = t
        return t


def _steps(out, level, steps, ctx, owner):
    exp = []
    for i, (kind, name, arg) in enumerate(steps):
        alias = ctx.alias.get(kind) or default_alias(ctx.lang, kind)
        types = ctx.types(kind, alias)
        n = out.emit(level, alias + name, "step", (owner, i, kind))
        e = {"kind": "step", "keyword": alias.rstrip(), "name": name.strip(), "line": n, "text": None, "table": None,
             "type": sorted(types)[0] if len(types) == 1 else AnyOf(sorted(types)),
             "_akind": kind, "_alias": alias}
        if out.strip_colon and arg is not None and e["name"].endswith(u":"):
            e["name"] = e["name"][:-1]
        if arg is not None and arg[0] == "both":
            # a step that carries a doc-string AND a table, in either order
            for part in ((arg[2], arg[3]) if arg[1] == "text" else (arg[3], arg[2])):
                _step_arg(out, level, e, owner, i, part)
        elif arg is not None:
            _step_arg(out, level, e, owner, i, arg)
        exp.append(e)
    return exp


def _step_arg(out, level, e, owner, i, arg):
    if arg[0] == "table":
        e["table"] = _table(out, level + 1, (arg[1], arg[2]), ("step", owner))
        return
    quotes, content = arg[1], arg[2]
    close = arg[3] if len(arg) > 3 else 0
    shift = arg[4] if len(arg) > 4 else 0
    # the whole doc-string may be indented deeper (+n blanks) or shallower (-n characters) than a table would be
    prefix = out.unit * (level + 1)
    if shift > 0:
        prefix += u" " * shift
    elif shift < 0:
        prefix = prefix[:max(0, len(prefix) + shift)]
    ln = out.emit(0, prefix + quotes, "doc_open", (owner, i), raw=True)
    out._in_doc = True
    for c in content:
        out.emit(0, (prefix + c) if c != u"" else u"", "doc_line", raw=True)
    # the closing delimiter may stand at any column: same as the opening one (0), deeper (+n blanks),
    # shallower (-n characters of the indentation) or at column 0 ("col0")
    if close == "col0":
        prefix = u""
    elif close > 0:
        prefix += u" " * close
    elif close < 0:
        prefix = prefix[:max(0, len(prefix) + close)]
    out.emit(0, prefix + quotes, "doc_close", raw=True)
    out._in_doc = False
    e["text"] = {"kind": "text", "value": u"\n".join(content), "line": ln, "ctype": u"text/plain"}


def _last_types(steps_exp):
    if not steps_exp:
        return None
    t = steps_exp[-1]["type"]
    return frozenset(t.options) if isinstance(t, AnyOf) else frozenset([t])


def _kw(doc, kind):
    return (doc.get("alias") or {}).get(kind) or default_alias(doc.get("lang", "en"), kind)


def _desc(out, level, desc, owner):
    for d in desc:
        out.emit(level, d, "desc", owner)
    return [d.strip() for d in desc]


def _background(out, level, doc, bg, inherited, owner):
    kw = _kw(doc, "background")
    n = out.emit(level, kw + u":" + (u" " + bg["name"] if bg["name"] else u""), "background", owner)
    e = {"kind": "background", "keyword": kw, "name": bg["name"].strip(), "line": n}
    e["desc"] = _desc(out, level + 1, bg.get("desc", ()), ("background", owner))
    ctx = _StepCtx(doc.get("lang", "en"), doc.get("alias") or {}, inherited)
    e["steps"] = _steps(out, level + 1, bg["steps"], ctx, ("background", owner))
    return e


def _scenario(out, level, doc, item, bg_last, owner):
    outline = item["k"] == "outline"
    exp_tags = _tags(out, level, item.get("tags", ()))
    kw = _kw(doc, "scenario_outline" if outline else "scenario")
    n = out.emit(level, kw + u":" + (u" " + item["name"] if item["name"] else u""), item["k"], owner)
    e = {"kind": item["k"], "keyword": kw, "name": item["name"].strip(), "line": n, "tags": exp_tags}
    e["desc"] = _desc(out, level + 1, item.get("desc", ()), (item["k"], owner))
    ctx = _StepCtx(doc.get("lang", "en"), doc.get("alias") or {}, bg_last)
    e["steps"] = _steps(out, level + 1, item["steps"], ctx, (item["k"], owner))
    if outline:
        e["examples"] = []
        for ex in item.get("examples", ()):
            xt = _tags(out, level + 1, ex.get("tags", ()))
            xkw = _kw(doc, "examples")
            xn = out.emit(level + 1, xkw + u":" + (u" " + ex["name"] if ex["name"] else u""), "examples", owner)
            x = {"kind": "examples", "keyword": xkw, "name": ex["name"].strip(), "line": xn, "tags": xt, "table": None}
            if ex.get("table") is not None:
                x["table"] = _table(out, level + 2, ex["table"], ("examples", owner))
            e["examples"].append(x)
    return e


def _items(out, level, doc, items, bg_last, owner):
    exp = []
    for i, it in enumerate(items):
        if it["k"] == "rule":
            exp.append(_rule(out, level, doc, it, bg_last, (owner, i)))
        else:
            exp.append(_scenario(out, level, doc, it, bg_last, (owner, i)))
    return exp


def _rule(out, level, doc, rule, feature_bg_last, owner):
    exp_tags = _tags(out, level, rule.get("tags", ()))
    kw = _kw(doc, "rule")
    n = out.emit(level, kw + u":" + (u" " + rule["name"] if rule["name"] else u""), "rule", owner)
    e = {"kind": "rule", "keyword": kw, "name": rule["name"].strip(), "line": n, "tags": exp_tags}
    e["desc"] = _desc(out, level + 1, rule.get("desc", ()), ("rule", owner))
    bg_last = feature_bg_last
    e["bg"] = None
    if rule.get("bg") is not None:
        e["bg"] = _background(out, level + 1, doc, rule["bg"], feature_bg_last, ("rule", owner))
        bg_last = _last_types(e["bg"]["steps"]) or feature_bg_last
    e["items"] = _items(out, level + 1, doc, rule["items"], bg_last, ("rule", owner))
    return e


def _result(out, exp, layout):
    out.finish()
    layout = layout or {}
    eol = layout.get("eol", u"\n")
    eol_at = layout.get("eol_at") or {}          # {index of the line: its own line end} (mixed line endings)
    parts = []
    for i, line in enumerate(out.lines):
        parts.append(line)
        if i + 1 < len(out.lines) or layout.get("final_newline", True):
            parts.append(eol_at.get(i, eol))
    text = u"".join(parts)
    return {"text": text, "lines": out.lines, "expected": exp, "nbase": out.base, "indoc": out.indoc, "ann": out.ann}


def render(doc, layout=None):
    """abstract feature -> {"text", "lines", "expected", "nbase", "indoc", "ann"}"""
    out = _Out(layout)
    lang = doc.get("lang", "en")
    if doc.get("header"):
        out.emit(0, u"# language: %s" % lang, "lang")
    exp_tags = _tags(out, 0, doc.get("tags", ()))
    kw = _kw(doc, "feature")
    n = out.emit(0, kw + u":" + (u" " + doc["name"] if doc["name"] else u""), "feature", ())
    e = {"kind": "feature", "keyword": kw, "name": doc["name"].strip(), "line": n, "tags": exp_tags, "language": lang}
    e["desc"] = _desc(out, 1, doc.get("desc", ()), ("feature", ()))
    bg_last = None
    e["bg"] = None
    if doc.get("bg") is not None:
        e["bg"] = _background(out, 1, doc, doc["bg"], None, ("feature", ()))
        bg_last = _last_types(e["bg"]["steps"])
    e["items"] = _items(out, 1, doc, doc["items"], bg_last, ())
    return _result(out, e, layout)


def render_steps(steps, lang="en", alias=None, layout=None):
    """text for parse_steps (no scenario line) + expected step list"""
    out = _Out(layout)
    ctx = _StepCtx(lang, alias or {}, None)
    exp = _steps(out, 1, steps, ctx, ("steps", ()))
    return _result(out, exp, layout)


def render_scenario(item, lang="en", alias=None, layout=None):
    out = _Out(layout)
    doc = {"lang": lang, "alias": alias or {}}
    exp = _scenario(out, 0, doc, item, None, ())
    return _result(out, exp, layout)


def render_rule(rule, lang="en", alias=None, layout=None):
    out = _Out(layout)
    doc = {"lang": lang, "alias": alias or {}}
    exp = _rule(out, 0, doc, rule, None, ())
    return _result(out, exp, layout)


def render_tags(taglines, comments=(), fillers=None, indent=u""):
    """Text for parse_tags.  taglines: [[tag, ..], ..]; comments: indexes of tag lines that get a trailing
    comment; fillers: {position: [blank / comment-only lines]} put BEFORE tag line number `position`
    (len(taglines) = after the last one).  -> (text, expected [{"kind": "tag", "name", "line"}])"""
    fillers = fillers or {}
    lines = []
    exp = []
    for i, g in enumerate(taglines):
        lines.extend(fillers.get(i, ()))
        t = indent + u" ".join(u"@" + x for x in g)
        if i in comments:
            t += u"  # trailing comment @notatag"
        lines.append(t)
        exp.extend({"kind": "tag", "name": x, "line": len(lines)} for x in g)
    lines.extend(fillers.get(len(taglines), ()))
    return u"\n".join(lines), exp


# ---------------------------------------------------------------- extraction from the real model
def _x_tags(tags):
    return [{"kind": "tag", "name": u"%s" % t, "line": getattr(t, "line", None)} for t in tags]


def _x_table(t):
    if t is None:
        return None
    return {"kind": "table", "headings": list(t.headings), "line": t.line,
            "rows": [{"kind": "row", "cells": list(r.cells), "line": r.line} for r in t.rows]}


def x_step(s):
    text = None
    if s.text is not None:
        text = {"kind": "text", "value": u"%s" % s.text, "line": getattr(s.text, "line", None),
                "ctype": getattr(s.text, "content_type", None)}
    return {"kind": "step", "keyword": s.keyword, "type": s.step_type, "name": s.name, "line": s.line,
            "text": text, "table": _x_table(s.table)}


def x_background(b):
    if b is None:
        return None
    return {"kind": "background", "keyword": b.keyword, "name": b.name, "line": b.line,
            "desc": list(b.description), "steps": [x_step(s) for s in b.steps]}


def x_scenario(s):
    from behave import model
    outline = isinstance(s, model.ScenarioOutline)
    e = {"kind": "outline" if outline else "scenario", "keyword": s.keyword, "name": s.name, "line": s.line,
         "tags": _x_tags(s.tags), "desc": list(s.description), "steps": [x_step(t) for t in s.steps]}
    if outline:
        e["examples"] = [{"kind": "examples", "keyword": x.keyword, "name": x.name, "line": x.line,
                          "tags": _x_tags(x.tags), "table": _x_table(x.table)} for x in s.examples]
    return e


def x_rule(r):
    return {"kind": "rule", "keyword": r.keyword, "name": r.name, "line": r.line, "tags": _x_tags(r.tags),
            "desc": list(r.description), "bg": x_background(r.background), "items": _x_items(r)}


def _x_items(container):
    from behave import model
    out = []
    for it in container.run_items:
        if isinstance(it, model.Rule):
            out.append(x_rule(it))
        else:
            out.append(x_scenario(it))
    return out


def x_feature(f):
    return {"kind": "feature", "keyword": f.keyword, "name": f.name, "line": f.line, "tags": _x_tags(f.tags),
            "language": f.language, "desc": list(f.description), "bg": x_background(f.background),
            "items": _x_items(f)}


# ---------------------------------------------------------------- comparison
def diff(exp, got, path=()):
    """-> list of (path, expected, got) for every leaf that differs (keys starting with '_' are annotations)"""
    if isinstance(exp, AnyOf):
        return [] if got in exp.options else [(path, exp, got)]
    if isinstance(exp, dict):
        if not isinstance(got, dict):
            return [(path, _short(exp), got)]
        # a rule that has no Background of its own may carry a synthesised empty one (inheritance device):
        out = []
        for k in exp:
            if k.startswith("_"):
                continue
            if k == "bg" and exp[k] is None and exp.get("kind") == "rule" and got.get(k) is not None:
                g = got[k]
                if not g["steps"] and not g["name"] and not g["desc"]:
                    continue
            if k not in got:
                out.append((path + (k,), exp[k], "<missing>"))
            else:
                out.extend(diff(exp[k], got[k], path + (k,)))
        return out
    if isinstance(exp, (list, tuple)):
        if not isinstance(got, (list, tuple)):
            return [(path, exp, got)]
        if len(exp) != len(got):
            return [(path + ("len",), len(exp), len(got))]
        out = []
        for i, (a, b) in enumerate(zip(exp, got)):
            out.extend(diff(a, b, path + (i,)))
        return out
    return [] if exp == got else [(path, exp, got)]


def _short(x):
    if isinstance(x, dict):
        return "<%s %r line %s>" % (x.get("kind"), x.get("name"), x.get("line"))
    return x


def path_class(path, tree=None):
    """Clause name of a differing leaf: kind of the innermost element on the path + the field inside it, e.g.
    ('items', 1, 'steps', 0, 'text', 'line') -> 'text.line'; ('items', 0, 'steps', 'len') -> 'scenario.steps.len'.
    Independent of where in the document the element sits."""
    node = tree
    kind, rest = None, []
    for p in path:
        try:
            node = node[p]
        except Exception:
            node = None
        if isinstance(node, dict) and node.get("kind"):
            kind, rest = node["kind"], []
        elif not isinstance(p, int):
            rest.append(str(p))
    if kind is None and isinstance(tree, dict):
        kind = tree.get("kind")
    return ".".join([str(kind or "model")] + rest)


def node_at(tree, path):
    """innermost dict on the path (for descriptors: which element kind mismatched)"""
    node = tree
    last = tree if isinstance(tree, dict) else None
    for p in path:
        try:
            node = node[p]
        except Exception:
            break
        if isinstance(node, dict):
            last = node
    return last


def step_node_at(tree, path):
    """the enclosing step (for alias diagnosis)"""
    node = tree
    last = None
    for p in path:
        try:
            node = node[p]
        except Exception:
            break
        if isinstance(node, dict) and node.get("kind") == "step":
            last = node
    return last


# ---------------------------------------------------------------- alphabets
# hostile text: str.format / %-interpolation metacharacters must come back verbatim (and must not break messages)
HOSTILE = u"{name} {} } { %s %(x)s %"
NAMES = (u"n1", u"name with spaces", u"", u"\xdcn\xefcode n\xe4me", u"name: with colon", u"n <x>", HOSTILE)
DESCS = ((), (u"(a) first description line",), (u"(a) first description line", u"(b) second: with colon | pipe"),
         (u"(c) " + HOSTILE,), (u"(d) %s {0}", u"(e) plain again"))
TAGSETS = ((), (u"t1",), (u"t1", u"t.2"), (u"t1", u"t-2", u"k=v"), (u"t{name}%s", u"{}%(x)s%"))
STEP_NAMES = (u"1st step", u"2 things <x>", u"3rd step, longer text", u"4 | pipe in name", u"5 " + HOSTILE)
DOC_CONTENTS = ((u"plain line",), (u"first", u"  indented more", u"", u"last"), (),
                (u"| looks like a row |", u"@looks-like-tag", u"# looks like a comment", u"Given looks like a step"),
                (u"Feature: looks like a keyword", u"'''", u"Examples:"),
                (u"{name} {} } {", u"  %s %(x)s %"))
TABLES = (((u"h1",), ((u"c1",),)),
          ((u"h1", u"h2"), ((u"a", u""), (u"x\\|y", u"\xfc →"))),
          ((u"h 1", u"h2", u"h3"), ()),
          ((u"h1", u"h2"), ((u"", u""), (u"inner  space", u"b"), (u"\\|", u"c"))),
          ((u"{name}", u"%s"), ((u"{}", u"%(x)s"), (u"} {", u"%"))))
EX_TABLES = (((u"x",), ((u"1",),)),
             ((u"x", u"y"), ((u"1", u""), (u"a\\|b", u"\xfc"))),
             ((u"x",), ()),
             None,
             ((u"{x}", u"%d"), ((u"{}", u"%s"), (u"{", u"%"))))


def step_args():
    """the argument alphabet: none, both quote styles, tables"""
    out = [None]
    for i, c in enumerate(DOC_CONTENTS):
        q = u'"""' if i % 2 == 0 else u"'''"
        if q == u"'''" and any(l.strip().startswith(u"'''") for l in c):
            q = u'"""'
        out.append(("text", q, list(c)))
        q2 = u"'''" if q == u'"""' else u'"""'
        if not any(l.strip().startswith(q2) for l in c):
            out.append(("text", q2, list(c)))
    for h, rows in TABLES:
        out.append(("table", list(h), [list(r) for r in rows]))
    # a step may carry both (behave keeps .text and .table): table then doc-string, doc-string then table
    t1 = ("table", list(TABLES[1][0]), [list(r) for r in TABLES[1][1]])
    t2 = ("table", list(TABLES[0][0]), [list(r) for r in TABLES[0][1]])
    out.append(("both", "table", ("text", u'"' * 3, list(DOC_CONTENTS[1])), t1))
    out.append(("both", "text", ("text", u"'" * 3, list(DOC_CONTENTS[0])), t2))
    out.append(("both", "table", ("text", u"'" * 3, [], 0, 2), t2))
    return out


def keyword_sequences(maxlen=3):
    kinds = STEP_KINDS + ("star",)
    for n in range(1, maxlen + 1):
        for seq in itertools.product(kinds, repeat=n):
            yield seq


def safe_strings():
    return [s for s in NAMES + STEP_NAMES if s] + [d for ds in DESCS for d in ds]


def unsafe_alphabet_report():
    """Description lines must not be mistakable for a keyword / tag / table / comment in ANY language, and a
    step name appended to any step alias must not create a longer alias.  -> list of problems (must be empty)."""
    bad = []
    for lang, tab in sorted(languages().items()):
        step_aliases = [a for k in STEP_KINDS for a in tab[k]]
        for ds in DESCS:
            for d in ds:
                if d[:1] in u"@|#" or d.startswith(u'"""') or d.startswith(u"'''"):
                    bad.append((lang, d, "token"))
                for a in step_aliases:
                    if d.lower().startswith(a.lower()) or d.startswith(a):
                        bad.append((lang, d, a))
                for k in BLOCK_KINDS:
                    for a in tab[k]:
                        if d.startswith(a + u":"):
                            bad.append((lang, d, a))
        for a in step_aliases:
            for n in STEP_NAMES:
                line = (a + n).lower()
                for b in step_aliases:
                    if line.startswith(b.lower()) and not a.lower().startswith(b.lower()):
                        bad.append((lang, a + n, b))
    return bad


# ---------------------------------------------------------------- document shapes
def _block_seqs(n, kinds):
    """all sequences over kinds of total length <= n"""
    for k in range(0, n + 1):
        for seq in itertools.product(kinds, repeat=k):
            yield seq


def shapes(max_blocks):
    """All feature shapes with at most max_blocks blocks.  A shape is
    (feature_bg?, (item kinds ...), ((rule_bg?, (item kinds ...)), ...)) with item kinds S / O1 / O2
    (outline with one / two Examples blocks).  Blocks = backgrounds + scenarios + outlines + rules."""
    item_kinds = ("S", "O1", "O2")

    def rules(budget):
        yield ()
        if budget < 1:
            return
        for rbg in (False, True):
            b = budget - 1 - (1 if rbg else 0)
            if b < 0:
                continue
            for items in _block_seqs(b, item_kinds):
                for rest in rules(b - len(items)):
                    yield ((rbg, items),) + rest

    for fbg in (False, True):
        b0 = max_blocks - (1 if fbg else 0)
        if b0 < 0:
            continue
        for items in _block_seqs(b0, item_kinds):
            for rs in rules(b0 - len(items)):
                yield (fbg, items, rs)


class Rot(object):
    """deterministic rotation through the detail alphabets (covering, not a product)"""
    def __init__(self, seed=0):
        self.c = seed

    def pick(self, seq, stride=1):
        self.c += 1
        return seq[(self.c * stride) % len(seq)]


_SEQS = None
_ARGS = None


def _mk_steps(rot, first_ok_inherit, nmax=2):
    """1..nmax steps; the keyword sequence rotates through ALL sequences (And/But first only if a
    background supplies the type)"""
    global _SEQS, _ARGS
    if _SEQS is None:
        _SEQS = list(keyword_sequences(3))
        _ARGS = step_args()
    while True:
        seq = rot.pick(_SEQS, 7)
        if len(seq) > nmax:
            seq = seq[:nmax]
        if seq[0] in ("and", "but") and not first_ok_inherit:
            continue
        break
    steps = []
    for k in seq:
        arg = rot.pick(_ARGS, 3) if rot.pick((0, 1, 1), 1) else None
        steps.append((k, rot.pick(STEP_NAMES, 1), arg))
    return steps


def decorate(shape, seed=0, nsteps=2, lang="en"):
    """shape -> abstract document with rotating details"""
    rot = Rot(seed)
    fbg, items, rules = shape

    def mk_bg(inherit):
        return {"name": rot.pick(NAMES, 1), "desc": list(rot.pick(DESCS, 1)), "steps": _mk_steps(rot, inherit, nsteps)}

    def mk_item(kind, inherit):
        it = {"k": "scenario" if kind == "S" else "outline", "tags": list(rot.pick(TAGSETS, 1)),
              "name": rot.pick(NAMES, 5), "desc": list(rot.pick(DESCS, 2)), "steps": _mk_steps(rot, inherit, nsteps)}
        if kind != "S":
            it["examples"] = []
            for _ in range(1 if kind == "O1" else 2):
                t = rot.pick(EX_TABLES, 1)
                it["examples"].append({"tags": list(rot.pick(TAGSETS, 3)), "name": rot.pick(NAMES, 1),
                                       "table": None if t is None else (list(t[0]), [list(r) for r in t[1]])})
        return it

    doc = {"lang": lang, "header": False, "alias": {}, "tags": list(rot.pick(TAGSETS, 1)), "name": rot.pick(NAMES, 1),
           "desc": list(rot.pick(DESCS, 1)), "bg": None, "items": []}
    inherit = False
    if fbg:
        doc["bg"] = mk_bg(False)
        inherit = True
    for k in items:
        doc["items"].append(mk_item(k, inherit))
    for rbg, ritems in rules:
        r = {"k": "rule", "tags": list(rot.pick(TAGSETS, 1)), "name": rot.pick(NAMES, 1),
             "desc": list(rot.pick(DESCS, 1)), "bg": None, "items": []}
        rinherit = inherit
        if rbg:
            r["bg"] = mk_bg(inherit)
            rinherit = True
        for k in ritems:
            r["items"].append(mk_item(k, rinherit))
        doc["items"].append(r)
    return doc
