# -*- coding: utf-8 -*-
"""
In-process driver of the real behave runner for abstract programs (DESIGN 3.3).

run_case(prog, cfg, faults, cleanups, ...) parses the rendered features with the
real parser, runs them with the real ModelRunner on a fresh StepRegistry and
returns an observation record:

    verdict     bool (return value of ModelRunner.run())
    escaped     None | exception class name that escaped run()
    status      {path: status name} for every F/R/O/S/row element
    steps       {scenario path: [status name, ...]} incl. inherited background steps
    calls       [(scenario path, step id)] in call order
    hooks       [(hook name, ref)]    ref = element path | ("tag", name) | (scenario path, step index)
    cleanups    [cleanup id] in execution order
    events      per-formatter event log (when record_events)
    stdout      text written to sys.stdout during the run (summary, hook errors, ...)
"""
from __future__ import print_function
import sys, io, logging, os
from . import prog as P

_IMPORTED = {}


def _imp():
    if not _IMPORTED:
        from behave.configuration import Configuration
        from behave.runner import ModelRunner, Context
        from behave.step_registry import StepRegistry
        from behave.parser import parse_feature
        from behave.model import Rule, ScenarioOutline, Scenario, Feature
        from behave.api.pending_step import StepNotImplementedError
        from behave import matchers
        from behave.tag_expression.builder import TagExpressionProtocol
        from behave.formatter.base import Formatter, StreamOpener
        _IMPORTED.update(locals())
    return _IMPORTED


class HookFault(Exception):
    """the Exception-subclass fault kind"""


def reset_globals():
    m = _imp()
    m["matchers"].use_step_matcher("parse")
    try:
        m["matchers"].use_default_step_matcher("parse")
    except Exception:
        pass
    m["Scenario"].continue_after_failed_step = False
    m["ScenarioOutline"].annotation_schema = u"{name} -- @{row.id} {examples.name}"
    tp = m["TagExpressionProtocol"]
    if "_current" in tp.__dict__:
        try:
            delattr(tp, "_current")
        except Exception:
            pass


def config_args(cfg):
    cfg = cfg or {}
    args = []
    t = cfg.get("tags")
    if t:
        # "a && b" = two separate --tags arguments (AND-ed by behave)
        for x in (t.split(" && ") if isinstance(t, str) else t):
            args.append("--tags=%s" % x)
    if cfg.get("stop"):
        args.append("--stop")
    if cfg.get("dry"):
        args.append("--dry-run")
    if cfg.get("wip"):
        args.append("--wip")
    if cfg.get("show_skipped") is True:
        args.append("--show-skipped")
    elif cfg.get("show_skipped") is False:
        args.append("--no-skipped")
    if not cfg.get("summary"):
        args.append("--no-summary")
    for k in ("capture", "capture_stderr", "logcapture"):
        if k in cfg:
            args.append(("--%s" if cfg[k] else "--no-%s") % k.replace("_", "-"))
    if cfg.get("name"):
        for n in cfg["name"]:
            args.append("--name=%s" % n)
    args.extend(cfg.get("extra", ()))
    return args


class LazyMap(dict):
    """id(model object) -> path. Outline rows are NOT expanded before the run (behave's own runner does not
    do that either, and code that reads `outline._scenarios` must see what a real run would show): rows are
    mapped on demand from `outline._scenarios` once behave has built them, and completely by finalize()."""

    def __init__(self):
        dict.__init__(self)
        self.outlines = []      # (path, outline object, expected number of rows)
        self.p2o = {}

    def refresh(self, build=False):
        for path, obj, n in self.outlines:
            rows = list(obj.scenarios) if build else _built_rows(obj)
            if build:
                assert len(rows) == n, "outline %r: %d scenarios for %d rows" % (path, len(rows), n)
            for ri, s in enumerate(rows):
                self[id(s)] = path + (ri,)
                self.p2o[path + (ri,)] = s

    def get(self, key, default=None):
        if key not in self:
            self.refresh()
        return dict.get(self, key, default)


def _built_rows(outline):
    """the row scenarios behave has built SO FAR, without triggering a build. `_scenarios` is the private cache of
    the present implementation; if a refactoring renames it, any private list attribute holding this outline's row
    scenarios is taken instead (the harness must not depend on the name)"""
    rows = getattr(outline, "_scenarios", None)
    if rows is not None:
        return list(rows)
    Scenario = _imp()["Scenario"]
    for name, value in vars(outline).items():
        if name.startswith("_") and isinstance(value, (list, tuple)) and value and \
                all(isinstance(x, Scenario) for x in value):
            return list(value)
    return []


def map_model(prog, feats, prebuild=False):
    """id(model object) -> path (LazyMap), and path -> object"""
    m = _imp()
    o2p = LazyMap()
    p2o = o2p.p2o

    def walk(cont, node, path):
        o2p[id(node)] = path
        p2o[path] = node
        items = list(node.run_items)
        assert len(items) == len(cont[3]), "model/program shape mismatch at %r" % (path,)
        for k, (it, obj) in enumerate(zip(cont[3], items)):
            p = path + (k,)
            if it[0] == "R":
                assert isinstance(obj, m["Rule"]), (p, obj)
                walk(it, obj, p)
            elif it[0] == "O":
                assert isinstance(obj, m["ScenarioOutline"]), (p, obj)
                o2p[id(obj)] = p
                p2o[p] = obj
                o2p.outlines.append((p, obj, sum(len(r) for _, r in it[3])))
            else:
                assert type(obj) is m["Scenario"], (p, obj)
                o2p[id(obj)] = p
                p2o[p] = obj
    for fi, (f, fo) in enumerate(zip(prog, feats)):
        walk(f, fo, (fi,))
    if prebuild:
        o2p.refresh(build=True)
    return o2p, p2o


class Recorder(object):
    """recording formatter (duck-typed; registered next to real ones)"""
    name = "recorder"

    def __init__(self, log, o2p):
        self.log = log
        self.o2p = o2p

    def _p(self, x):
        return self.o2p.get(id(x), "?")

    def uri(self, uri):
        self.log.append(("uri", uri))

    def feature(self, feature):
        self.log.append(("feature", self._p(feature)))

    def rule(self, rule):
        self.log.append(("rule", self._p(rule)))

    def background(self, background):
        self.log.append(("background", len(list(background.steps))))

    def scenario(self, scenario):
        self.log.append(("scenario", self._p(scenario)))

    def step(self, step):
        self.log.append(("step", step.name))

    def match(self, match):
        self.log.append(("match", type(match).__name__))

    def result(self, step):
        self.log.append(("result", step.name, step.status.name))

    def eof(self):
        self.log.append(("eof",))

    def close(self):
        self.log.append(("close",))


class UndescribableFault(Exception):
    """a hook fault whose text conversion fails (user exception classes with a broken __str__ exist)"""
    def __str__(self):
        raise ValueError("this exception cannot describe itself")
    __repr__ = __str__


def _raising_str(self):
    raise ValueError("this exception cannot describe itself")


class _UndescribableAssertion(AssertionError):
    __str__ = _raising_str


_UNDESC = {}


def _undescribable(base):
    if base not in _UNDESC:
        _UNDESC[base] = type("Undescribable" + base.__name__, (base,), {"__str__": _raising_str})
    return _UNDESC[base]


class _SubAssertion(AssertionError):
    pass


class _SubInterrupt(KeyboardInterrupt):
    pass


def rebuild_model(feature, order):
    """LIBRARY USE: the same model assembled by hand through the public constructors / add_* methods instead of by
    the parser. order "bottom-up": every rule gets its scenarios FIRST (constructor argument), then its own
    background (Rule.add_background: 'normally background is added before scenarios'), then it is added to the
    feature; "bottom-up-late": the rule is added to the feature before its own background is attached.
    The Scenario / ScenarioOutline / Background / Step objects of the parsed model are re-used (nothing has run yet)."""
    from behave.model import Feature, Rule
    nf = Feature(feature.filename, feature.line, feature.keyword, feature.name, tags=list(feature.tags),
                 description=list(feature.description), language=feature.language)
    nf.parser = feature.parser
    if feature.background is not None:
        nf.add_background(feature.background)
    for item in feature.run_items:
        if isinstance(item, Rule):
            own = item.background if (item.background is not None and item.background.steps) else None
            if own is not None:
                own.inherited_background = None
            nr = Rule(item.filename, item.line, item.keyword, item.name, tags=list(item.tags),
                      description=list(item.description), scenarios=list(item.run_items))
            if order == "bottom-up-late":
                nf.add_rule(nr)
                if own is not None:
                    nr.add_background(own)
            else:
                if own is not None:
                    nr.add_background(own, inherited=nf.background)
                nf.add_rule(nr)
        else:
            nf.add_scenario(item)
    return nf


def run_case(prog, cfg=None, faults=None, cleanups=None, hooks=False, record_events=False,
             formatters=None, keep_model=False, reporters=None, async_steps=False, texts=None,
             step_extra=None, probe_status=False, second_run=False, second_cfg=None, reset_between=True,
             after_run=None, rebuild=None):
    """faults: {k: "exc"|"assert"|"kbi"|"skip"|"skipf"} k-th hook invocation raises / interrupts / excludes.
    cleanups: {trigger: [(cid, raising, layer)]}, trigger = ("hook", name, path|None) | ("step", path, idx)
    formatters: callable(config, o2p) -> list of formatter objects (in addition to the recorder)
    """
    m = _imp()
    reset_globals()
    cfg = cfg or {}
    root = logging.getLogger()
    saved_handlers, saved_level = list(root.handlers), root.level
    old_out, old_err = sys.stdout, sys.stderr
    out = io.StringIO()
    sys.stdout = out
    obs = {"verdict": None, "escaped": None, "status": {}, "steps": {}, "calls": [], "hooks": [],
           "cleanups": [], "events": [], "stdout": ""}
    try:
        config = m["Configuration"](config_args(cfg), load_config=False)
        if cfg.get("cafs"):
            m["Scenario"].continue_after_failed_step = True
        if reporters is not None:
            config.reporters = reporters(config)
        reg = m["StepRegistry"]()
        metas = []
        if texts is None:
            texts = []
            for fi, f in enumerate(prog):
                t, meta = P.render(f, fi)
                texts.append(t)
                metas.append(meta)
        feats = [m["parse_feature"](t, filename="f%d.feature" % fi) for fi, t in enumerate(texts)]
        if rebuild:
            feats = [rebuild_model(f_, rebuild) for f_ in feats]
        o2p, p2o = map_model(prog, feats)
        faults = faults or {}
        cleanups = cleanups or {}
        hookcount = [0]

        def make_cleanup(cid, raising):
            def cleanup():
                obs["cleanups"].append(cid)
                if raising == "assert":
                    raise AssertionError("cleanup %s failed" % cid)     # the class of a cleanup's exception must not matter
                if raising:
                    raise RuntimeError("cleanup %s failed" % cid)
            cleanup.__name__ = "cleanup_%s" % cid
            return cleanup

        def register_cleanups(ctx, trigger):
            for cid, raising, layer in cleanups.get(trigger, ()):
                if layer:
                    ctx.add_cleanup(make_cleanup(cid, raising), layer=layer)
                else:
                    ctx.add_cleanup(make_cleanup(cid, raising))

        def make_step(kind):
            def step_impl(ctx, n):
                spath = o2p.get(id(ctx.scenario))
                if n >= 900:
                    # nested step run through Context.execute_steps(): not part of the scenario's call log
                    if kind == "fail":
                        assert False, "nested boom"
                    if kind == "error":
                        raise RuntimeError("nested err")
                    if kind == "xfail":
                        ctx.execute_steps(u"When step %d fail" % (n + 1))
                    return
                obs["calls"].append((spath, n))
                if cleanups:
                    idx = [i for i, s in enumerate(ctx.scenario.all_steps) if s.name.startswith("step %d " % n)]
                    register_cleanups(ctx, ("step", spath, idx[0] if idx else -1))
                if step_extra:
                    step_extra(ctx, kind, spath, n)
                if probe_status:
                    for attr in ("feature", "rule", "scenario"):
                        obj = getattr(ctx, attr, None)
                        if obj is not None:
                            obj.status
                if kind in P.EXEC_VARIANTS:
                    nested = {"xpass": "pass", "xfail": "fail", "xerror": "error", "x2fail": "xfail"}[kind]
                    ctx.execute_steps(u"Given step %d %s" % (900 + n, nested))
                    return
                if kind == "failS":
                    raise _SubAssertion("boom %d" % n)
                if kind == "failU":
                    raise _UndescribableAssertion("boom %d" % n)
                if kind == "pendingU":
                    raise _undescribable(m["StepNotImplementedError"])("pending %d" % n)
                if kind == "errorU":
                    raise UndescribableFault("err %d" % n)
                if kind == "pendingS":
                    from behave.exception import PendingStepError
                    raise PendingStepError("pending %d" % n)
                if kind == "errorN":
                    raise NotImplementedError("not implemented %d" % n)
                if kind == "kbiS":
                    raise _SubInterrupt()
                if kind == "fail":
                    assert False, "boom %d" % n
                if kind == "error":
                    raise RuntimeError("err %d" % n)
                if kind == "pending":
                    raise m["StepNotImplementedError"]("pending %d" % n)
                if kind == "kbi":
                    raise KeyboardInterrupt()
                if kind == "skip":
                    ctx.scenario.skip()
                if kind == "abort":
                    ctx.abort()
            step_impl.__name__ = "step_" + kind
            if async_steps:
                from behave.api.async_step import async_run_until_complete
                import asyncio

                async def astep(ctx, n):
                    await asyncio.sleep(0)
                    return step_impl(ctx, n)
                astep.__name__ = "astep_" + kind
                return async_run_until_complete(astep)
            return step_impl

        for kind in P.OUTCOMES + P.CLASS_VARIANTS + P.EXEC_VARIANTS:
            if kind != "undefined":
                reg.add_step_definition("step", "step {n:d} %s" % kind, make_step(kind))
        if cfg.get("convert") or "'convert" in repr(prog):
            # typed parameter whose converter raises -> MatchWithError (C02 'convert' outcome)
            from behave import register_type

            def bad(text):
                # the converter's exception class is part of the alphabet (zz/kk/aa/rr)
                exc = {"kk": KeyError, "aa": AssertionError, "rr": RuntimeError}.get(text, ValueError)
                raise exc("cannot convert %r" % text)
            bad.pattern = r"\w+"
            register_type(Bad=bad)
            reg.add_step_definition("step", "step {n:d} convert {x:Bad}", make_step("pass"))

        runner = m["ModelRunner"](config, feats, step_registry=reg)
        if hooks:
            def make_hook(name):
                def hook(ctx, *args):
                    k = hookcount[0]
                    hookcount[0] += 1
                    if args:
                        a = args[0]
                        if "tag" in name:
                            ref = ("tag", str(a))
                        elif "step" in name:
                            sc = ctx.scenario
                            idx = [i for i, s in enumerate(sc.all_steps) if s is a]
                            ref = (o2p.get(id(sc)), idx[0] if idx else -1)
                        else:
                            ref = o2p.get(id(a), "?")
                    else:
                        ref = None
                    obs["hooks"].append((name, ref))
                    if probe_status:
                        # user code may read .status at any time (it is a caching property)
                        for attr in ("feature", "rule", "scenario"):
                            obj = getattr(ctx, attr, None)
                            if obj is not None:
                                obj.status
                    if cleanups and "tag" not in name and "step" not in name:
                        register_cleanups(ctx, ("hook", name, ref))
                    f = faults.get(k)
                    if f == "skipf" and getattr(ctx, "feature", None) is not None:
                        # any hook may exclude the REST of the enclosing feature (it is "already partly executed")
                        ctx.feature.skip("rest excluded by hook %s" % name)
                    if f == "skipr":
                        # ... or the rest of the enclosing rule (the feature when there is no rule)
                        tgt_ = getattr(ctx, "rule", None) or getattr(ctx, "feature", None)
                        if tgt_ is not None:
                            tgt_.skip("rest excluded by hook %s" % name)
                    if f == "skip":
                        # user code that EXCLUDES the element concerned at run time (documented: feature/rule/scenario.skip())
                        if args and "tag" not in name and "step" not in name:
                            target = args[0]
                        else:
                            target = getattr(ctx, "scenario", None) or getattr(ctx, "rule", None) or \
                                getattr(ctx, "feature", None)
                        if target is not None:
                            target.skip("excluded by hook %s" % name)
                    if f == "exc":
                        raise HookFault("fault in %s #%d" % (name, k))
                    if f == "assert":
                        raise AssertionError("fault in %s #%d" % (name, k))
                    if f == "undesc":
                        # an exception that cannot be described: behave formats the exception while handling it
                        raise UndescribableFault("fault in %s #%d" % (name, k))
                    if f == "kbi":
                        # the user interrupts the run while a hook is executing (run_hook does not catch it)
                        raise KeyboardInterrupt()
                hook.__name__ = name
                return hook
            # hooks=True: the environment provides every hook; hooks=<collection of names>: only those (an
            # environment file usually defines a subset)
            runner.hooks = {n: make_hook(n) for n in
                            ("before_all", "after_all", "before_feature", "after_feature", "before_rule",
                             "after_rule", "before_scenario", "after_scenario", "before_step", "after_step",
                             "before_tag", "after_tag") if hooks is True or n in hooks}
        else:
            runner.hooks = {}
        fmts = []
        if record_events:
            fmts.append(Recorder(obs["events"], o2p))
        if formatters:
            fmts.extend(formatters(config, o2p))
        runner.formatters = fmts
        try:
            obs["verdict"] = bool(runner.run())
            if second_run:
                # history: the SAME model objects are run again (documented reset() in between) by a new runner;
                # the observation is that of the second run and must equal a fresh run's
                if reset_between:
                    for f_ in feats:
                        f_.reset()
                for key in ("calls", "hooks", "cleanups", "events"):
                    del obs[key][:]
                hookcount[0] = 0
                config2 = config
                if second_cfg is not None:
                    config2 = m["Configuration"](config_args(second_cfg), load_config=False)
                runner2 = m["ModelRunner"](config2, feats, step_registry=reg)
                runner2.hooks = runner.hooks
                runner2.formatters = runner.formatters if not record_events else fmts
                obs["verdict"] = bool(runner2.run())
        except BaseException as e:          # noqa - property: nothing escapes
            obs["escaped"] = type(e).__name__
            obs["escaped_msg"] = str(e)[:200]
        if after_run is not None:
            # user code that is the FIRST to look at the model after the run (nothing has expanded never-reached
            # outlines or read any status yet)
            obs["after_run"] = after_run(feats, runner, config)
        o2p.refresh(build=True)     # expand outlines that the run never reached (after reporters/formatters ended)
        for path, obj in list(p2o.items()):
            obs["status"][path] = obj.status.name
            if type(obj) is m["Scenario"]:
                obs["steps"][path] = [s.status.name for s in obj.all_steps]
        if keep_model:
            obs["model"] = (feats, o2p, p2o, runner, config)
    finally:
        sys.stdout, sys.stderr = old_out, old_err
        root.handlers[:] = saved_handlers
        root.setLevel(saved_level)
    obs["stdout"] = out.getvalue()
    obs["metas"] = metas
    return obs


def obs_digest(obs):
    return (obs["verdict"], obs["escaped"], sorted(obs["status"].items()), sorted(obs["steps"].items()),
            obs["calls"], obs["hooks"], obs["cleanups"], obs["events"])
