# -*- coding: utf-8 -*-
"""
Abstract programs (DESIGN 3.1), their renderer to Gherkin (3.2) and the
small-scope enumerators used by the run-level checks (E1).

A program is a tuple of features, everything is plain literal tuples:

    Feature  = ("F", tags, bg, items)          bg = None | tuple(outcome,...)
    Rule     = ("R", tags, bg, items)
    Scenario = ("S", tags, steps)              steps = tuple(outcome,...)
    Outline  = ("O", tags, ncols, examples)    examples = ((tags, rows), ...)
                                               rows = (row, ...); row = tuple of ncols outcomes
                                               (+ one tag value when the outline has the tag "<tg>")

Element *paths*: (fi,) feature; (fi, k) k-th item; (fi, k, j) item j of rule k;
an outline row appends its flat row index (over all examples blocks).
Step outcomes are encoded in the step text ("step 7 fail"); an undefined step
uses a text no definition matches.
"""
import itertools

OUTCOMES = ("pass", "fail", "error", "pending", "undefined", "skip", "kbi", "abort")
# + "convert": a typed parameter whose converter raises (C02 enumerates it as an outcome of its own; since round 13 it is also a deviation of every run-level check)
NONPASS = OUTCOMES[1:] + ("convert",)     # the default deviation alphabet of every run-level check
# exception-CLASS variants of the outcomes: for every `except X` clause of Step.run the alphabet holds X itself (above),
# a subclass of X (same status expected) and X's immediate superclass (must fall through to another clause):
#   failS = raises a subclass of AssertionError -> failed;   pendingS = raises PendingStepError (subclass of
#   StepNotImplementedError) -> pending;   errorN = raises the builtin NotImplementedError (superclass of
#   StepNotImplementedError) -> error;   kbiS = raises a subclass of KeyboardInterrupt -> like kbi
#   failU / pendingU / errorU = an AssertionError / StepNotImplementedError / Exception subclass (with args) whose
#   __str__ raises (ValueError): Step.run converts the exception to text INSIDE its except clauses; same status expected
BASE = {"failS": "fail", "pendingS": "pending", "errorN": "error", "kbiS": "kbi",
        "failU": "fail", "pendingU": "pending", "errorU": "error"}
CLASS_VARIANTS = tuple(BASE)
# outcomes produced THROUGH Context.execute_steps(): the step delegates to a nested step (documented: a failing nested
# step surfaces as AssertionError in the caller, i.e. the calling step is `failed` whatever the nested failure was);
# x2fail nests two levels deep
EXEC_VARIANTS = ("xpass", "xfail", "xerror", "x2fail")
BASE.update({"xpass": "pass", "xfail": "fail", "xerror": "fail", "x2fail": "fail"})
NOTABLE = "__no_table__"     # marker in the tags of a (row-less) examples block: render the keyword line only
PTAG = "<tg>"          # parametrised outline tag; the row supplies the value in column "tg"


def F(items, tags=(), bg=None):
    return ("F", tuple(tags), bg, tuple(items))


def R(items, tags=(), bg=None):
    return ("R", tuple(tags), bg, tuple(items))


def S(steps=("pass",), tags=()):
    return ("S", tuple(tags), tuple(steps))


def O(rows=(("pass",),), tags=(), extags=(), ncols=None):
    """outline with ONE examples block (helper); rows = tuple of rows"""
    rows = tuple(tuple(r) for r in rows)
    if ncols is None:
        ncols = len(rows[0]) - (1 if PTAG in tags else 0) if rows else 1
    return ("O", tuple(tags), ncols, ((tuple(extags), rows),))


def O2(blocks, tags=(), ncols=1):
    return ("O", tuple(tags), ncols, tuple((tuple(t), tuple(tuple(r) for r in rows)) for t, rows in blocks))


def is_placeholder(outcome):
    """background step whose outcome is taken from column K of the examples row: "<oK>" (outline rows only;
    for a plain scenario the literal text has no step definition -> undefined)"""
    return outcome.startswith("<o") and outcome.endswith(">")


def step_text(sid, outcome):
    if is_placeholder(outcome):
        return "step %d %s" % (sid, outcome)
    if outcome == "undefined":
        return "nodef %d thing" % sid
    if outcome.startswith("convert"):
        return "step %d convert %s" % (sid, CONVERT_TEXT[outcome])
    return "step %d %s" % (sid, outcome)


# "convert": typed parameter whose converter raises ValueError; convertK/A/R: KeyError / AssertionError / RuntimeError
CONVERT_TEXT = {"convert": "zz", "convertK": "kk", "convertA": "aa", "convertR": "rr"}


def cell_text(outcome):
    """how an outcome is written into an examples-table cell"""
    if outcome.startswith("convert"):
        return "convert %s" % CONVERT_TEXT[outcome]
    return "nodef" if outcome == "undefined" else outcome


# ----------------------------------------------------------------- walking
def walk_scenarios(prog):
    """yields (path, kind, info) for every runnable scenario in run order.
    info: dict(tags=effective tag tuple incl. ancestors, own=own tags (row: outline+examples tags),
               steps=list of (sid, outcome) incl. inherited background steps first, nbg=number of bg steps)"""
    for fi, f in enumerate(prog):
        sid = [0]
        for x in _walk_items(f, (fi,), (), [], sid):
            yield x


def _bg_steps(bg, sid):
    out = []
    for o in (bg or ()):
        sid[0] += 1
        out.append((sid[0], o))
    return out


def _walk_items(cont, path, inh_tags, inh_bg, sid):
    tags = tuple(inh_tags) + tuple(cont[1])
    bgs = list(inh_bg) + _bg_steps(cont[2], sid)
    for k, it in enumerate(cont[3]):
        p = path + (k,)
        if it[0] == "S":
            steps = []
            for o in it[2]:
                sid[0] += 1
                steps.append((sid[0], o))
            sbgs = [(sid_, "undefined" if is_placeholder(o_) else o_) for sid_, o_ in bgs]
            yield p, "S", {"tags": tags + tuple(it[1]), "own": tuple(it[1]), "steps": sbgs + steps, "nbg": len(bgs),
                           "names": [step_text(sid_, o_) for sid_, o_ in bgs + steps]}
        elif it[0] == "O":
            ncols = it[2]
            tsids = []
            for c in range(ncols):
                sid[0] += 1
                tsids.append(sid[0])
            ri = 0
            for extags, rows in it[3]:
                for row in rows:
                    # a block WITHOUT the "tg" column (rows no longer than ncols): the parametrised tag cannot be
                    # resolved for its rows and is dropped (C06)
                    own = tuple((row[-1] if t == PTAG else t) for t in it[1]
                                if not (t == PTAG and len(row) <= ncols)) + tuple(extags)
                    steps = [(tsids[c], row[c]) for c in range(ncols)]
                    rbgs = [(sid_, row[int(o_[2:-1])] if is_placeholder(o_) else o_) for sid_, o_ in bgs]
                    names = [("step %d %s" % (sid_, cell_text(row[int(o_[2:-1])])) if is_placeholder(o_)
                              else step_text(sid_, o_)) for sid_, o_ in bgs] + \
                            ["step %d %s" % (tsids[c], cell_text(row[c])) for c in range(ncols)]
                    yield p + (ri,), "row", {"tags": tags + own, "own": own, "steps": rbgs + steps,
                                              "nbg": len(bgs), "outline": p, "names": names}
                    ri += 1
        else:
            for x in _walk_items(it, p, tags, bgs, sid):
                yield x


def element_paths(prog):
    """all element paths in pre-order with kind: F, R, S, O, row"""
    out = []
    for fi, f in enumerate(prog):
        out.append(((fi,), "F"))
        _elem_paths(f, (fi,), out)
    return out


def _elem_paths(cont, path, out):
    for k, it in enumerate(cont[3]):
        p = path + (k,)
        if it[0] == "S":
            out.append((p, "S"))
        elif it[0] == "O":
            out.append((p, "O"))
            n = sum(len(rows) for _, rows in it[3])
            for ri in range(n):
                out.append((p + (ri,), "row"))
        else:
            out.append((p, "R"))
            _elem_paths(it, p, out)


def get(prog, path):
    node = prog[path[0]]
    for k in path[1:]:
        node = node[3][k]
    return node


# ----------------------------------------------------------------- positions / deviations
def positions(prog):
    """every place that holds a step outcome: list of position keys"""
    pos = []
    for fi, f in enumerate(prog):
        _positions(f, (fi,), pos)
    return pos


def _positions(cont, path, pos):
    if cont[2] is not None:
        for j in range(len(cont[2])):
            pos.append((path, "bg", j))
    for k, it in enumerate(cont[3]):
        p = path + (k,)
        if it[0] == "S":
            for j in range(len(it[2])):
                pos.append((p, "s", j))
        elif it[0] == "O":
            for b, (extags, rows) in enumerate(it[3]):
                for r, row in enumerate(rows):
                    for c in range(it[2]):
                        pos.append((p, "o", (b, r, c)))
        else:
            _positions(it, p, pos)


def set_outcome(prog, pos, outcome):
    path, kind, j = pos

    def rebuild(node, rest):
        if not rest:
            if kind == "bg":
                bg = list(node[2])
                bg[j] = outcome
                return (node[0], node[1], tuple(bg), node[3])
            if kind == "s":
                st = list(node[2])
                st[j] = outcome
                return (node[0], node[1], tuple(st))
            b, r, c = j
            ex = list(node[3])
            extags, rows = ex[b]
            rows = list(rows)
            row = list(rows[r])
            row[c] = outcome
            rows[r] = tuple(row)
            ex[b] = (extags, tuple(rows))
            return (node[0], node[1], node[2], tuple(ex))
        items = list(node[3])
        items[rest[0]] = rebuild(items[rest[0]], rest[1:])
        return (node[0], node[1], node[2], tuple(items))

    feats = list(prog)
    feats[path[0]] = rebuild(feats[path[0]], path[1:])
    return tuple(feats)


def deviations(prog, bound, outcomes=NONPASS, second=None):
    """all programs obtained from the all-pass `prog` by <= bound outcome deviations (simplest first);
    yields (ndev, prog')"""
    P = positions(prog)
    yield 0, prog
    if bound >= 1:
        for p in P:
            for o in outcomes:
                yield 1, set_outcome(prog, p, o)
    if bound >= 2:
        sec = second or outcomes
        for p, q in itertools.combinations(P, 2):
            for o1 in outcomes:
                for o2 in sec:
                    yield 2, set_outcome(set_outcome(prog, p, o1), q, o2)


# ----------------------------------------------------------------- rendering
def render(feature, fi=0, indent="  ", language=None):
    """-> (text, meta). meta = {"lines": {path: line}, "names": {path: name}, "steplines": {(path,'bg'|'s',j): line}}"""
    L = []
    meta = {"lines": {}, "names": {}, "steplines": {}}
    sid = [0]
    ecount = [0]

    def emit(s):
        L.append(s)
        return len(L)

    def tagline(tags, ind):
        if tags:
            emit(ind + " ".join("@" + t for t in tags))

    def steps(outs, ind, key):
        for j, o in enumerate(outs):
            sid[0] += 1
            ln = emit("%sGiven %s" % (ind, step_text(sid[0], o)))
            meta["steplines"][key + (j,)] = ln

    def container(node, path, ind, kw, name):
        tagline(node[1], ind)
        meta["lines"][path] = emit("%s%s: %s" % (ind, kw, name))
        meta["names"][path] = name
        if node[2] is not None:
            emit("%sBackground:" % (ind + indent))
            steps(node[2], ind + indent * 2, (path, "bg"))
        for k, it in enumerate(node[3]):
            p = path + (k,)
            ecount[0] += 1
            n = ecount[0]
            if it[0] == "S":
                tagline(it[1], ind + indent)
                name_ = "S%d_%d" % (fi, n)
                meta["lines"][p] = emit("%sScenario: %s" % (ind + indent, name_))
                meta["names"][p] = name_
                steps(it[2], ind + indent * 2, (p, "s"))
            elif it[0] == "O":
                tagline(it[1], ind + indent)
                name_ = "O%d_%d" % (fi, n)
                meta["lines"][p] = emit("%sScenario Outline: %s" % (ind + indent, name_))
                meta["names"][p] = name_
                ncols = it[2]
                for c in range(ncols):
                    sid[0] += 1
                    emit("%sGiven step %d <o%d>" % (ind + indent * 2, sid[0], c))
                has_ptag = PTAG in it[1]
                ri = 0
                for b, (extags, rows) in enumerate(it[3]):
                    tagline(tuple(t for t in extags if t != NOTABLE), ind + indent * 2)
                    emit("%sExamples: E%d" % (ind + indent * 2, b))
                    if NOTABLE in extags:
                        continue        # an Examples section WITHOUT any table (tolerated by behave: no scenarios)
                    has_tg = has_ptag and (not rows or len(rows[0]) > ncols)    # a block may lack the "tg" column
                    width = max([len(r) for r in rows] + [ncols + (1 if has_tg else 0)]) - (1 if has_tg else 0)
                    cols = ["o%d" % c for c in range(width)] + (["tg"] if has_tg else [])
                    emit("%s| %s |" % (ind + indent * 3, " | ".join(cols)))
                    for row in rows:
                        cells = [cell_text(v) for v in row[:width]] + ([row[-1]] if has_tg else [])
                        meta["lines"][p + (ri,)] = emit("%s| %s |" % (ind + indent * 3, " | ".join(cells)))
                        ri += 1
            else:
                container(it, p, ind + indent, "Rule", "R%d_%d" % (fi, n))

    container(feature, (fi,), "", "Feature", "F%d" % fi)
    return "\n".join(L) + "\n", meta


# ----------------------------------------------------------------- shape enumeration
def leaf_items(max_steps=2, outline_rows=(1, 2)):
    out = []
    for n in range(1, max_steps + 1):
        out.append(S(("pass",) * n))
    for nr in outline_rows:
        out.append(O((("pass",),) * nr))
    return out


def shapes(tier="quick"):
    """one-feature all-pass shapes, simplest first (DESIGN 3.1)"""
    quick = tier == "quick"
    leaves = leaf_items(2 if quick else 3)
    leaves.append(O2([((), (("pass",),)), ((), (("pass",),))]))            # two examples blocks
    if not quick:
        leaves.append(O((("pass", "pass"),), ncols=2))                      # two template steps
    rules = []
    for a in leaves[:3]:
        rules.append(R((a,)))
    rules.append(R((S(), O((("pass",), ("pass",)))), bg=("pass",)))
    rules.append(R((S(), S())))
    if not quick:
        rules.append(R((O((("pass",),)), S()), bg=("pass",)))
    items = leaves + rules
    maxn = 2 if quick else 3
    seen = set()
    for bg in (None, ("pass",)):
        for n in range(1, maxn + 1):
            for combo in itertools.product(items, repeat=n):
                if n == 3 and sum(1 for c in combo if c[0] == "R") > 1:
                    continue
                kinds = [c[0] == "R" for c in combo]
                if kinds != sorted(kinds):
                    continue        # Gherkin: everything after a Rule belongs to it -> rules come last
                f = F(combo, bg=bg)
                if f not in seen:
                    seen.add(f)
                    yield f
    # degenerate but legal: an outline with a heading-only examples block beside a block that has rows
    # (before / after it); the row-less block contributes no scenario
    e_first = O2([((), ()), ((), (("pass",), ("pass",)))])
    e_last = O2([((), (("pass",),)), ((), ())])
    for f in (F((e_first,)), F((e_last, S())), F((S(), R((e_first,), bg=("pass",)))), F((e_last,), bg=("pass",))):
        yield f
    # ... and the same with an Examples section that has NO table at all (keyword line only)
    n_first = O2([((NOTABLE,), ()), ((), (("pass",), ("pass",)))])
    n_last = O2([((), (("pass",),)), ((NOTABLE,), ())])
    for f in (F((n_first,)), F((n_last, S())), F((S(), R((n_first,), bg=("pass",))))):
        yield f
    # a scenario without steps of its own whose only children are the inherited background steps
    for f in (F((S(()), S()), bg=("pass",)), F((R((S(()),), bg=("pass",)),)), F((R((S(()), S())),), bg=("pass",))):
        yield f


def size(feature):
    return len(positions((feature,)))


SECOND_FEATURE = F((S(("pass",)), O((("pass",),))))
