# -*- coding: utf-8 -*-
"""C13 - Context scoping and cleanups: layered visibility, LIFO exactly-once cleanup.

Three parts (DESIGN section 5, C13):

E2  breadth-first search over operation histories on a real
    ``behave.runner.Context`` (built on a stub runner) against a list-of-dicts +
    list-of-cleanup-lists reference model stepped in lock-step.  A state is the
    history that reaches it; every transition rebuilds a fresh Context by
    replaying the history, applies one operation, compares result / exception
    class, the visible value of every name, ``in``, the layer stack, the mode and
    the call log - and then *drains* the context (pops every remaining frame and
    runs the test-run cleanups), comparing the complete cleanup log, so that
    every pending registration is validated in the same transition.
E3  every placement of up to 3 (4) cleanup registrations (plain / with args /
    with kwargs / generator fixture teardown, in the current frame or via
    ``layer=``) on every stack shape, with EVERY subset of them raising; plus a
    sweep of the reserved root names (failed, aborted, config, ...).
E1  real runs through ModelRunner of a feature with feature + rule + scenarios +
    an outline, in which every hook and every step sets attributes, deletes
    attributes and registers (raising) cleanups; plus execute_steps from steps
    that carry their own text/table.

The oracle is written from the property statement and the class docstrings of
Context / fixture.py; it never looks at Context's frames to *predict* anything
(``_stack`` layer names, ``_mode``, and the key sets of ``_record``/``_origin``
are read only as observations / to make the state deduplication finer).

Canonical state of the search (what two histories must share to be merged):

* per frame, outermost first: layer name; the sorted (name, value) items; the
  pending cleanups as an ORDERED list with multiplicity - (kind, function or
  fixture id, args) per registration, i.e. how often and in which order each
  callable will run when the layer ends;
* the stack of entered mode managers; the end-of-run flag;
* from the real object: the key sets of ``_record`` and ``_origin`` for x,y, and
  per frame the ordered sub-list of registered callables that are the user's
  function objects themselves rather than a wrapper, and the frame each of the
  four layer names currently resolves to (a behavioural fingerprint of the
  named-layer lookup, independent of the data structure behind it: an index
  table that lost or kept a stale entry makes a different state).

Dropped, and why merged states have the same futures: (a) concrete function /
fixture ids are renamed by first appearance - Context never inspects them and
the callables of one kind are interchangeable closures; (b) the calls already
made (a callable that ran cannot run again without the model flagging an extra
call); (c) the *values* in ``_record`` (source locations, only formatted into
warning texts) and the ``cleanup_errors`` counter (never read by an operation of
the alphabet); (d) wrappers whose run is silent (the dead generator of a fixture
whose setup raised).  Every operation of the alphabet reads only: the frames'
items (kept), the layer names (kept), the mode (kept), membership of a name in
``_record``/``_origin`` (kept), and the pending-cleanup lists.  Of the latter the
*run* behaviour (order, multiplicity, arguments, who raises) is what the model's
list states and is validated by the drain of the very transition that produced
the state (a mismatch is a violation and the state is not expanded), while the
only delayed effect - the duplicate guard of ``add_cleanup``, which searches the
list for the function object - depends exactly on the kept sub-list.  Because a
wrong abstraction hides bugs silently, the search is repeated WITHOUT any
deduplication to a smaller depth; any violation found only there is reported as
a violation (real executions), next to a failed guard saying that the canonical
form is too coarse.
"""
from __future__ import print_function
import sys
import itertools
import warnings
import hashlib
import array

PROPERTY = "C13"
LEVEL = "model_checking"
RULE = ("E2: breadth-first search over ALL operation histories on a real behave.runner.Context, length <= 5 (quick) / "
        "<= 6 (thorough) over the full alphabet {push(next layer: testrun>feature>(rule>)scenario), pop, end-of-run "
        "cleanups, set/get/del/in for names x,y values 1,2, _set_root_attribute, use_or_assign_param, "
        "use_or_create_param, add_cleanup(f | f,arg) in the current frame or with layer=L for all 4 layers (present or "
        "absent) with f a new non-raising / new raising / already registered function (<= 3 functions alive), "
        "use_fixture{generator, generator with raising teardown, plain function, generator whose setup raises, "
        "composite of two (use_composite_fixture_with + fixture_call_params), composite whose 2nd setup raises, generator "
        "with two yields, generator whose setup registers an inner cleanup}, enter user mode / enter behave mode / "
        "leave mode (nesting <= 2)}; thorough additionally length <= 7 over the sub-alphabets 'attrs' (no cleanups, no "
        "fixtures) and 'deep' (one name, two cleanup functions, current frame or layer=testrun, two fixture kinds). "
        "States are deduplicated by canonical state (frames as (layer, sorted items, cleanup entries with ids renamed by "
        "first appearance), mode stack, ended flag, key sets of Context._record/_origin for x,y); the same search "
        "WITHOUT deduplication (self-loops included, nothing shared between operations) to length 3 (quick) / 4 full + 5 "
        "attrs (thorough) must find no other canonical state and no other violation class. Every state-changing "
        "transition is followed by a full drain (leave modes, pop every frame, run the test-run cleanups) compared step "
        "by step with the model; get/in/use_or_assign/use_or_create are also applied to 'aborted', a name preset by "
        "Context.__init__. Every name of a fresh Context's test-run frame (enumerated at run time) x 4 stack shapes x "
        "2 modes x 4 write scripts. Read operations {in, hasattr, get, use_or_assign_param, use_or_create_param} x name "
        "origins {preset by __init__ (all of those names), preset then _set_root_attribute, user-mode set, behave-mode "
        "set, _set_root_attribute in either mode} x owner frame x 4 stack shapes x reading mode; the real runs probe "
        "membership of every preset name at every callback. Re-entrant cleanups: every sequence of <= 3 (thorough 4) "
        "cleanups of kinds {plain, raising, nested layer (scoped_context_layer) empty / with inner plain cleanup / with "
        "inner raising cleanup / with a generator fixture / setting+deleting an attribute, sets an attribute} in every "
        "frame of 4 stack shapes, and every sequence of <= 3 of those kinds + execute_steps in the testrun / feature / "
        "rule / scenario scope of a real ModelRunner run (LIFO exactly-once log, error raised iff some cleanup raised, "
        "first error, stack restored, owner status and verdict). Runner reuse: every sequence of 2 (thorough 3) run() calls "
        "on ONE ModelRunner over programs {plain, raising test-run cleanup, failing step, context.abort()} that set "
        "attributes in before_all / before_feature / a step, register test-run cleanups in every form (module-level "
        "function without args, args, kwargs, generator fixture, layer='testrun' from a step and from before_scenario) "
        "and probe names and failed/aborted/cleanup_errors at every callback: each run must equal the same program on a "
        "fresh runner. Duplicate layer names: a search over {push ANY layer name, "
        "also an active one and 'testrun', <= 4 frames; pop; end; add_cleanup(fresh function) to the current frame or "
        "layer=each of the 4 names} to length 6 (thorough 7), cross-checked without deduplication to length 4 (the model "
        "resolves layer= to the innermost LIVE frame of that name); E3 registrations (<= 2) on 5 stack shapes with a "
        "repeated name or an unnamed frame; real runs in which a step opens scoped_context_layer(<active name>), an UNNAMED "
        "scoped_context_layer(context), or runs another scenario as sub-scenario and registers layer=<name> cleanups "
        "inside / after it. Unnamed layers (push(None)) are part of that search's alphabet: never the target of layer=. Format-hostile text: 2..3 cleanups of one form in the "
        "innermost frame of 4 stack shapes x every non-empty raising subset x exception message in {plain, '{}', '{0}', "
        "'{x}', '}', '{', '%s', '%d %(a)s', '100%', non-ASCII, a dict repr} x cleanup callable {def, __name__ with "
        "braces, __name__ with percent signs, functools.partial, callable object, lambda} x {default, custom} "
        "on_cleanup_error; the raising cleanups of the real runs carry these messages in turn. Nested execute_steps in real runs: nesting depth 1..3 x "
        "the step at every level carrying {text, table, both, none} (distinct values per level, a sibling sub-step with "
        "other data before each nested call) x innermost sub-step {passes, fails, raises}: every step sees its own "
        "text/table, every caller sees its own again after execute_steps() returns or raises, every after_step hook sees "
        "the data of its own step, the next step sees none. E3: every placement of <= 3 (thorough 4) cleanup registrations {plain, args, kwargs, generator-fixture "
        "teardown} x {current frame, layer=each present layer} on 4 stack shapes x EVERY raising subset x {default "
        "on_cleanup_error; custom one up to 2 (thorough 3) registrations}. E1: real ModelRunner runs of a tagged feature + outline + rule program (66-72 "
        "callbacks: all 12 hook kinds and all steps incl. execute_steps sub-steps) whose callbacks probe every name set "
        "so far, set / shadow / delete attributes and register cleanups (plain, args, layer=, generator fixture), with "
        "every single raising cleanup, every single raising callback (Exception and AssertionError), pairs of raising "
        "cleanups and raising cleanup x raising callback (thorough: all; quick: all singles, fixed slices of the pairs). A case is non-trivial when its state has a shadowed name or "
        ">= 2 cleanups in one frame (E2), a raising cleanup next to a non-raising one in one frame (E3), or at least one "
        "injected fault (E1).")
ASSUMPTIONS = [
    "names x,y and values 1,2 stand for all attribute names/values (Context is name-agnostic except for the "
    "reserved root names, which are swept separately)",
    "Context is driven on a stub runner (config.verbose False); masking *warnings* are not part of the statement "
    "and are ignored (warnings filter 'ignore')",
    "cleanup functions raise Exception subclasses only (BaseException/KeyboardInterrupt in cleanups not covered)",
    "E1 owning-element clause demands a failing status (failed/error/hook_error/cleanup_error), not a specific one",
    "the random tail of the quantifier ('randomly beyond the bound') is not claimed",
    "runner reuse: each run() on one ModelRunner gets freshly parsed features (context reuse is isolated from model "
    "reuse); histories with an aborted EARLIER run are included - ModelRunner.run() starts a new Context, so the "
    "abort flag of the previous test-run scope must not leak (unlike C01, which does not state reuse after an abort)",
]

NAMES = ("x", "y")
VALUES = (1, 2)
NEST = ("testrun", "feature", "rule", "scenario")
NEXT_LAYERS = {"testrun": ("feature",), "feature": ("rule", "scenario"), "rule": ("scenario",), "scenario": ()}
MAXFUN = 3            # distinct cleanup functions alive in one state
MAXMODE = 2           # nesting of mode context managers
FIXTURES = ("gen", "genr", "plain", "badsetup", "comp", "compbad", "twoyield", "inner")
PRESET = "aborted"    # a name that Context.__init__ presets in the test-run scope (documented: initially False);
#                       the searches apply every READ operation to it (never a write)

PROFILES = {
    # name: (attribute ops, names, cleanup ops, fixture kinds, mode ops)
    "full": (True, NAMES, True, FIXTURES, True),
    "attrs": (True, NAMES, False, (), True),
    # a narrow alphabet that can be driven one level deeper: one name, two cleanup functions,
    # current frame or layer="testrun", two fixture kinds
    "deep": (False, ("x",), "narrow", ("gen", "twoyield"), False),
    # duplicate layer names: ANY layer name (also one that is already active, also "testrun") may be pushed,
    # up to 4 frames; add_cleanup of a fresh plain function to the current frame or layer=<every name>.
    # Reference model: the innermost live frame with that name.  Unnamed layers (push(None)) are mixed in:
    # an unnamed frame carries no name and is never the target of a layer= lookup; a plain add_cleanup goes
    # to the current (possibly unnamed) frame.
    "dup": (False, (), "dup", (), False),
}


class Boom(RuntimeError):
    """the exception raised by raising cleanups / fixtures of this check"""


class _Sink(object):
    def write(self, s):
        return len(s)

    def flush(self):
        pass

    def isatty(self):
        return False


# =============================================================================
# reference model (written from the statement; independent of behave)
# =============================================================================
class Model(object):
    def __init__(self):
        self.frames = [{"layer": "testrun", "data": {PRESET: False}, "cl": []}]   # outermost first
        self.modes = []
        self.nfx = 0
        self.ended = False

    # ---- helpers
    def mode(self):
        return self.modes[-1] if self.modes else "BEHAVE"

    def lookup(self, name):
        for f in reversed(self.frames):
            if name in f["data"]:
                return ("ok", f["data"][name])
        return ("exc", "AttributeError")

    def visible(self):
        out = []
        for n in NAMES:
            r = self.lookup(n)
            out.append((n, r[1] if r[0] == "ok" else "<AE>", r[0] == "ok"))
        return tuple(out)

    def layers(self):
        return tuple(f["layer"] for f in self.frames)

    def frame_for(self, target):
        if target is None:
            return self.frames[-1]
        for f in reversed(self.frames):
            if f["layer"] == target:
                return f
        return None

    def fids(self):
        seen = []
        for f in self.frames:
            for e in f["cl"]:
                if e[0] == "f" and e[1] not in seen:
                    seen.append(e[1])
        return seen

    @staticmethod
    def run_entry(e):
        """-> (log events, raised)"""
        k = e[0]
        if k == "f":
            return [("cl", e[1], e[2])], (("exc", "Boom", e[1]) if e[1][0] == "g" else None)
        if k == "t":
            return [("teardown", e[1])], None
        if k == "tr":
            return [("teardown", e[1])], ("exc", "Boom", e[1])
        if k == "t2":
            return [("teardown", e[1])], ("exc", "InvalidFixtureError", None)
        if k == "in":
            return [("inner", e[1])], None
        raise ValueError(e)

    def run_cleanups(self, frame):
        """every entry, newest first; errors do not stop the others; the first error is what is raised;
        each error is reported once to the cleanup-error handler"""
        log, first = [], None
        for e in reversed(frame["cl"]):
            l, exc = self.run_entry(e)
            log += l
            if exc is not None:
                log.append(("handler",) + exc[1:])
                if first is None:
                    first = exc
        return log, first

    # ---- the transition function: -> (result, log)
    def step(self, op):
        k = op[0]
        cur = self.frames[-1]
        if k == "push":
            self.frames.append({"layer": op[1], "data": {}, "cl": []})
            return ("ok", None), []
        if k == "pop":
            log, first = self.run_cleanups(cur)
            self.frames.pop()
            return (first or ("ok", None)), log
        if k == "end":
            log, first = self.run_cleanups(cur)
            self.ended = True
            return (first or ("ok", None)), log
        if k == "set":
            cur["data"][op[1]] = op[2]
            return ("ok", None), []
        if k == "get":
            return self.lookup(op[1]), []
        if k == "del":
            if op[1] in cur["data"]:
                del cur["data"][op[1]]
                return ("ok", None), []
            return ("exc", "AttributeError"), []
        if k == "in":
            return ("ok", self.lookup(op[1])[0] == "ok"), []
        if k == "root":
            self.frames[0]["data"][op[1]] = op[2]
            return ("ok", None), []
        if k == "uoa":
            r = self.lookup(op[1])
            if r[0] == "ok":
                return r, []
            cur["data"][op[1]] = op[2]
            return ("ok", op[2]), []
        if k == "uoc":
            r = self.lookup(op[1])
            if r[0] == "ok":
                return r, []
            cur["data"][op[1]] = op[2]
            return ("ok", op[2]), [("factory", op[2], op[1])]
        if k == "cl":
            fid, form, target = op[1], op[2], op[3]
            f = self.frame_for(target)
            if f is None:
                return ("exc", "LookupError"), []
            if form == 0:
                # documented: an identical plain function is not registered twice in a frame
                if ("f", fid, None) not in f["cl"]:
                    f["cl"].append(("f", fid, None))
            else:
                f["cl"].append(("f", fid, ("a",)))
            return ("ok", None), []
        if k == "fx":
            kind = op[1]
            L = "F%d" % self.nfx
            self.nfx += 1
            if kind == "gen":
                cur["cl"].append(("t", L))
                return ("ok", ("res", L)), [("setup", L, "kw")]
            if kind == "genr":
                cur["cl"].append(("tr", L))
                return ("ok", ("res", L)), [("setup", L, "kw")]
            if kind == "plain":
                cur["data"]["y"] = 2
                return ("ok", ("res", L)), [("setup", L, "kw")]
            if kind == "badsetup":
                return ("exc", "Boom", L), [("setup", L, "kw")]
            if kind == "comp":
                cur["cl"].append(("t", L + "a"))
                cur["cl"].append(("t", L + "b"))
                return ("ok", [("res", L + "a"), ("res", L + "b")]), [("setup", L + "a", "kw"), ("setup", L + "b", "kw")]
            if kind == "compbad":
                cur["cl"].append(("t", L + "a"))
                return ("exc", "Boom", L + "b"), [("setup", L + "a", "kw"), ("setup", L + "b", "kw")]
            if kind == "twoyield":
                cur["cl"].append(("t2", L))
                return ("ok", ("res", L)), [("setup", L, "kw")]
            if kind == "inner":
                cur["cl"].append(("t", L))          # teardown is registered when use_fixture is called ...
                cur["cl"].append(("in", L))         # ... i.e. before the setup part registers its own cleanup
                return ("ok", ("res", L)), [("setup", L, "kw")]
            raise ValueError(op)
        if k == "um":
            self.modes.append("USER")
            return ("ok", None), []
        if k == "bm":
            self.modes.append("BEHAVE")
            return ("ok", None), []
        if k == "xm":
            self.modes.pop()
            return ("ok", None), []
        raise ValueError(op)

    def key(self):
        """canonical form; function ids and fixture labels renamed by order of appearance"""
        ren = {}
        frames = []
        for f in self.frames:
            cl = []
            for e in f["cl"]:
                lab = e[1]
                if lab not in ren:
                    ren[lab] = "%s%d" % (lab[0], len(ren))
                cl.append((e[0], ren[lab]) + tuple(e[2:]))
            frames.append((f["layer"], tuple(sorted(f["data"].items())), tuple(cl)))
        return (tuple(frames), tuple(self.modes), self.ended)


def enabled(m, profile):
    attrs, names, cleanups, fixtures, modes = PROFILES[profile]
    if m.ended:
        return []
    ops = []
    top = m.frames[-1]["layer"]
    dup = cleanups == "dup"
    if dup:
        if len(m.frames) < 4:
            for l in NEST + (None,):        # None: an UNNAMED layer (_push() / scoped_context_layer(ctx) without name)
                ops.append(("push", l))
    else:
        for l in NEXT_LAYERS[top]:
            ops.append(("push", l))
    if len(m.frames) > 1:
        ops.append(("pop",))
    else:
        ops.append(("end",))
    for n in names:
        for v in VALUES:
            ops.append(("set", n, v))
        ops.append(("get", n))
        ops.append(("del", n))
        ops.append(("in", n))
        if attrs:
            for v in VALUES:
                ops.append(("root", n, v))
            ops.append(("uoa", n, 2))
            ops.append(("uoc", n, 1))
    if attrs:
        # read operations on a name whose origin is Context.__init__ itself
        ops += [("get", PRESET), ("in", PRESET), ("uoa", PRESET, 2), ("uoc", PRESET, 1)]
    if cleanups:
        have = m.fids()
        cands = list(have)
        narrow = cleanups == "narrow"
        if len(have) < (2 if narrow else MAXFUN):
            idx = 0
            used = set(int(h[1:]) for h in have)
            while idx in used:
                idx += 1
            cands += ["f%d" % idx, "g%d" % idx]
        if dup:
            cands = [c for c in cands if c not in have and c[0] == "f"]     # a fresh non-raising function
        for fid in cands:
            for form in ((0,) if dup else (0, 1)):
                for target in ((None, "testrun") if narrow else (None,) + NEST):
                    ops.append(("cl", fid, form, target))
    for kind in fixtures:
        ops.append(("fx", kind))
    if modes:
        if len(m.modes) < MAXMODE:
            ops.append(("um",))
            ops.append(("bm",))
        if m.modes:
            ops.append(("xm",))
    return ops


# =============================================================================
# real side
# =============================================================================
class _Cfg(object):
    verbose = False


class _StubRunner(object):
    def __init__(self):
        self.config = _Cfg()
        self.formatters = []


def fx_gen(context, env, label, k=None):
    env.log.append(("setup", label, k))
    yield ("res", label)
    env.log.append(("teardown", label))


def fx_genr(context, env, label, k=None):
    env.log.append(("setup", label, k))
    yield ("res", label)
    env.log.append(("teardown", label))
    raise Boom(label)


def fx_plain(context, env, label, k=None):
    env.log.append(("setup", label, k))
    context.y = 2
    return ("res", label)


def fx_badsetup(context, env, label, k=None):
    env.log.append(("setup", label, k))
    raise Boom(label)
    yield ("res", label)        # pylint: disable=unreachable


def fx_comp(context, env, label, k=None):
    from behave.fixture import use_composite_fixture_with, fixture_call_params
    return use_composite_fixture_with(context, [
        fixture_call_params(fx_gen, env, label + "a", k=k),
        fixture_call_params(fx_gen, env, label + "b", k=k)])


def fx_compbad(context, env, label, k=None):
    from behave.fixture import use_composite_fixture_with, fixture_call_params
    return use_composite_fixture_with(context, [
        fixture_call_params(fx_gen, env, label + "a", k=k),
        fixture_call_params(fx_badsetup, env, label + "b", k=k)])


def fx_twoyield(context, env, label, k=None):
    env.log.append(("setup", label, k))
    yield ("res", label)
    env.log.append(("teardown", label))
    yield ("again", label)
    env.log.append(("teardown-2", label))


def fx_inner(context, env, label, k=None):
    env.log.append(("setup", label, k))

    def inner_cleanup(lab):
        env.log.append(("inner", lab))
    context.add_cleanup(inner_cleanup, label)
    yield ("res", label)
    env.log.append(("teardown", label))


FX = {"gen": fx_gen, "genr": fx_genr, "plain": fx_plain, "badsetup": fx_badsetup, "comp": fx_comp,
      "compbad": fx_compbad, "twoyield": fx_twoyield, "inner": fx_inner}


class Env(object):
    """a fresh real Context plus everything the operations need"""

    def __init__(self, handler=True):
        from behave.runner import Context
        self.runner = _StubRunner()         # kept alive: Context holds a weakref.proxy
        self.ctx = Context(self.runner)
        self.log = []
        if handler:
            log = self.log

            def on_cleanup_error(context, cleanup_func, exception):
                log.append(("handler", type(exception).__name__,
                            exception.args[0] if isinstance(exception, Boom) and exception.args else None))
            self.ctx.on_cleanup_error = on_cleanup_error     # documented user hook (Context._do_cleanups)
        self.funcs = {}
        self.cms = []
        self.nfx = 0
        self.deleted = set()    # diagnostic only: names that went through a successful ``del`` (labels KeyErrors)

    def func(self, fid):
        f = self.funcs.get(fid)
        if f is None:
            log = self.log
            if fid[0] == "g":
                def f(*args):
                    log.append(("cl", fid, args or None))
                    raise Boom(fid)
            else:
                def f(*args):
                    log.append(("cl", fid, args or None))
            f.__name__ = str(fid)
            self.funcs[fid] = f
        return f

    def factory(self, value, tag=None):
        self.log.append(("factory", value, tag))
        return value

    def apply(self, op):
        """-> result in the model's vocabulary; KeyError is reported with its site"""
        try:
            return ("ok", self._apply(op))
        except Boom as e:
            return ("exc", "Boom", e.args[0] if e.args else None)
        except KeyError as e:
            return ("exc", "KeyError", (e.args[0] if e.args else None, _site(sys.exc_info()[2])))
        except Exception as e:      # pylint: disable=broad-except
            name = type(e).__name__
            if name == "InvalidFixtureError":
                return ("exc", name, None)
            if isinstance(e, AttributeError):       # subclasses satisfy the documented class
                return ("exc", "AttributeError")
            if isinstance(e, LookupError):
                return ("exc", "LookupError")
            return ("exc", name)

    def _apply(self, op):
        ctx = self.ctx
        k = op[0]
        if k == "push":
            return ctx._push(op[1])
        if k == "pop":
            return ctx._pop()
        if k == "end":
            return ctx._do_cleanups()
        if k == "set":
            return setattr(ctx, op[1], op[2])
        if k == "get":
            return getattr(ctx, op[1])
        if k == "del":
            return delattr(ctx, op[1])
        if k == "in":
            return op[1] in ctx
        if k == "root":
            return ctx._set_root_attribute(op[1], op[2])
        if k == "uoa":
            return ctx.use_or_assign_param(op[1], op[2])
        if k == "uoc":
            return ctx.use_or_create_param(op[1], self.factory, op[2], tag=op[1])
        if k == "cl":
            f = self.func(op[1])
            kwargs = {}
            if op[3] is not None:
                kwargs["layer"] = op[3]
            if op[2]:
                return ctx.add_cleanup(f, "a", **kwargs)
            return ctx.add_cleanup(f, **kwargs)
        if k == "fx":
            from behave.fixture import use_fixture
            label = "F%d" % self.nfx
            self.nfx += 1
            return use_fixture(FX[op[1]], ctx, self, label, k="kw")
        if k == "um":
            cm = ctx.use_with_user_mode()
            cm.__enter__()
            self.cms.append(cm)
            return None
        if k == "bm":
            cm = ctx._use_with_behave_mode()
            cm.__enter__()
            self.cms.append(cm)
            return None
        if k == "xm":
            cm = self.cms.pop()
            cm.__exit__(None, None, None)
            return None
        raise ValueError(op)

    def visible(self):
        ctx = self.ctx
        out = []
        for n in NAMES:
            try:
                v = getattr(ctx, n)
            except AttributeError:
                v = "<AE>"
            except Exception as e:      # pylint: disable=broad-except
                v = "<%s>" % type(e).__name__
            try:
                c = n in ctx
            except Exception as e:      # pylint: disable=broad-except
                c = "<%s>" % type(e).__name__
            out.append((n, v, c))
        return tuple(out)

    def layers(self):
        return tuple(f.get("@layer") for f in reversed(self.ctx._stack))

    def mode(self):
        return self.ctx._mode.name

    def hidden(self):
        """implementation bookkeeping that may influence futures: only used to make the
        state deduplication FINER (never to predict anything)"""
        try:
            rec = self.ctx.__dict__.get("_record", {})
            org = self.ctx.__dict__.get("_origin", {})
            # which registered callables are the user's function objects THEMSELVES (as opposed to a
            # wrapper): the only part of the pending-cleanup lists with a delayed effect (the duplicate
            # guard of add_cleanup looks for the function object); per frame, in order, with multiplicity,
            # function ids renamed by first appearance
            byid = dict((id(f), fid) for fid, f in self.funcs.items())
            ren = {}
            raw = []
            for frame in reversed(self.ctx._stack):
                ids = []
                for c in frame.get("@cleanups", ()):
                    fid = byid.get(id(c))
                    if fid is not None:
                        if fid not in ren:
                            ren[fid] = "%s%d" % (fid[0], len(ren))
                        ids.append(ren[fid])
                raw.append((None, tuple(ids)))
            # behavioural fingerprint of the named-layer lookup (whatever data structure is behind it):
            # which frame, counted from the outermost, each layer name currently resolves to
            stack = self.ctx._stack
            select = getattr(self.ctx, "_select_stack_frame_by_layer", None)
            lookup = []
            for name in NEST:
                try:
                    frame = select(name)
                    lookup.append([len(stack) - 1 - j for j, fr in enumerate(stack) if fr is frame][0])
                except LookupError:
                    lookup.append(None)
                except Exception:       # pylint: disable=broad-except
                    lookup.append("?")
            return (tuple(n for n in NAMES if n in rec),
                    tuple((n, getattr(org[n], "name", str(org[n]))) for n in NAMES if n in org),
                    tuple(r[1] for r in raw), tuple(lookup))
        except Exception:           # pylint: disable=broad-except
            return ("?",)


def _site(tb):
    """innermost behave/runner.py function of a traceback (call site of a KeyError)"""
    site = None
    while tb is not None:
        code = tb.tb_frame.f_code
        if code.co_filename.replace("\\", "/").endswith("behave/runner.py"):
            site = code.co_name
        tb = tb.tb_next
    return site


def result_class(r):
    if r[0] == "ok":
        return "ok"
    return "exc:" + r[1]


def opkind(op):
    k = op[0]
    if k == "cl":
        return "cl:%s%s" % ("args" if op[2] else "plain", ":layer" if op[3] else "")
    if k == "fx":
        return "fx:" + op[1]
    return k


def same_result(real, want):
    if real[0] != want[0]:
        return False
    if real[0] == "ok":
        return real[1] == want[1]
    if real[1] != want[1]:
        return False
    if want[1] == "Boom":
        return real[2] == want[2]
    return True


def log_diff(got, want):
    """classify a difference between two call logs -> (kind, trigger class)"""
    g, w = list(map(repr, got)), list(map(repr, want))
    if sorted(g) == sorted(w):
        return "order", "same-calls"
    rest = list(g)
    missing = None
    for i, x in enumerate(w):
        if x in rest:
            rest.remove(x)
        elif missing is None:
            missing = i
    if missing is None:
        extra = [e for e in got if repr(e) in rest]
        return "extra", (extra[0][0] if extra else "?")
    e = want[missing]
    if e[0] == "cl" and e[2] is not None and ("cl", e[1], None) in want:
        return "missing", "args-registration-of-a-function-also-registered-plain"
    if any(x[0] == "handler" for x in want[:missing]):
        return "missing", "%s-after-a-raising-cleanup" % e[0]
    return "missing", e[0]


def keyerror_violation(name, site, deleted, text):
    """Context bookkeeping KeyError: one descriptor per route into the bad state (DESIGN 8.21 / 8.22)"""
    trig = "record-deleted-by-del-in-inner-scope" if deleted else "root-name-without-record"
    return ({"subcheck": "record-bookkeeping", "clause": "result", "exc": "KeyError", "trigger": trig},
            "%s raised KeyError(%r) inside Context.%s" % (text, name, site))


def compare(sub, op, env, m, real, want, rlog, wlog, v, where):
    """append violations for one executed operation; True when clean"""
    k = opkind(op)
    if op[0] in ("pop", "end") and rlog != wlog:
        # what ran is more fundamental than what was re-raised
        kind, trig = log_diff(rlog, wlog)
        v.append(({"subcheck": sub, "clause": "cleanup-log", "kind": kind, "trigger": trig},
                  "%s: %s ran %r, expected %r" % (where, op[0], rlog, wlog)))
        return False
    if not same_result(real, want):
        if real[0] == "exc" and real[1] == "KeyError":
            name, site = real[2]
            v.append(keyerror_violation(name, site, name in env.deleted,
                                        "%s: %r (expected %r)" % (where, op, want)))
        elif real[0] == "ok" and want[0] == "ok":
            v.append(({"subcheck": sub, "clause": "value", "op": k},
                      "%s: %r returned %r, expected %r" % (where, op, real[1], want[1])))
        else:
            v.append(({"subcheck": sub, "clause": "result", "op": k, "got": result_class(real),
                       "want": result_class(want)}, "%s: %r gave %r, expected %r" % (where, op, real, want)))
        return False
    ok = True
    if rlog != wlog:
        ok = False
        kind, trig = log_diff(rlog, wlog)
        v.append(({"subcheck": sub, "clause": "call-log", "op": k, "kind": kind, "trigger": trig},
                  "%s: %r made calls %r, expected %r" % (where, op, rlog, wlog)))
    rl, wl = env.layers(), m.layers()
    if rl != wl:
        ok = False
        v.append(({"subcheck": sub, "clause": "stack", "op": k,
                   "after": "error" if real[0] == "exc" else "ok"},
                  "%s: after %r the layers are %r, expected %r" % (where, op, rl, wl)))
    rv, wv = env.visible(), m.visible()
    if rv != wv:
        ok = False
        which = "contains" if all(a[:2] == b[:2] for a, b in zip(rv, wv)) else "visible"
        v.append(({"subcheck": sub, "clause": which, "op": k},
                  "%s: after %r (name, value, in) is %r, expected %r" % (where, op, rv, wv)))
    if env.mode() != m.mode():
        ok = False
        v.append(({"subcheck": sub, "clause": "mode", "op": k},
                  "%s: after %r the mode is %s, expected %s" % (where, op, env.mode(), m.mode())))
    return ok


def do_op(sub, op, env, m, v, where, flags=None):
    """one lock-step operation; -> (clean, real result, real log).
    flags collects what the search exercised, judged by the MODEL alone (so that a broken
    implementation yields violations, never a vacuity error)"""
    if flags is not None:
        k = op[0]
        shadowed = k == "del" and len(m.frames) >= 3 and op[1] in m.frames[-1]["data"] and \
            sum(1 for f in m.frames if op[1] in f["data"]) >= 2
        dup = False
        if k == "cl" and op[2] == 0:
            f = m.frame_for(op[3])
            dup = f is not None and ("f", op[1], None) in f["cl"]
    n0 = len(env.log)
    real = env.apply(op)
    rlog = env.log[n0:]
    want, wlog = m.step(op)
    if flags is not None:
        if shadowed:
            flags.add("depth3-shadow-delete")
        if dup:
            flags.add("plain-duplicate")
        if k in ("pop", "end"):
            if want[0] == "exc" and sum(1 for e in wlog if e[0] != "handler") >= 2 and wlog[-1][0] != "handler":
                flags.add("cleanup-runs-after-raising-one")
            for e in wlog:
                if e[0] in ("teardown", "inner"):
                    flags.add("fixture-%s-at-scope-end" % e[0])
        elif k == "cl":
            if want == ("exc", "LookupError"):
                flags.add("layer-absent")
            elif op[3] is not None and op[3] != m.frames[-1]["layer"]:
                flags.add("layer-outer")
    clean = compare(sub, op, env, m, real, want, rlog, wlog, v, where)
    if clean and op[0] == "del" and real[0] == "ok":
        env.deleted.add(op[1])
    return clean, real, rlog


def drain(sub, env, m, v, where, flags=None):
    """leave every mode manager, pop every frame, run the test-run cleanups; compare all the way"""
    obs = []
    where = where + " + drain"
    while m.modes:
        clean, real, rlog = do_op(sub, ("xm",), env, m, v, where, flags)
        if not clean:
            return obs
    while len(m.frames) > 1:
        clean, real, rlog = do_op(sub, ("pop",), env, m, v, where, flags)
        obs.append((real, tuple(rlog)))
        if not clean:
            return obs
    if not m.ended:
        clean, real, rlog = do_op(sub, ("end",), env, m, v, where, flags)
        obs.append((real, tuple(rlog)))
    return obs


def build(history, checked=False):
    """a fresh real Context and a fresh model, both driven through the history.  Histories in a
    frontier were compared step by step when they were discovered; checked=True compares again."""
    env, m = Env(), Model()
    if checked:
        v = []
        for op in history:
            clean, _, _ = do_op("ops", op, env, m, v, "replay")
            if not clean:
                raise AssertionError("history %r is not clean at %r: %r" % (history, op, v))
        return env, m
    for op in history:
        real = env.apply(op)
        m.step(op)
        if op[0] == "del" and real[0] == "ok":
            env.deleted.add(op[1])
    return env, m


def keydigest(k):
    """64-bit key of a canonical state (collision odds ~ n^2 / 2^65: < 1e-6 for the 4e6 states of the deepest search)"""
    return int.from_bytes(hashlib.blake2b(repr(k).encode("ascii", "backslashreplace"), digest_size=8).digest(), "big")


def state_nontrivial(m):
    """a shadowed name, or a frame with >= 2 cleanup entries"""
    for n in NAMES:
        if sum(1 for f in m.frames if n in f["data"]) >= 2:
            return True
    return any(len(f["cl"]) >= 2 for f in m.frames)


class _Quiet(object):
    """per-case isolation of the process-wide state this check touches"""

    def __enter__(self):
        self.out, self.err = sys.stdout, sys.stderr
        sys.stdout = _Sink()
        self.cw = warnings.catch_warnings()
        self.cw.__enter__()
        warnings.simplefilter("ignore")
        return self

    def __exit__(self, *exc):
        self.cw.__exit__(*exc)
        sys.stdout, sys.stderr = self.out, self.err
        return False


REUSE_EXC = ("AttributeError", "LookupError")


def bfs_case(case):
    """case = (profile, history, flags): apply every enabled operation to a fresh replay of the history;
    flags & 1 (deepest level of a search) only shortens what is handed back to the driver; flags & 2 is the
    no-deduplication cross-check: every clean transition (self-loops too) yields a successor history and
    no object is ever shared between two operations"""
    profile, history, last = case
    with _Quiet():
        return _bfs_case(profile, history, last)


def _bfs_case(profile, history, last):
    nodedup = last >= 2
    env, m = build(history, checked=True)
    ops = enabled(m, profile)
    v, succ, dg, outs, flags, vclasses = [], [], [], set(), set(), set()
    mk0 = m.key()
    key0 = (mk0, env.hidden())
    nontrivial = state_nontrivial(m)
    fresh = True
    where = "history %r" % (history,)
    for op in ops:
        if not fresh:
            env, m = build(history)
        nv = len(v)
        clean, real, rlog = do_op("ops", op, env, m, v, where, flags)
        outs.add((opkind(op), result_class(real)))
        if clean:
            mk = m.key()
            key = (mk, env.hidden())
            obs = (real, tuple(rlog), env.visible(), env.layers(), env.mode())
            if key == key0 and not nodedup and \
                    (op[0] in ("get", "in") or (real[0] == "exc" and real[1] in REUSE_EXC) or
                     (op[0] in ("uoa", "uoc") and not rlog and mk == mk0)):
                # a refused / read-only operation: the very same objects serve the next operation
                # (any hidden damage would surface there or in its drain)
                fresh = True
                dg.append((op, obs))
                continue
            fresh = False
            dobs = drain("ops", env, m, v, where + " then %r" % (op,), flags)
            dg.append((op, obs, dobs))
            if len(v) == nv and (key != key0 or nodedup):
                succ.append((op, keydigest(key)))
        else:
            fresh = False
            dg.append((op, real, "VIOLATION"))
        for d, _msg in v[nv:]:
            vclasses.add(tuple(sorted(d.items())))
    n = len(ops)
    case = (profile, history, last)
    if last in (1, 3):
        succ = array.array("Q", sorted(set(k for _op, k in succ))).tobytes()
    res = {"v": v, "n": n, "st": {"transitions": n, "traces": n}, "dg": dg,
           "nt": keydigest(key0) if nontrivial else None,
           "keep": (history, succ, sorted(flags), sorted(vclasses)), "case": case}
    out = [res]
    for o in sorted(outs):
        out.append({"out": o, "n": 0, "case": case})
    return out


def bfs_case_sweep(case):
    """bfs_case for the level sweeps: the violations travel in 'keep' and are registered by the driver in
    breadth-first order, so that the reported sample of every violation class is a shortest history"""
    out = bfs_case(case)
    res = out[0]
    res["keep"] = res["keep"] + (res["v"],)
    res["v"] = []
    return out


def bfs_case_nodedup(case):
    """same transitions; the violations travel in 'keep' (first of each class per case, with counts): the
    driver registers those whose class the deduplicated search did not find - they are real executions"""
    out = bfs_case(case)
    res = out[0]
    firsts, counts = {}, {}
    for desc, msg in res["v"]:
        k = tuple(sorted(desc.items()))
        firsts.setdefault(k, (desc, msg))
        counts[k] = counts.get(k, 0) + 1
    res["v"] = []
    res["keep"] = res["keep"] + ([(firsts[k][0], firsts[k][1], counts[k]) for k in sorted(firsts)],)
    return out[:1]


def run_bfs(ctx, profile, maxdepth, dedup=True, name=None, snapshot=None):
    name = name or ("bfs[%s]" % profile)
    with _Quiet():
        key0 = keydigest((Model().key(), Env().hidden()))
    seen = {key0}
    frontier = [()]
    flags, vclasses = set(), set()
    func = bfs_case_sweep if dedup else bfs_case_nodedup
    expanded = 0
    within = {0: 1}
    snap = None
    nd_viol = {}
    for depth in range(1, maxdepth + 1):
        last = (1 if depth == maxdepth else 0) + (0 if dedup else 2)
        expanded += len(frontier)
        kept = ctx.sweep(func, [(profile, h, last) for h in frontier], chunk=8 if len(frontier) < 2000 else 32,
                         keep=True, name="%s depth %d (%d histories)" % (name, depth, len(frontier)))
        kept.sort(key=lambda t: repr(t[0]))
        nxt = []
        for hist, succ, fl, vc, viol in kept:
            flags.update(fl)
            vclasses.update(vc)
            for item in viol:
                if dedup:
                    ctx.violation(item[0], item[1], (profile, hist, last), "bfs_case")
                else:
                    k = tuple(sorted(item[0].items()))
                    cur = nd_viol.get(k)
                    if cur is None:
                        nd_viol[k] = [item[0], item[1], (profile, hist, last), item[2]]
                    else:
                        cur[3] += item[2]
            if last in (1, 3):
                ks = array.array("Q")
                ks.frombytes(succ)
                seen.update(ks)
                continue
            for op, k in succ:
                if not dedup:
                    seen.add(k)
                    nxt.append(hist + (op,))
                elif k not in seen:
                    seen.add(k)
                    nxt.append(hist + (op,))
        del kept
        within[depth] = len(seen)
        if depth == snapshot:
            snap = set(seen)
        frontier = nxt
        if not frontier:
            break
    return {"seen": seen, "flags": flags, "vclasses": vclasses, "states": len(seen), "states_within": within,
            "expanded": expanded, "depth": maxdepth, "snapshot": snap, "nd_viol": nd_viol}


def nd_viol_items(nd):
    return [(k, tuple(val)) for k, val in nd["nd_viol"].items()]


def cross_check(ctx, profile, dedup_seen_within, dedup_vclasses, depth):
    """the same search WITHOUT deduplication to a smaller depth must reach no canonical state and
    no violation class that the deduplicated search did not reach within the same depth"""
    nd = run_bfs(ctx, profile, depth, dedup=False, name="no-dedup[%s]" % profile)
    new_states = nd["seen"] - dedup_seen_within
    lost_states = dedup_seen_within - nd["seen"]
    def strip(classes):
        # the 'trigger' of a bookkeeping KeyError names the route of the representative history
        return set(tuple(kv for kv in c if kv[0] != "trigger" or dict(c).get("exc") != "KeyError") for c in classes)
    new_classes = strip(nd["vclasses"]) - strip(dedup_vclasses)
    # a violation found only without deduplication is still a real execution of the real code: it is
    # reported as a violation (the guard below stays as the note that the canonical form is too coarse)
    for k, (desc, msg, case, count) in sorted(nd_viol_items(nd)):
        if strip([k]) & new_classes:
            for _ in range(count):
                ctx.violation(desc, msg + "  [found only by the search without state deduplication]", case, "bfs_case")
    ctx.guard(not new_states and not lost_states,
              "no-dedup cross-check [%s, depth %d]: same canonical states as the deduplicated search "
              "(%d extra, %d missing)" % (profile, depth, len(new_states), len(lost_states)))
    ctx.guard(not new_classes, "no-dedup cross-check [%s, depth %d]: no violation class beyond the deduplicated "
                               "search (%r)" % (profile, depth, sorted(new_classes)[:3]))
    return {"profile": profile, "depth": depth, "histories_expanded": nd["expanded"], "states": len(nd["seen"])}


# =============================================================================
# reserved root names (documented in the Context docstring): setting them in an
# inner scope must shadow like any other name
# =============================================================================
DOCUMENTED_ROOT_NAMES = ("failed", "aborted", "config", "active_outline", "cleanup_errors")


def preset_names(ctx=None):
    """every name a fresh Context holds in its test-run frame, enumerated from the real object"""
    if ctx is None:
        ctx = Env(handler=False).ctx
    return tuple(sorted(k for k in ctx._stack[-1] if not k.startswith("@")))


SHAPES = (("testrun",), ("testrun", "feature"), ("testrun", "feature", "scenario"),
          ("testrun", "feature", "rule", "scenario"))


def reserved_case(case):
    """(name, shape index, mode, script): scripts over one reserved name"""
    name, si, mode, script = case
    with _Quiet():
        env = Env(handler=False)
        ctx = env.ctx
        v, obs = [], []
        for l in SHAPES[si][1:]:
            ctx._push(l)
        depth = len(SHAPES[si])
        cm = ctx.use_with_user_mode() if mode == "USER" else ctx._use_with_behave_mode()
        sentinel = ("mine", name)
        where = "reserved name %r, layers %r, %s mode, script %s" % (name, SHAPES[si], mode, script)

        def attempt(opname, f, want):
            try:
                r = ("ok", f())
            except KeyError as e:
                r = ("exc", "KeyError", (e.args[0] if e.args else None, _site(sys.exc_info()[2])))
            except Exception as e:      # pylint: disable=broad-except
                r = ("exc", type(e).__name__)
            obs.append((opname, r[:2]))
            if r[0] == "exc" and r[1] == "KeyError":
                v.append(keyerror_violation(r[2][0], r[2][1], False, "%s: %s (expected %r)" % (where, opname, want)))
                return None
            if r[:2] != want[:2] and not (want[0] == "ok" and r[0] == "ok" and want[1] is Ellipsis):
                v.append(({"subcheck": "reserved", "clause": "result", "op": opname.split()[0]},
                          "%s: %s gave %r, expected %r" % (where, opname, r, want)))
                return None
            return r

        with cm:
            before = getattr(ctx, name)
            if script == "shadow":
                if attempt("set", lambda: setattr(ctx, name, sentinel), ("ok", None)):
                    attempt("get", lambda: getattr(ctx, name) is sentinel, ("ok", True))
                    attempt("in", lambda: name in ctx, ("ok", True))
                    if depth > 1:
                        ctx._pop()
                        attempt("get after pop", lambda: getattr(ctx, name) is before, ("ok", True))
            elif script == "set-del":
                if attempt("set", lambda: setattr(ctx, name, sentinel), ("ok", None)):
                    if attempt("del", lambda: delattr(ctx, name), ("ok", None)):
                        if depth > 1:
                            attempt("get after del", lambda: getattr(ctx, name) is before, ("ok", True))
                            attempt("del again", lambda: delattr(ctx, name), ("exc", "AttributeError"))
                        else:
                            attempt("get after del", lambda: getattr(ctx, name), ("exc", "AttributeError"))
            elif script == "root-under-shadow":
                if attempt("set", lambda: setattr(ctx, name, sentinel), ("ok", None)):
                    other = ("root", name)
                    if attempt("root", lambda: ctx._set_root_attribute(name, other), ("ok", None)):
                        if depth > 1:
                            attempt("get", lambda: getattr(ctx, name) is sentinel, ("ok", True))
                            ctx._pop()
                        attempt("get after pop", lambda: getattr(ctx, name) is other, ("ok", True))
            elif script == "del-unset":
                if depth > 1:
                    attempt("del", lambda: delattr(ctx, name), ("exc", "AttributeError"))
                    attempt("get", lambda: getattr(ctx, name) is before, ("ok", True))
    return {"v": v, "dg": obs, "out": ("reserved", script, tuple(o[1][0] for o in obs)),
            "nt": case if depth > 1 else None}


def reserved_cases(names):
    for script in ("shadow", "set-del", "root-under-shadow", "del-unset"):
        for si in range(len(SHAPES)):
            for name in names:
                for mode in ("BEHAVE", "USER"):
                    yield (name, si, mode, script)


# =============================================================================
# READ operations x every origin of a name: preset by Context.__init__, preset and then
# re-set through _set_root_attribute, set by user code, set in behave mode, set through
# _set_root_attribute (either mode) - read from every frame at or above the owner, both modes
# =============================================================================
ORIGINS = ("user", "behave", "root-user", "root-behave")


def read_cases(names):
    for si in range(len(SHAPES)):
        for mode in ("BEHAVE", "USER"):
            for name in names:
                yield ("preset", name, si, mode, 0)
            for set_at in range(len(SHAPES[si])):
                for name in names:
                    yield ("preset-reset", name, si, mode, set_at)
                for origin in ORIGINS:
                    yield (origin, "x", si, mode, set_at)


def read_case(case):
    """(origin, name, shape, reading mode, frame index at which the name gets its value)"""
    origin, name, si, mode, set_at = case
    shape = SHAPES[si]
    with _Quiet():
        env = Env(handler=False)
        ctx = env.ctx
        v, obs = [], []
        where = "name %r (origin %s, set at frame %d), layers %r, read in %s mode" % (name, origin, set_at, shape, mode)
        value = ("value", origin)
        owner = set_at
        if origin.startswith("preset"):
            try:
                value = getattr(ctx, name)
            except Exception as e:      # pylint: disable=broad-except
                value = ("<%s>" % type(e).__name__,)
            owner = 0
        for d, layer in enumerate(shape):
            if d:
                ctx._push(layer)
            if d == set_at and origin != "preset":
                if origin == "preset-reset":
                    value = ("reset", name)
                    ctx._set_root_attribute(name, value)
                elif origin == "user":
                    with ctx.use_with_user_mode():
                        setattr(ctx, name, value)
                elif origin == "behave":
                    with ctx._use_with_behave_mode():
                        setattr(ctx, name, value)
                else:
                    owner = 0
                    with (ctx.use_with_user_mode() if origin == "root-user" else ctx._use_with_behave_mode()):
                        ctx._set_root_attribute(name, value)
        top = len(shape) - 1
        calls = []

        def factory():
            calls.append(1)
            return ("created", name)

        def bad(clause, text):
            v.append(({"subcheck": "reads", "clause": clause, "origin": origin},
                      "%s: %s" % (where, text)))

        def attempt(f):
            try:
                return ("ok", f())
            except Exception as e:      # pylint: disable=broad-except
                return ("exc", type(e).__name__)

        with (ctx.use_with_user_mode() if mode == "USER" else ctx._use_with_behave_mode()):
            steps = (
                ("contains", lambda: name in ctx, lambda r: r == ("ok", True)),
                ("hasattr", lambda: hasattr(ctx, name), lambda r: r == ("ok", True)),
                ("get", lambda: getattr(ctx, name) is value, lambda r: r == ("ok", True)),
                ("use_or_assign", lambda: ctx.use_or_assign_param(name, ("assigned", name)) is value,
                 lambda r: r == ("ok", True)),
                ("use_or_assign-created-nothing", lambda: getattr(ctx, name) is value, lambda r: r == ("ok", True)),
                ("use_or_create", lambda: (ctx.use_or_create_param(name, factory) is value, len(calls)),
                 lambda r: r == ("ok", (True, 0))),
                ("use_or_create-created-nothing", lambda: getattr(ctx, name) is value, lambda r: r == ("ok", True)),
                ("contains-again", lambda: name in ctx, lambda r: r == ("ok", True)),
            )
            for clause, f, good in steps:
                r = attempt(f)
                obs.append((clause, r))
                if not good(r):
                    bad(clause.split("-")[0], "%s gave %r" % (clause, r))
                    break
            else:
                if owner != top:
                    r = attempt(lambda: delattr(ctx, name))
                    obs.append(("del-at-reader", r))
                    if r != ("exc", "AttributeError"):
                        bad("created-in-reading-scope", "del in the reading scope gave %r: a read created the name "
                                                        "there" % (r,))
                if not v:
                    for d in range(top, owner, -1):
                        ctx._pop()
                    r = attempt(lambda: (name in ctx, getattr(ctx, name) is value))
                    obs.append(("owner-scope", r))
                    if r != ("ok", (True, True)):
                        bad("unaltered", "back in the owning scope: (in, same value) = %r" % (r,))
    return {"v": v, "dg": obs, "out": ("reads", origin, tuple(o[1][0] for o in obs)),
            "nt": case if top > owner else None}


# =============================================================================
# E3: every placement of up to n cleanup registrations x every raising subset
# =============================================================================
FORMS = ("plain", "args", "kwargs")


DUP_SHAPES = (("testrun", "testrun"), ("testrun", "feature", "testrun"), ("testrun", "feature", "feature"),
              ("testrun", "scenario", "rule", "scenario"), ("testrun", "feature", "scenario", "scenario"),
              # unnamed layers (None): never the target of layer=NAME
              ("testrun", None), ("testrun", "feature", None), ("testrun", "feature", "scenario", None),
              ("testrun", "feature", None, "scenario"), ("testrun", None, None))
ALL_SHAPES = SHAPES + DUP_SHAPES


def reg_options(si):
    shape = ALL_SHAPES[si]
    top = len(shape) - 1
    opts = []
    for form in FORMS + ("fx",):
        opts.append((top, "cur", form))
    for fi in range(len(shape)):
        if shape[fi] is None:
            continue                # an unnamed frame cannot be addressed with layer=
        for form in FORMS:
            opts.append((fi, "layer", form))
    return opts


def e3_cases(maxn, custom_upto):
    """(shape, registrations, number of registrations up to which the custom error handler is run as well)"""
    for n in range(1, maxn + 1):
        for si in range(len(SHAPES)):
            for regs in itertools.product(reg_options(si), repeat=n):
                yield (si, regs, custom_upto)
    # stack shapes in which a layer name is active twice: layer=<name> means the innermost live frame
    for n in range(1, 3):
        for si in range(len(SHAPES), len(ALL_SHAPES)):
            for regs in itertools.product(reg_options(si), repeat=n):
                yield (si, regs, 2)


def fx_e3(context, log, raising, i):
    yield i
    log.append(i)
    if i in raising:
        raise raising[i]


# text that user code controls and behave prints or formats (the default on_cleanup_error handler reports
# the function name and the exception text) ranges over format-hostile values
MESSAGES = (u"plain", u"{}", u"{0}", u"{x}", u"}", u"{", u"%s", u"%d %(a)s", u"100%", u"caf\u00e9 \u2603 \u00df",
            u"rejected payload: {'id': 7}")
NAME_KINDS = ("def", "name-with-braces", "name-with-percent", "partial", "object", "lambda")


def text_class(text):
    if u"{" in text or u"}" in text:
        return "braces"
    if u"%" in text:
        return "percent"
    if any(ord(c) > 127 for c in text):
        return "non-ascii"
    return "plain"


def hostile_cases():
    """(shape, regs, raising mask, handler, message index, name kind index): 2..3 cleanups of one form in
    the innermost frame, every non-empty raising subset, every message, both handlers; the name kinds
    apply to the plain form (the handler receives the registered callable itself)"""
    for si in range(len(SHAPES)):
        top = len(SHAPES[si]) - 1
        for n in (2, 3):
            for form in FORMS + ("fx",):
                regs = ((top, "cur", form),) * n
                for ni in (range(len(NAME_KINDS)) if form == "plain" else (0,)):
                    for mask in range(1, 1 << n):
                        for handler in ("default", "custom"):
                            for mi in range(len(MESSAGES)):
                                yield (si, regs, mask, handler, mi, ni)


class _CallableCleanup(object):
    """a cleanup that is a callable object (no __name__)"""

    def __init__(self, body, i):
        self.body, self.i = body, i

    def __call__(self):
        self.body(self.i)


def e3_case(case):
    """(shape, regs, custom_upto) -> one result per (raising subset, handler); (shape, regs, mask, handler) -> one;
    (shape, regs, mask, handler, message, name kind) -> one with format-hostile text"""
    if len(case) == 3:
        si, regs, custom_upto = case
        n = len(regs)
        out = []
        with _Quiet():
            for mask in range(1 << n):
                for handler in (("default", "custom") if n <= custom_upto else ("default",)):
                    out.append(_e3_one(si, regs, mask, handler))
        return out
    with _Quiet():
        return _e3_one(*case)


def _e3_one(si, regs, mask, handler, mi=None, ni=None):
    from behave.fixture import use_fixture
    import functools
    shape = ALL_SHAPES[si]
    env = Env(handler=False)
    ctx = env.ctx
    log, hlog = [], []
    raising = {i: Boom("c%d" % i if mi is None else MESSAGES[mi]) for i in range(len(regs)) if mask >> i & 1}
    name_kind = NAME_KINDS[ni] if ni is not None else "def"
    if handler == "custom":
        def on_err(context, func, exc):
            hlog.append(exc)
        ctx.on_cleanup_error = on_err
    for d, layer in enumerate(shape):
        if d:
            ctx._push(layer)
        setattr(ctx, "mark%d" % d, d)
    expected = [[] for _ in shape]
    for i, (fi, via, form) in enumerate(regs):
        def f(*args, **kwargs):
            i_ = args[0] if args else kwargs.get("i", None)
            log.append(i_)
            if i_ in raising:
                raise raising[i_]
        kw = {"layer": shape[fi]} if via == "layer" else {}
        if form == "plain":
            def f0(i_=i):
                log.append(i_)
                if i_ in raising:
                    raise raising[i_]
            if name_kind == "name-with-braces":
                f0.__name__ = "{x} {0} }"
            elif name_kind == "name-with-percent":
                f0.__name__ = "%s %(a)s 100%"
            elif name_kind == "partial":
                f0 = functools.partial(f0, i)
            elif name_kind == "object":
                f0 = _CallableCleanup(f0, i)
            elif name_kind == "lambda":
                f0 = (lambda g: (lambda: g()))(f0)
            ctx.add_cleanup(f0, **kw)
        elif form == "args":
            ctx.add_cleanup(f, i, **kw)
        elif form == "kwargs":
            ctx.add_cleanup(f, i=i, **kw)
        else:
            use_fixture(fx_e3, ctx, log, raising, i)
        if via == "layer":
            fi = max(j for j in range(len(shape)) if shape[j] == shape[fi])     # innermost live frame of that name
        expected[fi].append(i)
    v, obs = [], []
    case = (si, regs, mask, handler)
    where = "layers %r, registrations %r, raising %r, %s handler" % (
        shape, regs, sorted(raising), handler)
    if mi is not None:
        case = (si, regs, mask, handler, mi, ni)
        where += ", exception message %r, cleanup callable kind %s" % (MESSAGES[mi], name_kind)
    for d in range(len(shape) - 1, -1, -1):
        n0, h0 = len(log), len(hlog)
        exc = None
        try:
            if d:
                ctx._pop()
            else:
                ctx._do_cleanups()
        except Exception as e:          # pylint: disable=broad-except
            exc = e
        ran = log[n0:]
        want = list(reversed(expected[d]))
        want_raised = [raising[i] for i in want if i in raising]
        obs.append((d, tuple(ran), type(exc).__name__ if exc else None))
        if ran != want:
            kind = "order" if sorted(ran) == sorted(want) else ("missing" if len(ran) < len(want) or
                                                                 set(want) - set(ran) else "extra")
            trig = "same-calls" if kind == "order" else "ran-in-another-scope-or-twice"
            if kind == "missing":
                first_missing = [i for i in want if i not in ran][0]
                trig = "%s%s" % (regs[first_missing][2],
                                 "-after-a-raising-cleanup" if any(j in raising for j in
                                                                   want[:want.index(first_missing)]) else "")
            v.append(({"subcheck": "raising-subsets", "clause": "cleanup-log", "kind": kind, "trigger": trig},
                      "%s: ending %r ran %r, expected %r" % (where, shape[d], ran, want)))
        elif (exc is None) != (not want_raised) or (want_raised and exc is not want_raised[0]):
            v.append(({"subcheck": "raising-subsets", "clause": "first-error-reraised",
                       "got": type(exc).__name__ if exc else "none", "nraising": str(min(len(want_raised), 2))},
                      "%s: ending %r raised %r, expected %r" % (where, shape[d], exc,
                                                               want_raised[0] if want_raised else None)))
        if handler == "custom" and [id(e) for e in hlog[h0:]] != [id(e) for e in want_raised]:
            v.append(({"subcheck": "raising-subsets", "clause": "error-handler-calls"},
                      "%s: ending %r reported %r to on_cleanup_error, expected %r"
                      % (where, shape[d], hlog[h0:], want_raised)))
        layers = env.layers()
        want_layers = shape[:d] if d else shape[:1]
        if layers != want_layers:
            v.append(({"subcheck": "raising-subsets", "clause": "stack",
                       "after": "error" if want_raised else "ok"},
                      "%s: after ending %r the layers are %r, expected %r" % (where, shape[d], layers, want_layers)))
            break
        if d and ("mark%d" % d) in ctx:
            v.append(({"subcheck": "raising-subsets", "clause": "visible", "after": "error" if want_raised else "ok"},
                      "%s: attribute of ended scope %r still visible" % (where, shape[d])))
    if log.count(None) or any(log.count(i) != 1 for i in range(len(regs))):
        if not v:
            v.append(({"subcheck": "raising-subsets", "clause": "exactly-once"},
                      "%s: run counts %r" % (where, [log.count(i) for i in range(len(regs))])))
    if mi is not None and v:
        # one descriptor per violated clause and class of hostile text (not per registration form)
        mc = text_class(MESSAGES[mi])
        remapped, seen_d = [], set()
        for d, msg in v:
            nd = {"subcheck": "hostile-text", "clause": d["clause"], "handler": handler, "message": mc}
            if mc == "plain":
                nd["name"] = name_kind
            key = tuple(sorted(nd.items()))
            if key not in seen_d:
                seen_d.add(key)
                remapped.append((nd, msg))
        v = remapped
    nt = None
    per_frame = [[i for i in e] for e in expected]
    if any(len(e) >= 2 and any(i in raising for i in e) and any(i not in raising for i in e) for e in per_frame):
        nt = keydigest((si, regs, mask, mi, ni))
    return {"v": v, "dg": obs, "nt": nt, "case": case,
            "out": ("e3", tuple(o[2] for o in obs), len(regs)) if mi is None else
                   ("hostile-text", text_class(MESSAGES[mi]), name_kind, handler, tuple(o[2] for o in obs))}


# =============================================================================
# E1: real runs through ModelRunner
# =============================================================================
FEATURE_TEXT = u'''@tF
Feature: F
  Scenario: S1
    Given step a
    When step exec
      """
      outer text
      """
    Then step a

  @tO
  Scenario Outline: O <n>
    Given step a
    Examples:
      | n |
      | 1 |
      | 2 |

  Rule: R
    @tS2
    Scenario: S2
      Given step exec
        | k | v |
        | 1 | 2 |
      Then step a

    Scenario: S3
      Given step a
'''
SUBSTEPS_OK = u'''Given step a
When step sub
  """
  inner text
  """
Then step sub
  | q |
  | 7 |
'''
SUBSTEPS_FAIL = SUBSTEPS_OK + u"And step subfail\n"
FAILING = ("failed", "error", "hook_error", "cleanup_error")
HOOKS = ("before_all", "after_all", "before_feature", "after_feature", "before_rule", "after_rule",
         "before_scenario", "after_scenario", "before_step", "after_step", "before_tag", "after_tag")


class RunRec(object):
    """what the callbacks of one real run do and see; the program of callback #k is a pure
    function of (k, style, faults) so that the oracle can re-derive it"""

    def __init__(self, style, exec_mode, raising, cbfault):
        self.style, self.exec_mode = style, exec_mode
        self.raising = set(raising)
        self.cbfault = cbfault          # (k, "E"|"A") or None
        self.events = []                # ("cb", k, kind, path, probes, ops) | ("cleanup", k, tag)
        self.k = 0
        self.path = ()
        self.paths = {}                 # id(model element) -> path
        self.tagcount = {}
        self.exec_obs = []
        self.preset = ()                # names of a fresh Context's test-run frame

    # ---- cleanup callables
    def cleanup(self, k, tag):
        self.events.append(("cleanup", k, tag))
        if k in self.raising:
            raise Boom(u"cleanup %d %s: %s" % (k, tag, MESSAGES[k % len(MESSAGES)]))

    def fixture(self, context, k):
        yield k
        self.cleanup(k, "fx")

    # ---- one callback
    def callback(self, kind, context, path):
        from behave.fixture import use_fixture
        k = self.k
        self.k += 1
        names = ["a%d" % j for j in range(k)] + ["shared"]
        probes = []
        for n in names:
            try:
                val = getattr(context, n)
            except AttributeError:
                val = "<AE>"
            probes.append((n, val, n in context))
        for n in self.preset:
            # names preset in the test-run scope: must be visible from every hook and step
            probes.append((n, "<present>" if hasattr(context, n) else "<AE>", n in context))
        ops = []

        def attempt(label, f):
            try:
                f()
                ops.append((label, "ok"))
            except KeyError as e:
                ops.append((label, "KeyError", e.args[0] if e.args else None, _site(sys.exc_info()[2])))
            except (AttributeError, LookupError) as e:
                ops.append((label, "AttributeError" if isinstance(e, AttributeError) else "LookupError"))
            except Exception as e:      # pylint: disable=broad-except
                ops.append((label, type(e).__name__))
        ev = ("cb", k, kind, path, tuple(probes), ops)
        self.events.append(ev)
        if k % 3 == 0 and k:
            attempt(("del", "a%d" % (k - 1)), lambda: delattr(context, "a%d" % (k - 1)))
        if self.style == 3 and k % 5 == 4:
            attempt(("del", "shared"), lambda: delattr(context, "shared"))
        attempt(("set", "a%d" % k), lambda: setattr(context, "a%d" % k, k))
        if k % 2 == 0:
            attempt(("set", "shared"), lambda: setattr(context, "shared", k))
        if k % 2 == 0:
            fn = lambda: self.cleanup(k, "plain")       # noqa: E731  (a fresh callable each time)
            attempt(("cl", "plain", None), lambda: context.add_cleanup(fn))
        else:
            attempt(("cl", "args", None), lambda: context.add_cleanup(self.cleanup, k, "args"))
        if self.style == 1:
            layer = NEST[(k // 2) % 4]
            attempt(("cl", "layer", layer), lambda: context.add_cleanup(self.cleanup, k, "layer", layer=layer))
        if self.style == 2 and k % 3 == 1:
            attempt(("cl", "fx", None), lambda: use_fixture(self.fixture, context, k))
        if self.cbfault and self.cbfault[0] == k:
            if self.cbfault[1] == "A":
                raise AssertionError("injected failure in callback %d" % k)
            raise Boom("injected error in callback %d" % k)

    # ---- hooks / steps
    def hook(self, name):
        def h(context, *args):
            if name == "before_all" or name == "after_all":
                path = ()
            elif "tag" in name:
                tag = str(args[0])
                if tag == "tO":
                    n = self.tagcount.get((name, tag), 0) + 1
                    self.tagcount[(name, tag)] = n
                    path = self.bytag[("tO", n)]
                else:
                    path = self.bytag[(tag, 1)]
            elif "step" in name:
                path = self.path
            else:
                path = self.paths[id(args[0])]
            if name in ("before_feature", "before_rule", "before_scenario") or "tag" in name:
                self.path = path
            self.callback(name, context, path)
        return h

    def step_a(self, context):
        self.callback("step", context, self.path)

    def step_sub(self, context):
        self.callback("step", context, self.path)

    def step_subfail(self, context):
        self.callback("step", context, self.path)
        assert False, "sub-step fails"

    def step_exec(self, context):
        self.callback("step", context, self.path)
        text0, table0 = context.text, context.table
        own = (text0, tuple(tuple(r.cells) for r in table0.rows) if table0 is not None else None)
        outcome = "ok"
        try:
            context.execute_steps(SUBSTEPS_OK if self.exec_mode == "ok" else SUBSTEPS_FAIL)
        except AssertionError:
            outcome = "substep-failed"
        text1 = getattr(context, "text", "<AE>")
        table1 = getattr(context, "table", "<AE>")
        self.exec_obs.append((own, outcome, text1 == text0 and (text1 is None) == (text0 is None),
                              table1 is table0, repr(text1)[:40]))


def walk_paths(feature, rec):
    """element -> scope path, derived from the parsed model only (never from the Context)"""
    fpath = (("feature", "F"),)
    rec.paths[id(feature)] = fpath
    rec.elements = {(): None, fpath: feature}
    rec.bytag = {("tF", 1): fpath}
    ocount = [0]

    def scen(s, parent):
        from behave.model import ScenarioOutline
        if isinstance(s, ScenarioOutline):
            for sub in s.scenarios:
                ocount[0] += 1
                p = parent + (("scenario", "O-%d" % ocount[0]),)
                rec.paths[id(sub)] = p
                rec.elements[p] = sub
                rec.bytag[("tO", ocount[0])] = p
        else:
            p = parent + (("scenario", s.name),)
            rec.paths[id(s)] = p
            rec.elements[p] = s
            for t in s.tags:
                rec.bytag[(str(t), 1)] = p
    for item in feature.run_items:
        from behave.model import Rule
        if isinstance(item, Rule):
            rp = fpath + (("rule", item.name),)
            rec.paths[id(item)] = rp
            rec.elements[rp] = item
            for s in item.run_items:
                scen(s, rp)
        else:
            scen(item, fpath)


def real_run(style, exec_mode, raising, cbfault):
    import logging
    from behave import matchers
    from behave.configuration import Configuration
    from behave.step_registry import StepRegistry
    from behave.parser import parse_feature
    from behave.runner import ModelRunner
    from io import StringIO
    root = logging.getLogger()
    saved = (root.level, list(root.handlers), sys.stdout, sys.stderr)
    matchers.use_step_matcher("parse")
    rec = RunRec(style, exec_mode, raising, cbfault)
    try:
        sys.stdout = StringIO()
        cfg = Configuration("", load_config=False)
        reg = StepRegistry()
        reg.add_step_definition("step", u"step a", rec.step_a)
        reg.add_step_definition("step", u"step exec", rec.step_exec)
        reg.add_step_definition("step", u"step sub", rec.step_sub)
        reg.add_step_definition("step", u"step subfail", rec.step_subfail)
        feature = parse_feature(FEATURE_TEXT, filename="f.feature")
        walk_paths(feature, rec)
        runner = ModelRunner(cfg, [feature], step_registry=reg)
        runner.hooks = {name: rec.hook(name) for name in HOOKS}
        runner.formatters = []
        from behave.runner import Context
        rec.preset = preset_names(Context(runner))
        failed = runner.run()
    finally:
        sys.stdout, sys.stderr = saved[2], saved[3]
        root.setLevel(saved[0])
        root.handlers[:] = saved[1]
    statuses = {p: (e.status.name if e is not None else None) for p, e in rec.elements.items()}
    return rec, failed, statuses


def layer_of(path):
    return path[-1][0] if path else "testrun"


def run_case(case):
    """(style, exec_mode, raising callback indexes, callback fault) -> oracle over the event log"""
    style, exec_mode, raising, cbfault = case
    with warnings.catch_warnings():
        warnings.simplefilter("ignore")
        rec, failed, statuses = real_run(style, exec_mode, raising, cbfault)
    v = []
    where = "run style=%d exec=%s raising cleanups of callbacks %r, callback fault %r" % case
    frames = [{"path": (), "data": {}, "cl": []}]
    pending = []
    ran_raising = {}            # owner path -> [k]
    ncb = 0
    deleted, tainted = set(), set()

    def end_frames_until(path):
        """model side of scope ends: expected cleanup events, newest frame first"""
        expected = []
        while frames and not (path is not None and path[:len(frames[-1]["path"])] == frames[-1]["path"]
                              and len(frames[-1]["path"]) <= len(path)):
            f = frames.pop()
            for (k, tag) in reversed(f["cl"]):
                expected.append(("cleanup", k, tag))
                if k in rec.raising:
                    ran_raising.setdefault(f["path"], []).append(k)
        return expected

    def check_pending(expected, at):
        if pending != expected:
            kind, trig = log_diff([("cl",) + e[1:] for e in pending], [("cl",) + e[1:] for e in expected])
            if kind == "missing":
                first = [e for e in expected if e not in pending][0]
                trig = first[2]
                if any(e[1] in rec.raising for e in expected[:expected.index(first)]):
                    trig += "-after-a-raising-cleanup"
            v.append(({"subcheck": "runs", "clause": "cleanup-log", "kind": kind, "trigger": trig},
                      "%s: before %s the cleanups %r ran, expected %r" % (where, at, pending, expected)))
        del pending[:]

    for ev in rec.events:
        if ev[0] == "cleanup":
            pending.append(ev)
            continue
        _, k, kind, path, probes, ops = ev
        ncb += 1
        check_pending(end_frames_until(path), "callback #%d (%s at %r)" % (k, kind, path))
        while len(frames[-1]["path"]) < len(path):
            frames.append({"path": path[:len(frames[-1]["path"]) + 1], "data": {}, "cl": []})
        # visibility of every name set so far
        for n, val, isin in probes:
            if n in tainted:
                continue
            if n in rec.preset:
                if (val, isin) != ("<present>", True):
                    v.append(({"subcheck": "runs", "clause": "contains" if val == "<present>" else "visible",
                               "kind": "name-preset-in-test-run-scope"},
                              "%s: callback #%d (%s at %r): hasattr(context, %r) is %r but (%r in context) is %r"
                              % (where, k, kind, path, n, val == "<present>", n, isin)))
                    break
                continue
            want = "<AE>"
            for f in reversed(frames):
                if n in f["data"]:
                    want = f["data"][n]
                    break
            if val != want or isin != (want != "<AE>"):
                if want == "<AE>":
                    cls = "ended-scope-value-still-visible"
                elif val == "<AE>":
                    cls = "outer-value-lost"
                else:
                    cls = "wrong-value"
                v.append(({"subcheck": "runs", "clause": "visible", "kind": cls},
                          "%s: callback #%d (%s at %r) sees %s=%r (in: %r), expected %r"
                          % (where, k, kind, path, n, val, isin, want)))
                break
        cur = frames[-1]
        for op in ops:
            label, res = op[0], op[1]
            if res == "KeyError":
                v.append(keyerror_violation(op[2], op[3], op[2] in deleted,
                                            "%s: callback #%d (%s at %r): %r" % (where, k, kind, path, label)))
                tainted.add(label[1])       # the operation may have been applied in part
                continue
            want = "ok"
            if label[0] == "del":
                want = "ok" if label[1] in cur["data"] else "AttributeError"
            elif label[0] == "cl" and label[1] == "layer":
                present = [f for f in frames if layer_of(f["path"]) == label[2]]
                want = "ok" if present else "LookupError"
            if res != want:
                v.append(({"subcheck": "runs", "clause": "result", "op": label[0], "got": res, "want": want},
                          "%s: callback #%d (%s at %r): %r gave %s, expected %s"
                          % (where, k, kind, path, label, res, want)))
                continue
            if res != "ok":
                continue
            if label[0] == "del":
                del cur["data"][label[1]]
                deleted.add(label[1])
            elif label[0] == "set":
                cur["data"][label[1]] = k
            elif label[0] == "cl":
                if label[1] == "layer":
                    [f for f in frames if layer_of(f["path"]) == label[2]][-1]["cl"].append((k, "layer"))
                else:
                    cur["cl"].append((k, label[1]))
    check_pending(end_frames_until(None), "the end of the run")
    # ---- a raising cleanup makes the owning element and the run fail
    any_raised = bool(ran_raising)
    for path, ks in sorted(ran_raising.items()):
        if path and statuses.get(path) not in FAILING:
            v.append(({"subcheck": "runs", "clause": "owner-fails", "layer": layer_of(path),
                       "got": str(statuses.get(path))},
                      "%s: cleanups of callbacks %r raised in %r but its status is %s"
                      % (where, ks, path, statuses.get(path))))
    if any_raised and not failed:
        v.append(({"subcheck": "runs", "clause": "run-fails",
                   "layer": layer_of(sorted(ran_raising)[0])},
                  "%s: cleanups raised in %r but the run verdict is 'passed'" % (where, sorted(ran_raising))))
    if not raising and not cbfault and exec_mode == "ok" and not v:
        bad = [(p, s) for p, s in statuses.items() if p and s != "passed"]
        if failed or bad:
            v.append(({"subcheck": "runs", "clause": "fault-free-run-passes"},
                      "%s: verdict failed=%r, statuses %r" % (where, failed, bad)))
    # ---- execute_steps restores the caller's text/table
    for own, outcome, text_ok, table_ok, shown in rec.exec_obs:
        if not (text_ok and table_ok):
            v.append(({"subcheck": "execute_steps", "clause": "text-table-restored",
                       "substeps": outcome},
                      "%s: step with text/table %r: after execute_steps (%s) context.text is %s, table identical: %r"
                      % (where, own, outcome, shown, table_ok)))
    dg = (tuple((e[:4] + (e[4], tuple(e[5]))) if e[0] == "cb" else e for e in rec.events), failed,
          tuple(sorted(statuses.items())), tuple(rec.exec_obs))
    out = (bool(failed), tuple(sorted(set(s for s in statuses.values() if s))), len(rec.exec_obs))
    return {"v": v, "dg": dg, "out": out, "nt": case if (raising or cbfault) else None,
            "keep": (case[:2], ncb, sum(1 for e in rec.events if e[0] == "cleanup"),
                     tuple(sorted(set(layer_of(p) for p in ran_raising))), len(rec.exec_obs))}


def e1_cases(ncb, quick):
    """ncb: {(style, exec_mode): number of callbacks of the fault-free run}.
    thorough: every single fault, every pair of raising cleanups, every raising cleanup x raising callback.
    quick: every single fault for exec_mode 'ok' (4 styles), and fixed thin slices of the pairs / products
    (the quick tier spends its budget on the depth-5 search)"""
    for (style, em), n in sorted(ncb.items()):
        yield (style, em, (), None)
    for (style, em), n in sorted(ncb.items()):
        if quick and em != "ok":
            continue
        for k in range(n):
            yield (style, em, (k,), None)
        for k in range(n):
            for kind in ("E", "A"):
                yield (style, em, (), (k, kind))
    for (style, em), n in sorted(ncb.items()):
        if quick and (style, em) != (0, "ok"):
            continue
        for a, b in itertools.combinations(range(min(n, 24) if quick else n), 2):
            yield (style, em, (a, b), None)
    for (style, em), n in sorted(ncb.items()):
        if em != "ok" or (quick and style != 1):
            continue
        for k in range(0, n, 6 if quick else 1):
            for j in range(0, n, 3 if quick else 1):
                for kind in ("E", "A"):
                    yield (style, em, (k,), (j, kind))


# =============================================================================
# re-entrant cleanups: cleanup functions are user code and may use the context API
# themselves (open and close a temporary layer, register cleanups on it, use a fixture
# in it, set/delete attributes, execute steps) - next to raising siblings, in all orders
# =============================================================================
RE_KINDS = ("plain", "raising", "nested", "nested+plain", "nested+raising", "nested+fixture", "nested+set", "sets")
RE_RAISES = {"raising": "outer", "nested+raising": "inner"}


def fx_reentrant(context, log, i):
    yield i
    log.append(("inner", i))


def reentrant_cleanup(kind, i, context, log, excs, depth_of):
    """the cleanup callable of one kind; logs what it does"""
    from behave.runner import scoped_context_layer
    from behave.fixture import use_fixture

    def inner(j):
        log.append(("inner", j))

    def inner_raising(j):
        log.append(("inner", j))
        raise excs[j]

    def cleanup():
        log.append(("run", i))
        if kind == "raising":
            raise excs[i]
        if kind == "sets":
            setattr(context, "tmp%d" % i, i)
        elif kind == "exec":
            context.execute_steps(u"Given noop")
        elif kind.startswith("nested"):
            d0 = depth_of()
            with scoped_context_layer(context):
                log.append(("depth", i, depth_of() - d0))
                if kind == "nested+plain":
                    context.add_cleanup(inner, i)
                elif kind == "nested+raising":
                    context.add_cleanup(inner_raising, i)
                elif kind == "nested+fixture":
                    use_fixture(fx_reentrant, context, log, i)
                elif kind == "nested+set":
                    context.nested_tmp = i
                    seen = "nested_tmp" in context and context.nested_tmp == i
                    del context.nested_tmp
                    log.append(("vis", i, seen, "nested_tmp" in context))
            log.append(("depth-after", i, depth_of() - d0))
    cleanup.__name__ = "cleanup_%d_%s" % (i, kind.replace("+", "_"))
    return cleanup


def reentrant_expected(kinds, noop_event=None):
    """model: -> (expected log of the scope end, index/kind of the first error or None).
    noop_event(visible tmp names) gives the event an executed 'noop' step logs"""
    log, first, tmps = [], None, []
    for i in reversed(range(len(kinds))):
        kind = kinds[i]
        log.append(("run", i))
        if kind == "sets":
            tmps.append("tmp%d" % i)
        elif kind == "exec":
            log.append(noop_event(tuple(sorted(tmps))))
        elif kind.startswith("nested"):
            log.append(("depth", i, 1))
            if kind == "nested+set":
                log.append(("vis", i, True, False))
            if kind in ("nested+plain", "nested+raising", "nested+fixture"):
                log.append(("inner", i))
            if kind != "nested+raising":
                log.append(("depth-after", i, 0))
        if kind in RE_RAISES and first is None:
            first = i
    return log, first


def reentrant_trigger(kinds, first):
    """minimal trigger class of a lost / wrong cleanup error"""
    if first is None:
        return "no-cleanup-raises"
    later = kinds[:first]           # registered earlier = run later
    if any(k.startswith("nested") or k == "exec" for k in later):
        return "context-reentering-cleanup-runs-after-the-raising-one"
    return "%s-cleanup-raises" % RE_RAISES[kinds[first]]


def reentrant_cases(maxn):
    for n in range(1, maxn + 1):
        for kinds in itertools.product(RE_KINDS, repeat=n):
            for si in range(len(SHAPES)):
                for target in range(len(SHAPES[si])):
                    yield (si, target, kinds)


def reentrant_case(case):
    """(shape, index of the frame that gets the cleanups, kinds in registration order)"""
    si, target, kinds = case
    shape = SHAPES[si]
    with _Quiet():
        env = Env(handler=False)
        ctx = env.ctx
        log, v, obs = [], [], []
        excs = {i: Boom((RE_RAISES.get(k, "-"), i)) for i, k in enumerate(kinds)}
        depth_of = lambda: len(ctx._stack)      # noqa: E731
        for d, layer in enumerate(shape):
            if d:
                ctx._push(layer)
            if d == target:
                for i, k in enumerate(kinds):
                    ctx.add_cleanup(reentrant_cleanup(k, i, ctx, log, excs, depth_of))
        want_log, first = reentrant_expected(kinds)
        where = "layers %r, cleanups %r registered in %r" % (shape, kinds, shape[target])
        trig = reentrant_trigger(kinds, first)
        for d in range(len(shape) - 1, -1, -1):
            n0 = len(log)
            exc = None
            try:
                if d:
                    ctx._pop()
                else:
                    ctx._do_cleanups()
            except Exception as e:      # pylint: disable=broad-except
                exc = e
            ran = log[n0:]
            want = want_log if d == target else []
            want_exc = excs[first] if (d == target and first is not None) else None
            obs.append((d, tuple(ran), type(exc).__name__ if exc else None))
            if ran != want:
                kind, _t = log_diff([("cl",) + tuple(e) for e in ran], [("cl",) + tuple(e) for e in want])
                v.append(({"subcheck": "reentrant", "clause": "cleanup-log", "kind": kind, "trigger": trig},
                          "%s: ending %r ran %r, expected %r" % (where, shape[d], ran, want)))
                break
            if exc is not want_exc:
                v.append(({"subcheck": "reentrant", "clause": "cleanup-error-raised", "trigger": trig},
                          "%s: ending %r raised %r, expected %r" % (where, shape[d], exc, want_exc)))
                break
            layers = env.layers()
            want_layers = shape[:d] if d else shape[:1]
            if layers != want_layers:
                v.append(({"subcheck": "reentrant", "clause": "stack", "trigger": trig},
                          "%s: after ending %r the layers are %r, expected %r" % (where, shape[d], layers, want_layers)))
                break
            if d == target:
                vis = tuple(sorted(n for n in ("tmp0", "tmp1", "tmp2", "tmp3", "nested_tmp") if n in ctx))
                want_vis = tuple(sorted("tmp%d" % i for i, k in enumerate(kinds) if k == "sets")) if d == 0 else ()
                if vis != want_vis:
                    v.append(({"subcheck": "reentrant", "clause": "visible", "trigger": trig},
                              "%s: after ending %r the names %r are visible, expected %r"
                              % (where, shape[d], vis, want_vis)))
                    break
    nt = None
    if first is not None and len(kinds) >= 2:
        nt = keydigest(("re", case))
    return {"v": v, "dg": obs, "nt": nt, "out": ("reentrant", trig, tuple(o[2] for o in obs))}


# ---- the same in real runs: scope status and run verdict are observed
RE_FEATURE = u'''Feature: F
  Scenario: S1
    Given reg
    Then noop

  Scenario: S2
    Given noop

  Rule: R
    Scenario: S3
      Given noop
'''
RE_RUN_KINDS = RE_KINDS + ("exec",)
RE_SCOPES = ("testrun", "feature", "rule", "scenario")


def reentrant_run_cases(maxn):
    for n in range(1, maxn + 1):
        for scope in RE_SCOPES:
            for kinds in itertools.product(RE_KINDS if scope == "testrun" else RE_RUN_KINDS, repeat=n):
                yield (scope, kinds)


def reentrant_run_case(case):
    """(scope, kinds in registration order): the cleanups are registered by the before_all /
    before_feature / before_rule hook or by a step of scenario S1"""
    import logging
    from behave import matchers
    from behave.configuration import Configuration
    from behave.step_registry import StepRegistry
    from behave.parser import parse_feature
    from behave.runner import ModelRunner
    from io import StringIO
    scope, kinds = case
    root = logging.getLogger()
    saved = (root.level, list(root.handlers), sys.stdout, sys.stderr)
    matchers.use_step_matcher("parse")
    log = []
    excs = {i: Boom((RE_RAISES.get(k, "-"), i)) for i, k in enumerate(kinds)}
    TMPS = ("tmp0", "tmp1", "tmp2", "nested_tmp")

    def register(context):
        depth_of = lambda: len(context._stack)      # noqa: E731
        for i, k in enumerate(kinds):
            context.add_cleanup(reentrant_cleanup(k, i, context, log, excs, depth_of))

    def noop(context):
        log.append(("noop", tuple(sorted(n for n in TMPS if n in context))))

    def reg_step(context):
        if scope == "scenario":
            register(context)

    hooks = {}
    if scope != "scenario":
        hooks[{"testrun": "before_all", "feature": "before_feature", "rule": "before_rule"}[scope]] = \
            lambda context, *args: register(context)
    with warnings.catch_warnings():
        warnings.simplefilter("ignore")
        try:
            sys.stdout = StringIO()
            cfg = Configuration("", load_config=False)
            reg = StepRegistry()
            reg.add_step_definition("step", u"reg", reg_step)
            reg.add_step_definition("step", u"noop", noop)
            feature = parse_feature(RE_FEATURE, filename="r.feature")
            runner = ModelRunner(cfg, [feature], step_registry=reg)
            runner.hooks = hooks
            runner.formatters = []
            failed = runner.run()
        finally:
            sys.stdout, sys.stderr = saved[2], saved[3]
            root.setLevel(saved[0])
            root.handlers[:] = saved[1]
    rule = [x for x in feature.run_items if type(x).__name__ == "Rule"][0]
    elements = {"feature": feature, "rule": rule, "scenario": feature.run_items[0]}
    statuses = {"feature": feature.status.name, "rule": rule.status.name,
                "S1": feature.run_items[0].status.name, "S2": feature.run_items[1].status.name,
                "S3": rule.run_items[0].status.name}
    block, first = reentrant_expected(kinds, lambda tmps: ("noop", tmps))
    plain = ("noop", ())
    want = [plain] + (block if scope == "scenario" else []) + [plain, plain] + \
        (block if scope != "scenario" else [])
    where = "real run, cleanups %r registered in the %s scope" % (kinds, scope)
    trig = reentrant_trigger(kinds, first)
    v = []
    if log != want:
        kind, _t = log_diff([("cl",) + tuple(e) for e in log], [("cl",) + tuple(e) for e in want])
        v.append(({"subcheck": "reentrant-runs", "clause": "cleanup-log", "kind": kind, "trigger": trig},
                  "%s: events %r, expected %r" % (where, log, want)))
    elif first is not None:
        if scope != "testrun" and elements[scope].status.name not in FAILING:
            v.append(({"subcheck": "reentrant-runs", "clause": "owner-fails", "trigger": trig},
                      "%s: a cleanup raised but the owning %s has status %s (statuses %r)"
                      % (where, scope, elements[scope].status.name, statuses)))
        if not failed:
            v.append(({"subcheck": "reentrant-runs", "clause": "run-fails", "trigger": trig},
                      "%s: a cleanup raised but the run verdict is 'passed'" % where))
    elif failed or any(st != "passed" for st in statuses.values()):
        v.append(({"subcheck": "reentrant-runs", "clause": "fault-free-run-passes", "trigger": trig},
                  "%s: no cleanup raises but failed=%r, statuses %r" % (where, failed, statuses)))
    return {"v": v, "dg": (tuple(log), failed, tuple(sorted(statuses.items()))),
            "nt": keydigest(("rerun", case)) if (first is not None and len(kinds) >= 2) else None,
            "out": ("reentrant-run", scope, bool(failed), trig)}


# =============================================================================
# nested execute_steps: step -> execute_steps -> step -> execute_steps -> ... ; every level's
# caller has its own text/table and must see exactly that again when execute_steps() returns
# or raises; every after_step hook sees the data of its own step
# =============================================================================
DATA_KINDS = ("text", "table", "both", "none")
LEAF_OUTCOMES = ("passes", "fails", "raises")


def level_data(kind, tag):
    """-> (text or None, table as (headings, rows) or None) a step of this kind carries"""
    text = u"text-%s" % tag if kind in ("text", "both") else None
    table = ((u"c%s" % tag,), ((u"v%s" % tag,),)) if kind in ("table", "both") else None
    return (text, table)


def render_step(keyword, name, kind, tag, indent):
    text, table = level_data(kind, tag)
    lines = [u"%s%s %s" % (indent, keyword, name)]
    if text is not None:
        lines += [indent + u'  """', indent + u"  " + text, indent + u'  """']
    if table is not None:
        lines += [indent + u"  | %s |" % table[0][0], indent + u"  | %s |" % table[1][0][0]]
    return u"\n".join(lines) + u"\n"


def snapshot(text, table):
    t = None if text is None else u"%s" % text
    tb = None
    if table is not None:
        tb = (tuple(u"%s" % h for h in table.headings), tuple(tuple(u"%s" % c for c in row.cells) for row in table.rows))
    return (t, tb)


def nested_exec_cases():
    for depth in (1, 2, 3):
        for kinds in itertools.product(DATA_KINDS, repeat=depth + 1):
            for outcome in LEAF_OUTCOMES:
                yield (depth, kinds, outcome)


def nested_exec_case(case):
    """(depth, data kind of the step at level 0..depth, outcome of the innermost sub-step)"""
    import logging
    from behave import matchers
    from behave.configuration import Configuration
    from behave.step_registry import StepRegistry
    from behave.parser import parse_feature
    from behave.runner import ModelRunner
    from io import StringIO
    depth, kinds, outcome = case
    root = logging.getLogger()
    saved = (root.level, list(root.handlers), sys.stdout, sys.stderr)
    matchers.use_step_matcher("parse")
    events = []

    def ctx_snapshot(context):
        return snapshot(getattr(context, "text", "<AE>"), getattr(context, "table", None))

    def level(context, n):
        events.append(("enter", n, ctx_snapshot(context)))
        if n == depth:
            if outcome == "fails":
                assert False, "innermost sub-step fails"
            if outcome == "raises":
                raise Boom("innermost sub-step raises")
            return
        sib_kind = DATA_KINDS[(DATA_KINDS.index(kinds[n]) + 2) % 4]      # differs from the caller's own kind
        steps_text = render_step(u"Given", u"sib %d" % n, sib_kind, u"S%d" % n, u"") + \
            render_step(u"When", u"level %d" % (n + 1), kinds[n + 1], u"L%d" % (n + 1), u"")
        try:
            context.execute_steps(steps_text)
        except AssertionError:
            events.append(("after-exec", n, ctx_snapshot(context), "AssertionError"))
            raise
        except Exception as e:      # pylint: disable=broad-except
            events.append(("after-exec", n, ctx_snapshot(context), type(e).__name__))
            raise
        events.append(("after-exec", n, ctx_snapshot(context), "ok"))

    def sib(context, n):
        events.append(("sib", n, ctx_snapshot(context)))

    def check(context):
        events.append(("next-step", ctx_snapshot(context)))

    def after_step(context, step):
        events.append(("after_step", u"%s" % step.name, ctx_snapshot(context), snapshot(step.text, step.table)))

    feature_text = u"Feature: N\n  Scenario: S\n" + render_step(u"Given", u"level 0", kinds[0], u"L0", u"    ") + \
        u"    Then check\n"
    with warnings.catch_warnings():
        warnings.simplefilter("ignore")
        try:
            sys.stdout = StringIO()
            cfg = Configuration("", load_config=False)
            reg = StepRegistry()
            reg.add_step_definition("step", u"level {n:d}", level)
            reg.add_step_definition("step", u"sib {n:d}", sib)
            reg.add_step_definition("step", u"check", check)
            feature = parse_feature(feature_text, filename="n.feature")
            runner = ModelRunner(cfg, [feature], step_registry=reg)
            runner.hooks = {"after_step": after_step}
            runner.formatters = []
            failed = runner.run()
        finally:
            sys.stdout, sys.stderr = saved[2], saved[3]
            root.setLevel(saved[0])
            root.handlers[:] = saved[1]
    scenario = feature.run_items[0]
    statuses = tuple(st.status.name for st in scenario.steps)
    v = []
    where = "nesting depth %d, data of levels %r, innermost sub-step %s" % case

    def below(n):
        return "1" if depth - n == 1 else (">=2" if depth - n >= 2 else "0")

    def bad(clause, n, text):
        if not any(d["clause"] == clause for d, _m in v):
            v.append(({"subcheck": "execute_steps-nested", "clause": clause, "nested_below": below(n)},
                      "%s: %s" % (where, text)))

    # ---- the expected event sequence
    want = []
    for n in range(depth + 1):
        want.append(("enter", n))
        if n < depth:
            want.append(("sib", n))
    leaf_ok = outcome == "passes"
    seen = [(e[0], e[1]) for e in events if e[0] in ("enter", "sib")]
    if seen != want:
        bad("sub-steps-executed", 0, "steps entered %r, expected %r" % (seen, want))
    for e in events:
        if e[0] == "enter":
            own = level_data(kinds[e[1]], "L%d" % e[1])
            if e[2] != own:
                bad("step-sees-own-data", e[1], "step at level %d sees %r, its own text/table is %r" % (e[1], e[2], own))
        elif e[0] == "sib":
            own = level_data(DATA_KINDS[(DATA_KINDS.index(kinds[e[1]]) + 2) % 4], "S%d" % e[1])
            if e[2] != own:
                bad("step-sees-own-data", e[1] + 1, "sibling sub-step of level %d sees %r, its own is %r" % (e[1], e[2], own))
        elif e[0] == "after-exec":
            own = level_data(kinds[e[1]], "L%d" % e[1])
            if e[2] != own:
                bad("caller-data-restored", e[1],
                    "after execute_steps() (%s) the caller at level %d sees %r, its own text/table is %r"
                    % (e[3], e[1], e[2], own))
            if e[3] != ("ok" if leaf_ok else "AssertionError"):
                bad("failure-propagates", e[1], "execute_steps() at level %d ended with %s" % (e[1], e[3]))
        elif e[0] == "after_step":
            if e[2] != e[3]:
                n = int(e[1].split()[-1]) if e[1].split()[0] == "level" else depth
                bad("after_step-sees-own-data", n,
                    "after_step(%s) sees %r, the step's own text/table is %r" % (e[1], e[2], e[3]))
        elif e[0] == "next-step":
            if e[1] != (None, None):
                bad("next-step-data", 0, "the next step (no text, no table) sees %r" % (e[1],))
    n_after = sum(1 for e in events if e[0] == "after-exec")
    if n_after != depth and not v:
        bad("sub-steps-executed", 0, "%d execute_steps() calls observed, expected %d" % (n_after, depth))
    want_status = ("passed", "passed") if leaf_ok else ("failed", "skipped")
    if (statuses != want_status or bool(failed) != (not leaf_ok)) and not v:
        bad("status", 0, "step statuses %r, run failed=%r; expected %r, failed=%r"
            % (statuses, failed, want_status, not leaf_ok))
    nt = keydigest(("nested-exec", case)) if depth >= 2 and len(set(kinds)) > 1 else None
    return {"v": v, "dg": (tuple(events), statuses, failed), "nt": nt,
            "out": ("nested-exec", depth, outcome, statuses)}


# =============================================================================
# a layer name that is active twice in a real run: a step opens a nested scope with the name of
# an active layer (scoped_context_layer), or runs another scenario as a sub-scenario
# (scenario.run(runner)); layer=<name> must mean the innermost LIVE frame of that name, and
# after the inner scope ended the outer one again
# =============================================================================
DUP_FEATURE = u'''Feature: D
  Scenario: S1
    Given nest
    Then noop

  Scenario: S2
    Given noop
'''


def dup_run_cases():
    for layer in NEST:
        for when in ("inside", "after", "both"):
            yield ("scoped", layer, when)
    for layer in ("scenario", "feature", "testrun"):
        yield ("sub-scenario", layer, "after")
    # an UNNAMED temporary scope (scoped_context_layer(context)): layer=<name> from inside it still means
    # the enclosing named layer, so the cleanup runs when THAT layer ends, not with the temporary scope
    for layer in NEST:
        for when in ("inside", "both"):
            yield ("unnamed", layer, when)


def dup_run_case(case):
    """(how the second scope of that name comes about, layer name, when the cleanup is registered)"""
    import logging
    from behave import matchers
    from behave.configuration import Configuration
    from behave.step_registry import StepRegistry
    from behave.parser import parse_feature
    from behave.runner import ModelRunner, scoped_context_layer
    from io import StringIO
    how, layer, when = case
    root = logging.getLogger()
    saved = (root.level, list(root.handlers), sys.stdout, sys.stderr)
    matchers.use_step_matcher("parse")
    events = []

    def cleanup(tag):
        events.append(("cleanup", tag))

    def register(context, tag):
        try:
            context.add_cleanup(cleanup, tag, layer=layer)
            events.append(("registered", tag))
        except LookupError:
            events.append(("LookupError", tag))
        except Exception as e:      # pylint: disable=broad-except
            events.append((type(e).__name__, tag))

    def nest(context):
        if how == "scoped":
            with scoped_context_layer(context, layer):
                if when in ("inside", "both"):
                    register(context, "inside")
                events.append(("inner-scope-ends",))
        elif how == "unnamed":
            with scoped_context_layer(context):
                register(context, "inside")
                context.add_cleanup(cleanup, "temporary-scope")        # goes to the unnamed frame itself
                events.append(("inner-scope-ends",))
        else:
            events.append(("sub-scenario-starts",))
            context.feature.run_items[1].run(context._runner)
            events.append(("sub-scenario-ended",))
        if when in ("after", "both"):
            register(context, "after")

    def noop(context):
        events.append(("noop",))

    hooks = {"after_scenario": lambda context, scenario: events.append(("after_scenario", u"%s" % scenario.name)),
             "after_feature": lambda context, feature: events.append(("after_feature",)),
             "after_all": lambda context: events.append(("after_all",))}
    with warnings.catch_warnings():
        warnings.simplefilter("ignore")
        try:
            sys.stdout = StringIO()
            cfg = Configuration("", load_config=False)
            reg = StepRegistry()
            if how == "sub-scenario":
                # a scenario run from inside a step is only possible without output capture
                # (the capture controller is not re-entrant; not a C13 matter)
                cfg = Configuration("--no-capture --no-capture-stderr --no-logcapture", load_config=False)
            reg.add_step_definition("step", u"nest", nest)
            reg.add_step_definition("step", u"noop", noop)
            feature = parse_feature(DUP_FEATURE, filename="d.feature")
            runner = ModelRunner(cfg, [feature], step_registry=reg)
            runner.hooks = hooks
            runner.formatters = []
            failed = runner.run()
        finally:
            sys.stdout, sys.stderr = saved[2], saved[3]
            root.setLevel(saved[0])
            root.handlers[:] = saved[1]
    statuses = (feature.status.name,) + tuple(sc.status.name for sc in feature.run_items)
    # ---- expected events (model: layer=<name> is the innermost live frame of that name)
    live_outer = layer != "rule"            # this feature has no rule: outside the nested scope no "rule" layer is live
    want = []
    ran_named = []          # cleanups owned by the enclosing layer NAMED `layer`, in registration order
    if how == "scoped":
        if when in ("inside", "both"):
            want.append(("registered", "inside"))
        want.append(("inner-scope-ends",))
        if when in ("inside", "both"):
            want.append(("cleanup", "inside"))
    elif how == "unnamed":
        want.append(("registered", "inside") if live_outer else ("LookupError", "inside"))
        want += [("inner-scope-ends",), ("cleanup", "temporary-scope")]
        if live_outer:
            ran_named.append(("cleanup", "inside"))
    else:
        want += [("sub-scenario-starts",), ("noop",), ("after_scenario", u"S2"), ("sub-scenario-ended",)]
    after = when in ("after", "both")
    if after:
        want.append(("registered", "after") if live_outer else ("LookupError", "after"))
    if after and live_outer:
        ran_named.append(("cleanup", "after"))
    ran_after = list(reversed(ran_named))
    want += [("noop",), ("after_scenario", u"S1")] + (ran_after if layer == "scenario" else [])
    want += [("noop",), ("after_scenario", u"S2"), ("after_feature",)] + (ran_after if layer == "feature" else [])
    want += [("after_all",)] + (ran_after if layer == "testrun" else [])
    v = []
    where = "real run: %s scope named %r inside scenario S1, cleanup registered with layer=%r %s" % (how, layer, layer, when)
    if events != want:
        got = [e for e in events if e[0] in ("registered", "LookupError") or e[0].endswith("Error")]
        cls = "refused" if [e for e in got if e[0] != "registered"] != [e for e in want if e[0] == "LookupError"] \
            else "ran-at-the-wrong-scope-end"
        v.append(({"subcheck": "duplicate-layer-runs", "clause": "layer-lookup", "kind": cls,
                   "inner_scope": ("unnamed-" if how == "unnamed" else "") + ("ended" if after else "live")},
                  "%s: events %r, expected %r" % (where, events, want)))
    elif failed or any(st != "passed" for st in statuses):
        v.append(({"subcheck": "duplicate-layer-runs", "clause": "status"},
                  "%s: failed=%r statuses %r" % (where, failed, statuses)))
    return {"v": v, "dg": (tuple(events), failed, statuses), "nt": keydigest(("dup-run", case)),
            "out": ("dup-run", how, when, bool(failed))}


# =============================================================================
# runner reuse: ONE ModelRunner object, run() called several times.  The test-run scope of a
# run ends with that run: every run must behave exactly like the same program on a fresh runner
# =============================================================================
REUSE_FEATURE = u'''Feature: U
  Scenario: S1
    Given work
    Then probe

  Scenario: S2
    Given probe
'''
REUSE_PROGRAMS = ("plain", "raising-cleanup", "failing-step", "abort")
REUSE_NAMES = ("ra", "fa", "sa", "shared")


def reuse_plain_cleanup():
    """a module-level cleanup function, registered without arguments in every run (as user code would)"""
    _REUSE_LOG[0].append(("cleanup", "plain-module-function"))


_REUSE_LOG = [None]


class ReuseRec(object):
    """the callbacks of the runner-reuse programs; .k/.program/.events are switched per run"""

    def __init__(self):
        self.k, self.program, self.events = 0, "plain", []

    def cleanup(self, tag, k=None):
        self.events.append(("cleanup", tag, k))
        if tag == "before_all-args" and self.program == "raising-cleanup":
            raise Boom(u"test-run cleanup of run %s raises {0} %%s" % k)

    def fixture(self, context, k):
        self.events.append(("fixture-setup", k))
        yield k
        self.events.append(("cleanup", "fixture-teardown", k))

    def probe(self, kind, context):
        seen = []
        for n in REUSE_NAMES:
            seen.append((n, getattr(context, n, "<AE>"), n in context))
        flags = tuple((n, getattr(context, n, "<AE>")) for n in ("failed", "aborted", "cleanup_errors"))
        self.events.append(("cb", kind, tuple(seen), flags))

    # ---- hooks
    def before_all(self, context):
        from behave.fixture import use_fixture
        self.probe("before_all", context)
        k = self.k
        context.ra = ("ra", k)
        context.shared = ("shared-testrun", k)
        context.add_cleanup(reuse_plain_cleanup)
        context.add_cleanup(self.cleanup, "before_all-args", k)
        context.add_cleanup(self.cleanup, tag="before_all-kwargs", k=k)
        use_fixture(self.fixture, context, k)

    def before_feature(self, context, feature):
        self.probe("before_feature", context)
        context.fa = ("fa", self.k)
        context.add_cleanup(self.cleanup, "feature-args", self.k)

    def before_scenario(self, context, scenario):
        self.probe("before_scenario", context)
        context.add_cleanup(self.cleanup, "scenario-hook-layer-testrun", self.k, layer="testrun")

    def after_all(self, context):
        self.probe("after_all", context)

    # ---- steps
    def work(self, context):
        self.probe("step work", context)
        k = self.k
        context.sa = ("sa", k)
        context.shared = ("shared-scenario", k)
        context.add_cleanup(self.cleanup, "step-layer-testrun", k, layer="testrun")
        context.add_cleanup(self.cleanup, "step-scenario", k)
        if self.program == "failing-step":
            assert False, "step of run %d fails" % k
        if self.program == "abort":
            context.abort()

    def probe_step(self, context):
        self.probe("step probe", context)


def reuse_histories(length):
    for n in range(2, length + 1):
        for hist in itertools.product(REUSE_PROGRAMS, repeat=n):
            yield hist


def _reuse_runs(history, fresh_each_time):
    """-> per run: (events, statuses, failed).  One registry and one set of callbacks; either ONE
    runner for all runs or a fresh runner per run (the reference)"""
    import logging
    from behave import matchers
    from behave.configuration import Configuration
    from behave.step_registry import StepRegistry
    from behave.parser import parse_feature
    from behave.runner import ModelRunner
    from io import StringIO
    root = logging.getLogger()
    saved = (root.level, list(root.handlers), sys.stdout, sys.stderr)
    matchers.use_step_matcher("parse")
    rec = ReuseRec()
    out = []
    try:
        sys.stdout = StringIO()
        reg = StepRegistry()
        reg.add_step_definition("step", u"work", rec.work)
        reg.add_step_definition("step", u"probe", rec.probe_step)
        hooks = {"before_all": rec.before_all, "before_feature": rec.before_feature,
                 "before_scenario": rec.before_scenario, "after_all": rec.after_all}
        runner = None
        for k, program in enumerate(history):
            feature = parse_feature(REUSE_FEATURE, filename="u.feature")
            if runner is None or fresh_each_time:
                runner = ModelRunner(Configuration("", load_config=False), [feature], step_registry=reg)
                runner.hooks = hooks
                runner.formatters = []
            else:
                runner.features = [feature]
            rec.k, rec.program, rec.events = k, program, []
            _REUSE_LOG[0] = rec.events
            failed = runner.run()
            statuses = (feature.status.name,) + tuple(sc.status.name for sc in feature.run_items) + \
                tuple(st.status.name for sc in feature.run_items for st in sc.steps)
            out.append((tuple(rec.events), statuses, bool(failed)))
    finally:
        sys.stdout, sys.stderr = saved[2], saved[3]
        root.setLevel(saved[0])
        root.handlers[:] = saved[1]
        _REUSE_LOG[0] = None
    return out


def reuse_case(history):
    """history = the programs of the consecutive run() calls on ONE ModelRunner"""
    with warnings.catch_warnings():
        warnings.simplefilter("ignore")
        reused = _reuse_runs(history, False)
        fresh = _reuse_runs(history, True)
    v = []
    for k, (got, want) in enumerate(zip(reused, fresh)):
        if got == want:
            continue
        where = "one ModelRunner, run() #%d (programs of the runs: %r)" % (k + 1, history)
        n0 = len(v)
        gev, wev = got[0], want[0]
        gcl, wcl = [e for e in gev if e[0] == "cleanup"], [e for e in wev if e[0] == "cleanup"]
        gcb, wcb = [e for e in gev if e[0] == "cb"], [e for e in wev if e[0] == "cb"]
        if [e[:3] for e in gcb] != [e[:3] for e in wcb]:
            diff = [(a[1], [x for x, y in zip(a[2], b[2]) if x != y]) for a, b in zip(gcb, wcb) if a[:3] != b[:3]]
            v.append(({"subcheck": "runner-reuse", "clause": "visible"},
                      "%s: %s sees %r; on a fresh runner %r" % (
                          where, diff[0][0] if diff else "a callback", diff[0][1] if diff else gcb,
                          [y for a, b in zip(gcb, wcb) if a[:3] != b[:3] for x, y in zip(a[2], b[2]) if x != y][:4])))
        if gcl != wcl:
            kind, _t = log_diff([("cl",) + e[1:] for e in gcl], [("cl",) + e[1:] for e in wcl])
            extra = [e for e in gcl if e not in wcl]
            v.append(({"subcheck": "runner-reuse", "clause": "cleanup-log", "kind": kind,
                       "trigger": "cleanup-of-an-earlier-run" if any(e[2] is not None and e[2] != k for e in extra)
                       else "other"},
                      "%s: cleanups %r; on a fresh runner %r" % (where, gcl, wcl)))
        if [e[3] for e in gcb] != [e[3] for e in wcb] and len(gcb) == len(wcb):
            diff = [(a[1], a[3], b[3]) for a, b in zip(gcb, wcb) if a[3] != b[3]]
            v.append(({"subcheck": "runner-reuse", "clause": "root-flags"},
                      "%s: %s sees (failed, aborted, cleanup_errors) = %r; on a fresh runner %r" % ((where,) + diff[0])))
        if got[1:] != want[1:]:
            v.append(({"subcheck": "runner-reuse", "clause": "status-verdict"},
                      "%s: statuses/failed %r; on a fresh runner %r" % (where, got[1:], want[1:])))
        if len(v) == n0:
            v.append(({"subcheck": "runner-reuse", "clause": "events"},
                      "%s: events %r; on a fresh runner %r" % (where, gev, wev)))
        break
    return {"v": v, "dg": tuple(reused), "nt": keydigest(("reuse", history)),
            "out": ("runner-reuse", history[-1], tuple(r[2] for r in reused)),
            "keep": (len(history), sum(1 for e in reused[-1][0] if e[0] == "cleanup"),
                     sum(1 for e in reused[-1][0] if e[0] == "cb"))}


# =============================================================================
# driver
# =============================================================================
def run(ctx):
    from behave.runner import Context   # noqa: F401  (fail early if behave is not importable)
    quick = ctx.quick
    plan = [("full", 5), ("dup", 6)] if quick else [("full", 6), ("attrs", 7), ("deep", 7), ("dup", 7)]
    nodedup = [("full", 3), ("dup", 4)] if quick else [("full", 4), ("attrs", 5), ("dup", 4)]
    bounds = {"bfs": {}, "no_dedup": {}}
    flags = set()
    all_states = set()
    results = {}
    for profile, depth in plan:
        r = run_bfs(ctx, profile, depth, snapshot=dict(nodedup).get(profile))
        results[profile] = r
        flags |= r["flags"]
        bounds["bfs"][profile] = {"depth": depth, "states": r["states"], "histories_expanded": r["expanded"],
                                  "states_within_depth": {str(k): n for k, n in sorted(r["states_within"].items())}}
        all_states |= r.pop("seen")         # canonical keys do not depend on the alphabet
    ctx.st["states"] += len(all_states)
    del all_states
    for profile, depth in nodedup:
        bounds["no_dedup"][profile] = cross_check(ctx, profile, results[profile]["snapshot"],
                                                  results[profile]["vclasses"], depth)
    # ---- reserved names
    with _Quiet():
        names = preset_names()
    ctx.guard(set(DOCUMENTED_ROOT_NAMES) <= set(names) and PRESET in names,
              "the documented root names are among the names of a fresh Context's test-run frame %r" % (names,))
    ctx.sweep(reserved_case, list(reserved_cases(names)), chunk=16, name="reserved root names: writes")
    ctx.sweep(read_case, list(read_cases(names)), chunk=16, name="read operations x name origins")
    bounds["preset_names"] = list(names)
    # ---- E3
    maxn = 3 if quick else 4
    custom_upto = 2 if quick else 3
    ctx.sweep(e3_case, e3_cases(maxn, custom_upto), chunk=16, name="raising subsets of <= %d registrations" % maxn)
    bounds["raising_subsets"] = {"registrations": maxn, "stack_shapes": len(SHAPES), "subsets": "all",
                                 "custom_error_handler_up_to": custom_upto}
    ctx.sweep(e3_case, hostile_cases(), chunk=64,
              name="format-hostile exception messages / cleanup names x both error handlers")
    bounds["hostile_text"] = {"messages": list(MESSAGES), "callable_kinds": list(NAME_KINDS)}
    # ---- re-entrant cleanups
    re_n = 3 if quick else 4
    ctx.sweep(reentrant_case, reentrant_cases(re_n), chunk=64, name="re-entrant cleanups: <= %d per layer, all orders" % re_n)
    ctx.sweep(reentrant_run_case, reentrant_run_cases(3), chunk=16, name="re-entrant cleanups in real runs: <= 3 per scope")
    bounds["reentrant_cleanups"] = {"kinds": list(RE_KINDS), "real_run_kinds": list(RE_RUN_KINDS),
                                    "per_layer": re_n, "per_scope_in_real_runs": 3, "orders": "all"}
    ctx.sweep(dup_run_case, list(dup_run_cases()), chunk=1, name="a layer name active twice in a real run")
    kept_reuse = ctx.sweep(reuse_case, list(reuse_histories(2 if quick else 3)), chunk=1, keep=True,
                           name="runner reuse: run() called %d times on one ModelRunner" % (2 if quick else 3))
    ctx.guard(all(k[1] >= 6 and k[2] >= 5 for k in kept_reuse) and kept_reuse,
              "runner reuse: every last run registers >= 6 cleanups and probes at >= 5 callbacks")
    bounds["runner_reuse"] = {"runs_on_one_runner": 2 if quick else 3, "programs": list(REUSE_PROGRAMS)}
    # ---- nested execute_steps
    ctx.sweep(nested_exec_case, nested_exec_cases(), chunk=16, name="nested execute_steps: depth 1..3 x data kinds x outcome")
    bounds["nested_execute_steps"] = {"depth": 3, "data_kinds_per_level": list(DATA_KINDS),
                                      "innermost_outcomes": list(LEAF_OUTCOMES)}
    # ---- E1
    probe = ctx.sweep(run_case, [(style, em, (), None) for style in (0, 1, 2, 3) for em in ("ok", "fail")],
                      chunk=1, keep=True, name="real runs: fault-free (counting callbacks)")
    ncb = {k[0]: k[1] for k in probe}
    kept = ctx.sweep(run_case, e1_cases(ncb, quick), chunk=8, keep=True, name="real runs: raising cleanups / callbacks")
    bounds["real_runs"] = {"callbacks_per_run": {"%d/%s" % k: n for k, n in sorted(ncb.items())},
                           "faults": "every single raising cleanup, every single raising callback (2 kinds), "
                                     "pairs of raising cleanups, raising cleanup x raising callback"
                                     + (" (quick: singles for exec 'ok' only; pairs among the first 24 callbacks of "
                                        "style 0; every 6th cleanup x every 3rd callback of style 1)" if quick else "")}
    ctx.bounds = bounds
    # ---- vacuity guards
    for f in ("depth3-shadow-delete", "cleanup-runs-after-raising-one", "layer-absent", "layer-outer",
              "plain-duplicate", "fixture-teardown-at-scope-end", "fixture-inner-at-scope-end"):
        ctx.guard(f in flags, "some explored history exercises: %s" % f)
    owners = set()
    for k in kept:
        owners.update(k[3])
    ctx.guard(owners >= set(NEST), "real runs: a raising cleanup ended every kind of scope (%s)" % sorted(owners))
    ctx.guard(all(n >= 40 for n in ncb.values()), "real runs: at least 40 callbacks per run")
    ctx.guard(all(k[4] >= 1 for k in probe), "real runs: execute_steps observed from a step with text/table")
    ctx.guard(len(ctx.nt) > 100, "more than 100 distinct non-trivial cases")
