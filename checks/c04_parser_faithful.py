# -*- coding: utf-8 -*-
"""C04 - Gherkin parsing is faithful: structure, text, tags, step types, line numbers.

Abstract document tree -> independent renderer (vlib/gherkin_render.py: text
plus the model that was written, every element knowing the 1-based line it was
emitted on) -> real parser -> field-by-field comparison.  Enumerated: all
feature shapes up to a block bound, all step-keyword sequences up to length 3
in every background context, every single layout deviation at every position
of representative documents, all languages x every alias of every keyword,
all six entry points, the ModelDescriptor round trip, and (engine E2) the
attachment of every accepted line for every reachable (parser state, line
kind) pair against a small reference grammar.
"""
import collections
import itertools
import os
import shutil
import tempfile
from vlib.core import digest
from vlib import gherkin_render as gr
from vlib import parser_search as ps

PROPERTY = "C04"
LEVEL = "model_checking"
RULE = ("Documents are rendered from abstract trees; the oracle is the tree that was rendered (element order, keyword "
        "as written, names, description lines, tags with lines, step types with And/But/* inheritance, doc-string text "
        "after indent stripping + content type, table headings/cells/row lines, 1-based start line of every element). "
        "(1) ALL feature shapes with <= 4 (quick) / <= 6 (thorough) blocks (feature background?, scenarios, outlines "
        "with 1-2 Examples, rules with own background? and scenarios/outlines), 3 (quick) / 2 (thorough) detail "
        "rotations each (names incl. empty/unicode, 0-2 description lines, 0-3 tags, step arguments none / both "
        "doc-string quote styles / tables with escaped pipes, empty cells, unicode) through parse_feature. "
        "(2) ALL 258 step keyword sequences of length <= 3 over given/when/then/and/but/* in 12 contexts (no "
        "background, feature background of each type, rule inheriting, rule with own / own empty background, second "
        "scenario, as background steps, parse_steps, parse_scenario). (3) On every 16th (thorough: 8th) shape + 2 rich documents: "
        "every single layout deviation (indent 0/4/tab, tags on two lines, trailing comment on tag lines, no final "
        "newline, 1-3 trailing blanks / a tab / NBSP after every kind of line (tag, keyword, description, step, row, "
        "doc-string opening and closing delimiter lines, all), line ends LF / CRLF / lone CR with and without final "
        "newline through parse_feature and parse_file, one stray CR / CRLF at every line of an LF document, a blank / whitespace-only / comment / indented comment line inserted at EVERY position outside "
        "doc-strings); thorough: all pairs indent x insertion and all pairs of insertion positions. A difference that "
        "the un-deviated rendering shows too is reported as a model difference, not as a layout one. (4) ALL 80 "
        "languages x EVERY alias of EVERY keyword (taken from etc/gherkin/gherkin-languages.json, not from i18n.py) "
        "substituted into a 19-line document (thorough: 3 documents), via parse_feature with '# language:' header, "
        "parse_file (file in a mkdtemp directory under /dev/shm) and the language= argument; a difference that the "
        "same document shows in English too is reported without the language. "
        "(5) parse_steps / parse_scenario / parse_rule / parse_tags on rendered step blocks, scenarios, rules, tag "
        "texts; for parse_tags tags on 1-3 lines, trailing comments on every subset of lines, and blank / "
        "whitespace-only / comment-only lines (1-2 at a time) at every position before, between and after the tag "
        "lines (thorough: pairs of positions), comparing every Tag name AND Tag.line with the line it is written on; "
        "the same fillers at every position of feature / scenario / rule documents whose taggable elements all carry "
        "2-3 tags (one or two tag lines, with and without trailing comment). (5b) doc-string layouts: closing "
        "delimiter at the column of the opening one / 1-2 deeper / 1-2 shallower / column 0 x both quote styles x 6 "
        "contents (plain, more-indented lines, empty, leading/trailing blank lines, the other quote style, format "
        "metacharacters) x doc-string on the last step / followed by a step / by a step with a table / by the next "
        "tagged scenario x 7 contexts (scenario, background, rule background, rule scenario, outline before Examples, "
        "parse_steps, parse_scenario) x indent styles. (5c) steps carrying a doc-string AND a table: either order x "
        "doc-string indented like / 2 deeper / 2 shallower than the table / at column 0 x both quote styles x 4 "
        "contents (plain, more-indented + blank lines, empty, format metacharacters + row-like line) x 3 tables x "
        "closing delimiter column x last step / followed by a step x 6 contexts (scenario, background, rule "
        "background, outline template, parse_steps, parse_scenario) x indent styles; such arguments also rotate "
        "through the shapes of (1) and the layouts of (3). "
        "(5d) steps whose text ends with ':' x argument none / either doc-string / table / both x 8 contexts incl. "
        "outlines WITHOUT steps (1-2 Examples blocks), with the environment switch "
        "BEHAVE_STRIP_STEPS_WITH_TRAILING_COLON off and on (on: a private copy of behave/parser.py executed with the "
        "variable set; reference: the colon is dropped iff an argument follows), and the shape sweep with the switch on. "
        "(6) ModelDescriptor.describe_table / describe_docstring re-parsed. (7) E2: breadth-first search over "
        "line histories of a 20-kind well-formed-line alphabet on the real Parser (canonical abstraction of C05) for "
        "parse_feature and parse_steps, plus all sequences <= 3 (quick) / <= 4 (thorough) lines: whenever the real "
        "parser accepts a history that the reference grammar also places, the model must equal the reference "
        "attachment. (8) Parser-reuse histories: ONE Parser object (a new one, or feature.parser of a parsed feature "
        "as Context.execute_steps uses it) makes 2-3 calls of parse / parse_steps / parse_scenario / parse_rule; the "
        "earlier calls abort at the C05 fault points (malformed row in a step table of width 1 / 2 and in an Examples "
        "table, BAD-INDENT inside a doc-string, doc-string left open, doc-string / table before any step, free text "
        "after tags / after steps, second Feature, Examples inside a description, bad tag, And/But first, only tags, "
        "table open at the end, a '# language: de' text) or complete; the last call is a well-formed rendered text "
        "(table of the same width, another width, none, doc-string, both, tags, outline, rule, de header). Every call "
        "(also Parser.parse_tags; histories both with parser.variant assigned before every call as execute_steps does "
        "and as plain library calls that never touch it, the latter incl. every (x ; fragment call ; whole feature with "
        "an en / de / fr '# language:' header)) "
        "must give the model (canonical form incl. lines) or the exception class + line that a FRESH Parser carrying "
        "the same language gives (for a whole feature text also: a fresh Parser without language). "
        "(8b) the well-formed texts of (8) through objects of Parser subclasses (own constructor signature, counting "
        "constructor, no override): rendered model, constructor run once. "
        "(9) Language-sequence histories (module / class level memos show only across documents): for EVERY ordered "
        "pair of languages that share a step keyword string (derived from the keyword table; thorough: also '* ', i.e. "
        "nearly all pairs), in one fresh process-state (a private, freshly executed copy of behave/parser.py, not in "
        "sys.modules) an L1 document that uses the shared keyword, then L2 documents with every step alias of L2; "
        "and the whole languages x aliases sweep in 4 language orders, one process-state each; every document must "
        "give exactly what it gives when it is the first text parsed in a fresh process-state. A document is "
        "non-trivial (counted distinct by its text) when it has at least one step or table; "
        "an alias case is distinct by (language, keyword, alias); a history by (abstract state, line kind).")
ASSUMPTIONS = [
    "names / descriptions / cells / doc-string lines come from a finite alphabet (checked on every run not to be "
    "mistakable for a keyword, tag, table or comment in any of the 80 languages); no trailing whitespace, no backslash "
    "other than the escaped pipe, no triple double-quotes inside doc-string content",
    "details (names, tags, descriptions, arguments) rotate deterministically over the shapes: all shapes, keyword "
    "sequences, positions, languages and aliases are exhaustive, the cross product of details with shapes is a covering",
    "a rule without written Background may carry a synthesised empty Background (inheritance device): accepted",
    "'*' as first step of an element: 'given' or the type supplied by the background are both accepted (statement silent)",
    "parse_scenario is only given plain scenarios",
    "in the E2 part histories that the reference grammar leaves unspecified (keyword-like or table-like lines where "
    "free-form description text is allowed, steps after an Examples table, two tables or two doc-strings on one step) "
    "are not compared; a step with one doc-string and one table (either order) is compared",
    "a step with two tables or two doc-strings is not rendered: behave accepts it and silently keeps only the last "
    "one (a step has one .text and one .table); no Gherkin grammar allows it, so it is outside 'well-formed'",
    "the keyword table is etc/gherkin/gherkin-languages.json of the repository under test (the upstream data that "
    "behave/i18n.py is generated from), so that a keyword missing from i18n.py is noticed",
    "parser reuse: which language a re-used Parser object starts a further whole-feature parse() in - the one it was "
    "built with or the one a '# language:' header of an earlier text left behind - is outside the statement; both are "
    "accepted (model or error class + line of a fresh Parser() and of a fresh Parser(language=<carried language>)); "
    "steps / scenario / rule fragments are compared with a fresh Parser carrying the same language (that is how "
    "execute_steps() gets the feature's language); everything else a parser keeps between parses is compared strictly",
    "BEHAVE_STRIP_STEPS_WITH_TRAILING_COLON is unset in the process (./check scrubs BEHAVE_*); the switch is exercised "
    "in a private copy of behave/parser.py executed with the variable set; reference: with the switch on a step whose "
    "text ends with ':' and that carries a doc-string or table loses that one colon, nothing else changes",
    "physical encoding: trailing blanks are U+0020, TAB and NBSP (str.strip() treats NBSP as blank) after every kind of "
    "line except doc-string content lines (the parser strips trailing whitespace of content lines: statement silent); "
    "line ends are LF, CRLF, lone CR and one stray CR / CRLF in an LF document (a lone CR directly before an empty "
    "line is left out: CR + LF would read as one CRLF); FF / VT / NEL / LS / PS inside a line (also line breaks for "
    "str.splitlines) are not varied",
    "a UTF-8 byte-order mark in front of a feature file is outside the statement: parse_file() does not strip it and "
    "reports 'No feature found'; not varied",
]

SCRATCH = "/dev/shm"


def init_worker():
    ps.install()
    global bp, bm, ModelDescriptor
    import behave.parser as bp
    import behave.model as bm
    from behave.model_describe import ModelDescriptor


# ================================================================ generic compare
def _parse(entry, text, language=None, via="text", mod=None, bom=False):
    """-> ("ok", extracted) | ("exc", typename, site, repr);  mod: a private copy of behave.parser (default: the
    real module); via="file": the text goes to disk as UTF-8 bytes (bom=True: with a byte order mark) -> parse_file"""
    tmp = None
    bp = mod or globals()["bp"]
    try:
        try:
            if entry == "feature":
                if via == "file":
                    tmp = tempfile.mkdtemp(prefix="c04-", dir=SCRATCH)
                    path = os.path.join(tmp, "doc.feature")
                    with open(path, "wb") as f:
                        f.write((b"\xef\xbb\xbf" if bom else b"") + text.encode("utf-8"))
                    res = bp.parse_file(path, language=language)
                else:
                    res = bp.parse_feature(text, language=language)
            elif entry == "steps":
                res = bp.parse_steps(text, language=language)
            elif entry == "scenario":
                res = bp.parse_scenario(text, language=language)
            elif entry == "rule":
                res = bp.parse_rule(text, language=language)
            else:
                raise ValueError(entry)
        except Exception as e:
            return ("exc", type(e).__name__, ps.exc_site(e), repr(e)[:200])
    finally:
        if tmp is not None:
            shutil.rmtree(tmp, ignore_errors=True)
    if res is None:
        return ("ok", None)
    want = {"feature": bm.Feature, "steps": list, "scenario": bm.Scenario, "rule": bm.Rule}[entry]
    if not isinstance(res, want):
        return ("ok", {"kind": "a %s object" % type(res).__name__})
    if entry == "feature":
        return ("ok", gr.x_feature(res))
    if entry == "steps":
        return ("ok", [gr.x_step(s) for s in res])
    if entry == "scenario":
        return ("ok", gr.x_scenario(res))
    return ("ok", gr.x_rule(res))


def _shadowing_alias(lang, alias):
    """another step alias of the language that is a proper (case-insensitive) prefix of alias"""
    tab = gr.languages()[lang]
    for k in gr.STEP_KINDS:
        for b in tab[k]:
            if b != alias and b != u"* " and alias.lower().startswith(b.lower()):
                return k, b
    return None


def compare(subcheck, entry, rendered, got, extra, lang="en", alias_mode=False):
    """-> list of (descriptor, message); only the FIRST difference in document order is reported (later ones are
    usually consequences: a step read with the wrong type changes what the following And inherits).  The clause
    names the element kind and field (e.g. 'text.line', 'step.type', 'scenario.steps.len'), not where in the
    document the element sits."""
    ename = "parse_" + entry if not entry.startswith("parse_") else entry
    if got[0] == "exc":
        d = {"subcheck": subcheck, "entry": ename, "clause": "raises", "exc": got[1]}
        d.update(extra)
        return [(d, "%s raised %s in Parser.%s: %s\n%s" % (ename, got[1], got[2], got[3], rendered["text"]))]
    diffs = gr.diff(rendered["expected"], got[1])
    if not diffs:
        return []
    path, want, have = diffs[0]
    clause = gr.path_class(path, rendered["expected"])
    where = ".".join(map(str, path))
    if alias_mode:
        step = gr.step_node_at(rendered["expected"], path)
        node = step or gr.node_at(rendered["expected"], path) or {}
        kind = node.get("_akind") or node.get("kind") or "?"
        d = {"subcheck": "alias", "clause": "mismatch", "language": lang, "keyword": kind}
        why = ""
        if step is not None and _shadowing_alias(lang, step["_alias"]):
            d["clause"] = "shadowed"
            why = " (alias %r is shadowed by the shorter alias %r of %r)" % ((step["_alias"],) + _shadowing_alias(lang, step["_alias"])[::-1])
        else:
            d["field"] = clause
        return [(d, "language %s, %s: %s expected %r, parser gives %r%s\n%s" % (lang, ename, where, want, have, why, rendered["text"]))]
    d = {"subcheck": subcheck, "entry": ename, "clause": clause}
    d.update(extra)
    return [(d, "%s: %s expected %r, parser gives %r (%d differing leaves)\n%s"
             % (ename, where, want, have, len(diffs), rendered["text"]))]


def _nontrivial(rendered):
    return digest(rendered["text"]) if any(k in ("step", "row") for k, _ in rendered["ann"]) else None


def _outkey(rendered):
    c = collections.Counter(k for k, _ in rendered["ann"])
    return tuple(sorted((k, min(n, 3)) for k, n in c.items()))


# ================================================================ (1) shapes
def check_shape(case):
    """(shape, seed[, nsteps]) -> parse_feature of the decorated document, default layout"""
    shape, seed = case[0], case[1]
    doc = gr.decorate(shape, seed=seed, nsteps=case[2] if len(case) > 2 else 2)
    r = gr.render(doc)
    got = _parse("feature", r["text"])
    v = compare("model", "feature", r, got, {})
    return {"v": v, "nt": _nontrivial(r), "out": _outkey(r), "dg": got}


# ================================================================ (2) keyword sequences
CONTEXTS = ("plain", "fbg:given", "fbg:when", "fbg:then", "rule-inherit", "rule-own", "rule-own-empty",
            "second-scenario", "as-background", "as-rule-background", "parse_steps", "parse_scenario")


def _seq_steps(seq, rot):
    args = gr.step_args()
    return [(k, gr.STEP_NAMES[i % len(gr.STEP_NAMES)], args[(rot + i * 5) % len(args)] if (rot + i) % 3 == 0 else None)
            for i, k in enumerate(seq)]


def kwseq_doc(seq, context, rot=0):
    """-> (entry, rendered) or None when the sequence is ill-formed in that context"""
    steps = _seq_steps(seq, rot)
    first_inherits = seq[0] in ("and", "but")
    scen = {"k": "scenario", "tags": [], "name": u"n1", "desc": [], "steps": steps}
    doc = {"lang": "en", "tags": [], "name": u"n1", "desc": [], "bg": None, "items": [scen]}

    def bg(kind):
        return {"name": u"", "desc": [], "steps": [(kind, u"1st step", None)] if kind else []}

    if context == "plain":
        if first_inherits:
            return None
    elif context.startswith("fbg:"):
        doc["bg"] = bg(context[4:])
    elif context == "rule-inherit":
        doc["bg"] = bg("when")
        doc["items"] = [{"k": "rule", "tags": [], "name": u"n1", "desc": [], "bg": None, "items": [scen]}]
    elif context == "rule-own":
        doc["bg"] = bg("given")
        doc["items"] = [{"k": "rule", "tags": [], "name": u"n1", "desc": [], "bg": bg("then"), "items": [scen]}]
    elif context == "rule-own-empty":
        doc["bg"] = bg("when")
        doc["items"] = [{"k": "rule", "tags": [], "name": u"n1", "desc": [], "bg": bg(None), "items": [scen]}]
    elif context == "second-scenario":
        doc["bg"] = bg("given")
        first = {"k": "scenario", "tags": [], "name": u"name with spaces", "desc": [],
                 "steps": [("when", u"1st step", None), ("then", u"2 things <x>", None)]}
        doc["items"] = [first, scen]
    elif context == "as-background":
        if first_inherits:
            return None
        doc["bg"] = {"name": u"n1", "desc": [], "steps": steps}
        doc["items"] = [{"k": "scenario", "tags": [], "name": u"", "desc": [], "steps": [("and", u"1st step", None)]}]
    elif context == "as-rule-background":
        doc["bg"] = bg("then")
        doc["items"] = [{"k": "rule", "tags": [], "name": u"n1", "desc": [],
                         "bg": {"name": u"n1", "desc": [], "steps": steps},
                         "items": [{"k": "scenario", "tags": [], "name": u"", "desc": [], "steps": [("but", u"1st step", None)]}]}]
    elif context == "parse_steps":
        if first_inherits:
            return None
        return "steps", gr.render_steps(steps)
    elif context == "parse_scenario":
        if first_inherits:
            return None
        return "scenario", gr.render_scenario(scen)
    return "feature", gr.render(doc)


def check_kwseq(case):
    seq, context, rot = case
    made = kwseq_doc(seq, context, rot)
    if made is None:
        return {"n": 0, "out": "ill-formed-skipped"}
    entry, r = made
    got = _parse(entry, r["text"])
    v = compare("model", entry, r, got, {})
    v = [(d, "[keyword sequence %s in context %s] %s" % ("/".join(seq), context, m)) for d, m in v]
    return {"v": v, "nt": digest(r["text"]), "out": ("kwseq", context, len(seq)), "dg": got}


# ================================================================ (3) layouts
TRAILS = (u" ", u"   ", u"\t", u"\xa0", u" \t ")        # str.strip() (what the parser uses) treats NBSP as blank
TRAIL_KINDS = (("tag",), ("feature",), ("rule",), ("background",), ("scenario",), ("outline",), ("examples",), ("desc",),
               ("step",), ("row",), ("doc_open",), ("doc_close",), "all")
EXTRAS = (u"", u"   ", u"# inserted comment", u"        # indented comment: Given not a step", u"#@no-tag | no row")


def _layouts(doc, thorough):
    """(name, layout) for every single deviation (thorough: pairs).  Insertion positions are all positions of the
    rendering with the same non-insert layout that are not inside a doc-string."""
    def positions(layout):
        b = gr.render(doc, layout)
        return [p for p in range(b["nbase"] + 1) if p not in b["indoc"]]

    for ind in ("0", "4", "tab"):
        yield "indent:" + ind, {"indent": ind}
    yield "tags:two-lines", {"taglines": 2}
    yield "tags:trailing-comment", {"tagcomment": True}
    yield "tags:two-lines+comment", {"taglines": 2, "tagcomment": True}
    yield "no-final-newline", {"final_newline": False}
    # physical encoding of the document: trailing blanks after every kind of line, line endings
    for kinds in TRAIL_KINDS:
        for ws in TRAILS:
            yield "trail:" + (kinds if kinds == "all" else kinds[0]), {"trail": (ws, kinds)}
    base_lines = gr.render(doc)["lines"]
    nlines = len(base_lines)
    for eol, ename in ((u"\r\n", "crlf"), (u"\r", "cr"), (u"\n", "lf")):
        for final in (True, False):
            for via in ("text", "file"):
                if not (ename == "lf" and via == "text"):
                    yield "eol:" + ename, {"eol": eol, "final_newline": final, "_via": via}
    for i in range(nlines):
        for eol, ename in ((u"\r", "stray-cr"), (u"\r\n", "stray-crlf")):
            if eol == u"\r" and i + 1 < nlines and base_lines[i + 1] == u"":
                continue        # CR + empty line + LF would read as one CRLF: not the document that was rendered
            yield "eol:" + ename, {"eol_at": {i: eol}}
            if i % 3 == 0 or thorough:
                yield "eol:" + ename, {"eol_at": {i: eol}, "_via": "file", "final_newline": bool(i % 2)}
    pos = positions(None)
    for p in pos:
        for i, x in enumerate(EXTRAS):
            yield "insert:%s" % ("blank", "ws", "comment", "comment", "comment")[i], {"insert": {p: [x]}}
    if thorough:
        for ind in ("0", "4", "tab"):
            lay = {"indent": ind, "taglines": 2}
            for p in positions(lay):
                for x in (EXTRAS[0], EXTRAS[3]):
                    yield "indent+insert", dict(lay, insert={p: [x]})
        for a in range(len(pos)):
            for b in range(a, len(pos)):
                for x, y in ((EXTRAS[0], EXTRAS[2]), (EXTRAS[3], EXTRAS[0])):
                    ins = {pos[a]: [x, y]} if a == b else {pos[a]: [x], pos[b]: [y]}
                    yield "insert-pair", {"insert": ins, "tagcomment": True}


def check_layouts(case):
    """("doc", shape, seed, thorough) -> all layouts of one document; ("one", shape, seed, name, layout) replay form"""
    shape, seed = case[1], case[2]
    doc = gr.decorate(shape, seed=seed)
    if case[0] == "one":
        todo = [(case[3], case[4])]
    else:
        todo = _layouts(doc, case[3])
    counts = collections.Counter()
    viol = {}
    obs = []
    nts = set()
    # a difference that the un-deviated rendering shows as well is not a layout problem: it is reported once, as
    # a model difference, and only layout-specific differences carry the deviation in their descriptor
    base = gr.render(doc)
    base_v = compare("model", "feature", base, _parse("feature", base["text"]), {})
    base_clauses = set(d["clause"] for d, _ in base_v)
    todo = itertools.chain([("none", None)], todo)
    for name, layout in todo:
        r = gr.render(doc, layout)
        got = _parse("feature", r["text"], via=(layout or {}).get("_via", "text"), bom=(layout or {}).get("_bom", False))
        obs.append(digest(got))
        counts[("layout", name)] += 1
        nts.add(digest(r["text"]))
        if layout is None:
            found = base_v
        else:
            via_file = (layout or {}).get("_via") == "file"
            found = [x for x in compare("layout", "parse_file" if via_file else "feature", r, got, {"deviation": name})
                     if x[0]["clause"] not in base_clauses]
            if name.startswith(("eol:", "trail:")):
                # physical encoding of the same document: where the damage shows depends on the position of the
                # deviation, the defect does not -> one descriptor per deviation kind
                for d, _ in found:
                    if d["clause"] != "raises":
                        d["clause"] = "model-differs"
        for d, msg in found:
            key = tuple(sorted(d.items()))
            if key not in viol:
                viol[key] = [d, msg, (name, layout), 0]
            viol[key][3] += 1
    res = [{"out": k, "n": n, "case": case} for k, n in sorted(counts.items())]
    res[0]["dg"] = obs
    for t in nts:
        res.append({"nt": t, "n": 0, "case": case})
    for key, (d, msg, (name, layout), cnt) in sorted(viol.items()):
        res.append({"v": [(d, msg)] * cnt, "n": 0, "case": ("one", shape, seed, name, layout)})
    return res


# ================================================================ (4) languages x aliases
def lang_doc(lang, alias, variant, header=True):
    d = _lang_doc(lang, alias, variant, header)
    if not any(u"* " in gr.languages()[lang][k] for k in gr.STEP_KINDS):
        # sl and en-tx list no '* ' alias at all: the generic step is not a keyword of these languages
        def fix(steps):
            return [("given" if k == "star" else k, n, a) for k, n, a in steps]
        if d["bg"]:
            d["bg"]["steps"] = fix(d["bg"]["steps"])
        for it in d["items"]:
            for sub in [it] + list(it.get("items", ())):
                if "steps" in sub:
                    sub["steps"] = fix(sub["steps"])
                if sub.get("bg"):
                    sub["bg"]["steps"] = fix(sub["bg"]["steps"])
    return d


def _lang_doc(lang, alias, variant, header=True):
    S = gr.STEP_NAMES
    tbl = ("table", [u"h1", u"h2"], [[u"a", u""], [u"x\\|y", u"\xfc"]])
    txt = ("text", u'"""', [u"first", u"  indented more", u"", u"last"])
    if variant == 0:
        scen = {"k": "scenario", "tags": [u"s1"], "name": u"Sname", "desc": [],
                "steps": [("given", S[0], None), ("when", S[1], None), ("then", S[2], None), ("and", S[0], None), ("but", S[1], None)]}
        outl = {"k": "outline", "tags": [], "name": u"Oname <x>", "desc": [], "steps": [("given", S[1], None)],
                "examples": [{"tags": [], "name": u"Ename", "table": ([u"x"], [[u"1"]])}]}
        return {"lang": lang, "header": header, "alias": alias, "tags": [u"ft"], "name": u"Fname",
                "desc": [gr.DESCS[1][0]], "bg": {"name": u"Bname", "desc": [], "steps": [("given", S[0], None)]},
                "items": [scen, {"k": "rule", "tags": [], "name": u"Rname", "desc": [], "bg": None, "items": [outl]}]}
    if variant == 1:
        # every step kind directly followed by an argument; And/But first (type supplied by the background)
        bgsteps = [("when", S[2], tbl), ("and", S[1], None)]
        scen = {"k": "scenario", "tags": [], "name": u"", "desc": list(gr.DESCS[2]),
                "steps": [("but", S[0], txt), ("then", S[1], tbl), ("star", S[2], None), ("given", S[0], None), ("and", S[3], txt)]}
        outl = {"k": "outline", "tags": [u"o1", u"o2"], "name": u"Oname", "desc": [],
                "steps": [("and", S[1], None), ("when", S[1], None), ("but", S[0], None)],
                "examples": [{"tags": [u"e1"], "name": u"", "table": ([u"x", u"y"], [])},
                             {"tags": [], "name": u"Ename", "table": ([u"x"], [[u"1"], [u""]])}]}
        return {"lang": lang, "header": header, "alias": alias, "tags": [], "name": u"Fname", "desc": [],
                "bg": {"name": u"", "desc": [], "steps": bgsteps}, "items": [outl, scen]}
    # variant 2: rules with own backgrounds, scenario keyword several times
    r1 = {"k": "rule", "tags": [u"r1"], "name": u"R1", "desc": [gr.DESCS[1][0]],
          "bg": {"name": u"RB", "desc": [], "steps": [("then", S[0], None), ("but", S[1], None)]},
          "items": [{"k": "scenario", "tags": [], "name": u"S1", "desc": [], "steps": [("and", S[0], None), ("given", S[1], None)]},
                    {"k": "scenario", "tags": [u"s2"], "name": u"S2", "desc": [], "steps": [("when", S[2], None), ("then", S[3], None)]}]}
    r2 = {"k": "rule", "tags": [], "name": u"", "desc": [], "bg": None,
          "items": [{"k": "outline", "tags": [], "name": u"O", "desc": [], "steps": [("but", S[0], None), ("when", S[1], tbl)],
                     "examples": [{"tags": [], "name": u"E", "table": ([u"x"], [[u"1"]])}]}]}
    return {"lang": lang, "header": header, "alias": alias, "tags": [u"ft"], "name": u"", "desc": [],
            "bg": {"name": u"FB", "desc": [], "steps": [("given", S[0], None)]},
            "items": [{"k": "scenario", "tags": [], "name": u"S0", "desc": [], "steps": [("and", S[2], None)]}, r1, r2]}


def _ambiguous_block_alias(lang, kind, alias):
    tab = gr.languages()[lang]
    return [k for k in gr.BLOCK_KINDS if k != kind and alias in tab[k]]


def check_alias(case):
    """(lang, kind, alias, variant, via)   via: header / file / argument"""
    lang, kind, alias, variant, via = case
    if kind in gr.BLOCK_KINDS and _ambiguous_block_alias(lang, kind, alias):
        return {"n": 0, "out": "ambiguous-alias-skipped"}
    doc = lang_doc(lang, {kind: alias} if kind else {}, variant, header=(via != "argument"))
    r = gr.render(doc)
    if via == "file":
        got = _parse("feature", r["text"], via="file")
    elif via == "argument":
        got = _parse("feature", r["text"], language=lang)
    else:
        got = _parse("feature", r["text"])
    v = compare("alias", "feature", r, got, {"language": lang, "keyword": str(kind), "via": via}, lang=lang, alias_mode=got[0] == "ok")
    if v:
        # language-specific only if the same document written with the English default keywords is read correctly;
        # otherwise it is a general model difference and the descriptor must not name the language
        ren = gr.render(lang_doc("en", {}, variant, header=(via != "argument")))
        ven = compare("model", "feature", ren, _parse("feature", ren["text"]), {})
        if ven:
            v = compare("model", "feature", r, got, {})
        elif kind:
            for d, _ in v:
                if d.get("clause") == "mismatch":
                    d["keyword"] = kind         # the alias under test, not the element where the damage shows
    return {"v": v, "nt": (lang, kind, alias), "out": ("alias", kind, via, variant), "dg": got}


def alias_cases(thorough):
    L = gr.languages()
    variants = (0, 1, 2) if thorough else (0,)
    for lang in sorted(L):
        for variant in variants:
            yield (lang, None, None, variant, "argument")
            yield (lang, None, None, variant, "file")
            for kind in gr.BLOCK_KINDS + gr.STEP_KINDS:
                for alias in L[lang][kind]:
                    if alias == u"* ":
                        continue
                    yield (lang, kind, alias, variant, "header")
                    if variant == 0:
                        yield (lang, kind, alias, variant, "file")


# ================================================================ (5) other entry points
def _place(layout, base):
    """layout["insert_rank"] = {rank: lines}: rank-th position that is not inside a doc-string"""
    if not layout or "insert_rank" not in layout:
        return layout
    pos = [p for p in range(base["nbase"] + 1) if p not in base["indoc"]]
    out = dict((k, v) for k, v in layout.items() if k != "insert_rank")
    out["insert"] = dict((pos[r % len(pos)], v) for r, v in layout["insert_rank"].items())
    return out


FILLERS = (u"", u"   ", u"# comment-only line", u"      # indented comment @notatag")
FILLER_SETS = tuple((f,) for f in FILLERS) + ((u"", u"# comment-only line"), (u"# c1", u"#c2"), (u"   ", u""),
                                               (u"    # c @x", u""))


def _tag_doc(entry):
    """small documents in which every taggable element carries 2-3 tags"""
    st = [("given", gr.STEP_NAMES[0], None), ("then", gr.STEP_NAMES[1], None)]
    scen = {"k": "scenario", "tags": [u"s1", u"s2", u"s3"], "name": u"S", "desc": [], "steps": st}
    outl = {"k": "outline", "tags": [u"o1", u"o2"], "name": u"O <x>", "desc": [], "steps": st,
            "examples": [{"tags": [u"e1", u"e2", u"e3"], "name": u"E", "table": ([u"x"], [[u"1"]])},
                         {"tags": [u"e4", u"e5"], "name": u"", "table": ([u"x"], [[u"2"]])}]}
    rule = {"k": "rule", "tags": [u"r1", u"r2"], "name": u"R", "desc": [gr.DESCS[1][0]],
            "bg": {"name": u"", "desc": [], "steps": st[:1]}, "items": [scen, outl]}
    if entry == "scenario":
        return scen
    if entry == "rule":
        return rule
    return {"lang": "en", "tags": [u"f1", u"f2", u"f3"], "name": u"F", "desc": [], "bg": None,
            "items": [dict(scen, tags=[u"a1", u"a2"]), rule]}


def _tag_doc_nbase(entry):
    doc = _tag_doc(entry)
    r = gr.render(doc) if entry == "feature" else gr.render_scenario(doc) if entry == "scenario" else gr.render_rule(doc)
    return r["nbase"]


def check_entry(case):
    kind = case[0]
    if kind == "steps":
        _, seq, rot, layout = case
        r = gr.render_steps(_seq_steps(seq, rot), layout=_place(layout, gr.render_steps(_seq_steps(seq, rot))))
        got = _parse("steps", r["text"])
        v = compare("model", "steps", r, got, {})
        return {"v": v, "nt": digest(r["text"]), "out": ("steps", len(seq)), "dg": got}
    if kind in ("scenario", "rule"):
        _, shape_item, seed, layout = case
        doc = gr.decorate((False, (), ((shape_item[0], shape_item[1]),)) if kind == "rule" else (False, shape_item, ()), seed=seed)
        item = doc["items"][0]
        base = gr.render_rule(item) if kind == "rule" else gr.render_scenario(item)
        layout = _place(layout, base)
        r = gr.render_rule(item, layout=layout) if kind == "rule" else gr.render_scenario(item, layout=layout)
        got = _parse(kind, r["text"])
        v = compare("model", kind, r, got, {})
        return {"v": v, "nt": digest(r["text"]), "out": (kind,), "dg": got}
    if kind == "tags":
        _, taglines, comments, indent, fillers = case
        text, want = gr.render_tags(taglines, comments, dict(fillers), indent)
        names = [t["name"] for t in want]
        v = []
        try:
            res = bp.parse_tags(text)
            got = [{"kind": "tag", "name": u"%s" % t, "line": getattr(t, "line", None)} for t in res]
        except Exception as e:
            got = ("exc", type(e).__name__)
            v.append(({"subcheck": "model", "entry": "parse_tags", "clause": "raises", "exc": type(e).__name__},
                      "parse_tags(%r) raised %r" % (text, e)))
        else:
            gnames = [t["name"] for t in got]
            if gnames != names:
                clause = "mismatch"
                if comments and gnames == names[:len(gnames)]:
                    clause = "dropped-after-comment"
                v.append(({"subcheck": "tags", "entry": "parse_tags", "clause": clause},
                          "parse_tags(%r) = %r, written tags are %r" % (text, gnames, names)))
            elif got != want:
                bad = [(w["name"], w["line"], g["line"]) for w, g in zip(want, got) if w != g][0]
                v.append(({"subcheck": "model", "entry": "parse_tags", "clause": "tag.line"},
                          "parse_tags(%r): tag %r is written on line %r, Tag.line is %r" % ((text,) + bad)))
        return {"v": v, "nt": text, "out": ("tags", len(taglines), bool(comments), len(fillers)), "dg": got}
    if kind == "taglayout":
        _, entry, fillers, taglines, tagcomment = case
        doc = _tag_doc(entry)
        layout = {"insert": dict(fillers), "taglines": taglines, "tagcomment": tagcomment}
        if entry == "feature":
            r = gr.render(doc, layout)
        elif entry == "scenario":
            r = gr.render_scenario(doc, layout=layout)
        else:
            r = gr.render_rule(doc, layout=layout)
        got = _parse(entry, r["text"])
        v = compare("model", entry, r, got, {})
        return {"v": v, "nt": digest(r["text"]), "out": ("taglayout", entry, taglines, tagcomment), "dg": got}
    raise ValueError(case)


def entry_cases(thorough):
    seqs = list(gr.keyword_sequences(3))
    layouts = [None, {"indent": "0"}, {"indent": "tab"}, {"insert_rank": {0: [u""], 1: [u"# c"]}}, {"insert_rank": {1: [u"   "], 2: [u"   # c"]}}]
    for i, seq in enumerate(seqs):
        if seq[0] in ("and", "but"):
            continue
        for j, lay in enumerate(layouts):
            yield ("steps", seq, i + j, lay)
    for kind in ("S",):
        for seed in range(24 if not thorough else 96):
            yield ("scenario", (kind,), seed, layouts[seed % len(layouts)] if seed % 2 else None)
    for rbg in (False, True):
        for items in ((), ("S",), ("S", "O1"), ("O2", "S")):
            for seed in range(3):
                yield ("rule", (rbg, items), seed, None)
    # parse_tags: tags on 1-3 lines, trailing comments on every subset of lines, indentation, and blank /
    # comment-only lines (1-2 at a time) at EVERY position before, between and after the tag lines (thorough: at
    # every pair of positions)
    tagsets = [[[u"a"]], [[u"a", u"b"]], [[u"a"], [u"b"]], [[u"a", u"b"], [u"c"]], [[u"a"], [u"b"], [u"c", u"d"]]]
    for ts in tagsets:
        n = len(ts)
        for mask in range(1 << n):
            comments = tuple(i for i in range(n) if mask >> i & 1)
            yield ("tags", ts, comments, u"", ())
            for pos in range(n + 1):
                for fs in FILLER_SETS:
                    if mask in (0, (1 << n) - 1) or fs in FILLER_SETS[:4]:
                        yield ("tags", ts, comments, u"", ((pos, fs),))
            if thorough:
                for a in range(n + 1):
                    for b in range(a + 1, n + 1):
                        for fa, fb in ((FILLER_SETS[0], FILLER_SETS[2]), (FILLER_SETS[3], FILLER_SETS[4])):
                            yield ("tags", ts, comments, u"", ((a, fa), (b, fb)))
        yield ("tags", ts, (), u"  ", ())
        yield ("tags", ts, (), u"\t", ((0, FILLER_SETS[4]), (n, FILLER_SETS[2])))
    # the same layouts for the tag lines inside feature / scenario / rule documents
    for entry in ("feature", "scenario", "rule"):
        nb = _tag_doc_nbase(entry)
        for taglines in (1, 2):
            for tagcomment in (False, True):
                for pos in range(nb + 1):
                    for fs in (FILLER_SETS if (taglines == 2 or thorough) else FILLER_SETS[:4]):
                        yield ("taglayout", entry, ((pos, fs),), taglines, tagcomment)


# ================================================================ (5b) doc-string delimiter layouts
DQ, SQ = u'"' * 3, u"'" * 3
DOC_CLOSE = (0, 1, 2, -1, -2, "col0")
DOC_FOLLOW = ("last", "step", "step+table", "scenario")
DOC_CONTEXTS = ("scenario", "background", "rule-background", "rule-scenario", "outline", "parse_steps", "parse_scenario")
DOC_TEXTS = ((u"plain line",), (u"first", u"  indented more", u"", u"    much more", u"last"), (),
             (u"", u"", u"after two blank lines", u""), (u"OTHERQUOTE", u"  OTHERQUOTE indented", u"| row | like |"),
             (u"{name} {} %s", u"@tag # comment"))


def docclose_doc(context, quote, close, text_idx, follow, trail=None):
    """-> (entry, abstract document or rendered text) | None: a doc-string whose closing delimiter stands at column
    `close` relative to the opening one, as argument of the last step / followed by a step / by a step with a
    table / by the next scenario"""
    other = SQ if quote == DQ else DQ
    content = [l.replace(u"OTHERQUOTE", other) for l in DOC_TEXTS[text_idx]]
    S = gr.STEP_NAMES
    steps = [("given", S[0], None), ("when", S[1], ("text", quote, content, close))]
    if follow == "step":
        steps.append(("then", S[2], None))
    elif follow == "step+table":
        steps.append(("and", S[2], ("table", [u"h1", u"h2"], [[u"a", u""]])))
    nxt = []
    if follow == "scenario":
        nxt = [{"k": "scenario", "tags": [u"t1"], "name": u"next", "desc": [], "steps": [("given", S[0], None)]}]
    scen = {"k": "scenario", "tags": [], "name": u"n1", "desc": [], "steps": steps}
    lay = {"trail": (trail, ("doc_open", "doc_close", "step", "row"))} if trail else None
    if context == "parse_steps":
        return ("steps", gr.render_steps(steps, layout=lay)) if follow != "scenario" else None
    if context == "parse_scenario":
        return ("scenario", gr.render_scenario(scen, layout=lay)) if follow != "scenario" else None
    doc = {"lang": "en", "tags": [], "name": u"n1", "desc": [], "bg": None, "items": [scen] + nxt}
    plain = {"k": "scenario", "tags": [], "name": u"n1", "desc": [], "steps": [("then", S[0], None)]}
    if context == "background":
        doc["bg"] = {"name": u"", "desc": [], "steps": steps}
        doc["items"] = [plain] + nxt
    elif context == "rule-background":
        doc["items"] = [{"k": "rule", "tags": [], "name": u"R", "desc": [],
                         "bg": {"name": u"", "desc": [], "steps": steps}, "items": [plain] + nxt}]
    elif context == "rule-scenario":
        doc["items"] = [{"k": "rule", "tags": [], "name": u"R", "desc": [], "bg": None, "items": [scen] + nxt}]
    elif context == "outline":
        doc["items"] = [{"k": "outline", "tags": [], "name": u"O", "desc": [], "steps": steps,
                         "examples": [{"tags": [], "name": u"", "table": ([u"x"], [[u"1"]])}]}] + nxt
    return "feature", doc


def check_docclose(case):
    context, quote, close, text_idx, follow, indent, trail = case
    made = docclose_doc(context, quote, close, text_idx, follow, trail)
    if made is None or (made[0] != "feature" and indent != "2"):
        return {"n": 0, "out": "not-applicable"}
    entry, r = made
    if entry == "feature":
        layout = {"indent": indent}
        if trail:
            layout["trail"] = (trail, ("doc_open", "doc_close", "step", "row"))
        r = gr.render(r, layout)
    got = _parse(entry, r["text"])
    v = compare("model", entry, r, got, {})
    v = [(d, "[doc-string closing delimiter at %r, %s, followed by %s] %s" % (close, context, follow, m)) for d, m in v]
    return {"v": v, "nt": digest(r["text"]), "out": ("docclose", context, close, follow), "dg": got}


def docclose_cases(thorough):
    for context in DOC_CONTEXTS:
        for follow in DOC_FOLLOW:
            for quote in (DQ, SQ):
                for close in DOC_CLOSE:
                    for ti in range(len(DOC_TEXTS)):
                        for indent in (("2", "0", "4", "tab") if (thorough or ti < 2) else ("2",)):
                            yield (context, quote, close, ti, follow, indent, None)
                        # trailing blanks after the delimiters (and the step / row lines around them)
                        for trail in (TRAILS if (thorough or close in (0, 1)) else TRAILS[:1]):
                            yield (context, quote, close, ti, follow, "2", trail)


# ================================================================ (5c) doc-string AND table on one step
BOTH_ORDER = ("text", "table")
BOTH_SHIFT = (0, 2, -2, -100)          # doc-string indented like / deeper than / shallower than the table / at column 0
BOTH_TEXTS = ((u"plain line",), (u"first", u"  indented more", u"", u"last"), (), (u"{name} {} %s", u"| row | like |"))
BOTH_TABLES = (([u"h1"], [[u"c1"]]), ([u"h1", u"h2"], [[u"a", u""], [u"x\\|y", u"\xfc"]]), ([u"only", u"headings"], []))
BOTH_CONTEXTS = ("scenario", "background", "rule-background", "outline", "parse_steps", "parse_scenario")


def both_doc(context, order, shift, quote, ti, tab, close, follow):
    S = gr.STEP_NAMES
    h, rows = BOTH_TABLES[tab]
    arg = ("both", order, ("text", quote, list(BOTH_TEXTS[ti]), close, shift), ("table", list(h), [list(r) for r in rows]))
    steps = [("given", S[0], None), ("when", S[1] if context != "outline" else S[1], arg)]
    if follow:
        steps.append(("then", S[2], None))
    scen = {"k": "scenario", "tags": [], "name": u"n1", "desc": [], "steps": steps}
    if context == "parse_steps":
        return "steps", gr.render_steps(steps)
    if context == "parse_scenario":
        return "scenario", gr.render_scenario(scen)
    doc = {"lang": "en", "tags": [], "name": u"n1", "desc": [], "bg": None, "items": [scen]}
    plain = {"k": "scenario", "tags": [u"t1"], "name": u"n1", "desc": [], "steps": [("then", S[0], None)]}
    if context == "background":
        doc["bg"] = {"name": u"", "desc": [], "steps": steps}
        doc["items"] = [plain]
    elif context == "rule-background":
        doc["items"] = [{"k": "rule", "tags": [], "name": u"R", "desc": [],
                         "bg": {"name": u"", "desc": [], "steps": steps}, "items": [plain]}]
    elif context == "outline":
        doc["items"] = [{"k": "outline", "tags": [], "name": u"O <x>", "desc": [], "steps": steps,
                         "examples": [{"tags": [], "name": u"", "table": ([u"x"], [[u"1"]])}]}, plain]
    return "feature", doc


def check_both(case):
    context, order, shift, quote, ti, tab, close, follow, indent = case
    entry, r = both_doc(context, order, shift, quote, ti, tab, close, follow)
    if entry == "feature":
        r = gr.render(r, {"indent": indent})
    elif indent != "2":
        return {"n": 0, "out": "not-applicable"}
    got = _parse(entry, r["text"])
    v = compare("model", entry, r, got, {})
    v = [(d, "[step with doc-string and table, %s first, doc-string shifted by %r, %s] %s" % (order, shift, context, m))
         for d, m in v]
    return {"v": v, "nt": digest(r["text"]), "out": ("both", context, order, shift), "dg": got}


def both_cases(thorough):
    for context in BOTH_CONTEXTS:
        for order in BOTH_ORDER:
            for shift in BOTH_SHIFT:
                for quote in (DQ, SQ):
                    for ti in range(len(BOTH_TEXTS)):
                        for tab in range(len(BOTH_TABLES)):
                            for close in ((0, 1, "col0") if thorough else (0, "col0")):
                                for follow in (False, True):
                                    for indent in (("2", "0", "4", "tab") if thorough else ("2", "tab")):
                                        yield (context, order, shift, quote, ti, tab, close, follow, indent)


# ================================================================ (5d) steps ending with ':' / outlines without steps
# with and without the documented switch BEHAVE_STRIP_STEPS_WITH_TRAILING_COLON=yes (read when behave.parser is
# imported): ON = a private copy of behave/parser.py executed with the variable set.  Documented effect: a step whose
# text ends with ':' and that carries a doc-string or table loses that colon; nothing else changes.
COLON_NAMES = (u"1st step:", u"2 things <x>:", u"3rd step, no colon", u"4: colon inside only")
COLON_ARGS = ("none", "dq", "sq", "table", "text+table", "table+text")
COLON_CONTEXTS = ("scenario", "background", "rule-scenario", "outline", "parse_steps", "parse_scenario",
                  "outline-without-steps", "rule-outline-without-steps")
_ON_MOD = []


def _switch_on_module():
    if not _ON_MOD:
        _ON_MOD.append(ps.fresh_parser_module(ps.STRIP_COLON_ENV))
    return _ON_MOD[0]


def _colon_arg(kind):
    t = ("table", [u"h1", u"h2"], [[u"a", u""]])
    if kind == "none":
        return None
    if kind in ("dq", "sq"):
        return ("text", DQ if kind == "dq" else SQ, [u"first", u"  indented more:", u"last:"])
    if kind == "table":
        return t
    return ("both", "text" if kind == "text+table" else "table", ("text", DQ, [u"plain line:"]), t)


def check_colon(case):
    mode, context, ni, argkind, follow = case
    on = mode == "on"
    S = gr.STEP_NAMES
    steps = [("given", S[0], None), ("when", COLON_NAMES[ni], _colon_arg(argkind))]
    if follow:
        steps.append(("then", COLON_NAMES[(ni + 1) % len(COLON_NAMES)], _colon_arg("table") if follow == 2 else None))
    layout = {"strip_colon": on}
    scen = {"k": "scenario", "tags": [], "name": u"name:", "desc": [u"(a) description:"], "steps": steps}
    ex = [{"tags": [u"e1"], "name": u"E:", "table": ([u"x"], [[u"1"]])}, {"tags": [], "name": u"", "table": ([u"x", u"y"], [])}]
    plain = {"k": "scenario", "tags": [], "name": u"n1", "desc": [], "steps": [("then", S[0], None)]}
    doc = {"lang": "en", "tags": [], "name": u"F:", "desc": [], "bg": None, "items": [scen]}
    if context == "parse_steps":
        entry, r = "steps", gr.render_steps(steps, layout=layout)
    elif context == "parse_scenario":
        entry, r = "scenario", gr.render_scenario(scen, layout=layout)
    else:
        entry = "feature"
        if context == "background":
            doc["bg"] = {"name": u"", "desc": [], "steps": steps}
            doc["items"] = [plain]
        elif context == "rule-scenario":
            doc["items"] = [{"k": "rule", "tags": [], "name": u"R:", "desc": [], "bg": None, "items": [scen, plain]}]
        elif context == "outline":
            doc["items"] = [{"k": "outline", "tags": [], "name": u"O <x>:", "desc": [], "steps": steps, "examples": ex}, plain]
        elif context == "outline-without-steps":
            doc["items"] = [{"k": "outline", "tags": [u"o1"], "name": u"O", "desc": [], "steps": [], "examples": ex[:1 + ni % 2]},
                            scen]
        elif context == "rule-outline-without-steps":
            doc["items"] = [{"k": "rule", "tags": [], "name": u"R", "desc": [], "bg": None,
                             "items": [{"k": "outline", "tags": [], "name": u"O", "desc": [], "steps": [], "examples": ex[ni % 2:]}]}]
        r = gr.render(doc, layout)
    got = _parse(entry, r["text"], mod=_switch_on_module() if on else None)
    extra = {"switch": "strip-colon"} if on else {}
    v = compare("model", entry, r, got, extra)
    if on:
        v = [(d, "[behave.parser executed with BEHAVE_STRIP_STEPS_WITH_TRAILING_COLON=yes] " + m) for d, m in v]
    return {"v": v, "nt": (mode, digest(r["text"])), "out": ("colon", mode, context, argkind), "dg": got}


def check_shape_on(case):
    """the shape sweep with the switch ON (no step name ends with ':' there: the model must be the same)"""
    shape, seed = case
    r = gr.render(gr.decorate(shape, seed=seed), {"strip_colon": True})
    got = _parse("feature", r["text"], mod=_switch_on_module())
    v = compare("model", "feature", r, got, {"switch": "strip-colon"})
    return {"v": v, "nt": ("on", digest(r["text"])), "out": ("shape-on",) + _outkey(r), "dg": got}


def colon_cases():
    for mode in ("off", "on"):
        for context in COLON_CONTEXTS:
            for ni in range(len(COLON_NAMES)):
                for argkind in COLON_ARGS:
                    for follow in (0, 1, 2):
                        yield (mode, context, ni, argkind, follow)


# ================================================================ (6) ModelDescriptor round trip
def check_roundtrip(case):
    kind, idx, indentation = case
    v = []
    if kind == "table":
        h, rows = (gr.TABLES + tuple(t for t in gr.EX_TABLES if t))[idx]
        steps = [("given", u"1st step", ("table", list(h), [list(r) for r in rows]))]
    else:
        steps = [("given", u"1st step", gr.step_args()[idx])]
    r = gr.render_steps(steps)
    try:
        step = bp.parse_steps(r["text"])[0]
        if kind == "table":
            described = ModelDescriptor.describe_table(step.table, indentation)
        else:
            described = ModelDescriptor.describe_docstring(step.text, indentation)
        again = bp.parse_steps(u"Given 1st step\n" + described)[0]
        if kind == "table":
            a = (list(step.table.headings), [list(x.cells) for x in step.table.rows])
            b = None if again.table is None else (list(again.table.headings), [list(x.cells) for x in again.table.rows])
        else:
            a, b = u"%s" % step.text, None if again.text is None else u"%s" % again.text
        if a != b:
            v.append(({"subcheck": "describe-roundtrip", "clause": "changed", "what": kind},
                      "describe_%s output %r re-parses to %r, original %r" % (kind, described, b, a)))
        dg = (described, b)
    except Exception as e:
        v.append(({"subcheck": "describe-roundtrip", "clause": "raises", "what": kind, "exc": type(e).__name__},
                  "round trip of %r raised %r" % (steps, e)))
        dg = "exc"
    return {"v": v, "nt": (kind, idx), "out": ("roundtrip", kind), "dg": dg}


def roundtrip_cases():
    ntab = len(gr.TABLES) + len([t for t in gr.EX_TABLES if t])
    for ind in (None, u"  ", u"      "):
        for i in range(ntab):
            yield ("table", i, ind)
        for i, a in enumerate(gr.step_args()):
            if a is not None and a[0] == "text":
                yield ("text", i, ind)


# ================================================================ (7) E2: attachment of accepted lines
E2_NAMES = ("feature", "rule", "background", "scenario", "outline", "examples", "given", "when", "then", "and", "but",
            "star", "tags", "row1", "row2", "dq", "sq", "text", "comment", "blank")
E2_KINDS = tuple(ps.KIND_NAMES.index(n) for n in E2_NAMES)
_HDR = {"feature": (u"Feature", u"F"), "rule": (u"Rule", u"R"), "background": (u"Background", u"B"),
        "scenario": (u"Scenario", u"S"), "outline": (u"Scenario Outline", u"O"), "examples": (u"Examples", u"E")}
_STEP = {"given": (u"Given", u"g"), "when": (u"When", u"w"), "then": (u"Then", u"t"), "and": (u"And", u"a"),
         "but": (u"But", u"b"), "star": (u"*", u"s")}
INVALID, UNSPEC = "invalid", "unspecified"


def attach(entry, hist):
    """Reference grammar: where does every line of a well-formed history belong?  -> expected model |
    INVALID (not well-formed by the reference grammar) | UNSPEC (statement silent).  Written from the Gherkin
    grammar in docs/gherkin.rst, not from the parser: Feature(tags) description* Background? (tags Scenario |
    tags Outline steps Examples+)* (tags Rule description* Background? ...)*; a step takes one argument."""
    feat = None
    cont = None          # dict holding "bg"/"items"
    stmt = None
    zone = "initial"
    tags = []
    doc = None
    table = None
    steps_root = None
    if entry == "steps":
        stmt = {"kind": "scenario", "steps": []}
        steps_root = stmt["steps"]
        zone = "steps"
    bg_types = {}       # id(container) -> type supplied by its effective background

    def supplied():
        if cont is None:
            return None
        own = cont["bg"]["steps"] if cont.get("bg") else []
        if own:
            return own[-1]["type"]
        if cont["kind"] == "rule" and feat.get("bg") and feat["bg"]["steps"]:
            return feat["bg"]["steps"][-1]["type"]
        return None

    for n, k in enumerate(hist, 1):
        name = ps.KIND_NAMES[k]
        raw = ps.KINDS[k]
        if doc is not None:
            if name == doc["q"]:
                last = stmt["steps"][-1]
                last["text"] = {"kind": "text", "value": u"\n".join(doc["lines"]), "line": doc["line"], "ctype": u"text/plain"}
                doc = None
                zone = "steps"
                continue
            if raw.strip() and len(raw) - len(raw.lstrip()) < 4:
                return INVALID
            doc["lines"].append(raw[4:].rstrip())
            continue
        if name in ("blank", "comment"):
            continue
        if name == "tags":
            if entry == "steps" or zone == "initial" and feat is not None:
                return INVALID
            if zone == "table" and table[0] == "examples" or zone == "ex_hdr":
                pass
            tags.extend({"kind": "tag", "name": t, "line": n} for t in (u"t1", u"t2"))
            zone = "tags" if feat is not None else "initial"
            continue
        if zone == "tags" and name not in ("rule", "scenario", "outline", "examples"):
            return INVALID
        if name in _HDR:
            kw, nm = _HDR[name]
            if entry == "steps":
                return INVALID
            el = {"kind": name, "keyword": kw, "name": nm, "line": n}
            if name == "feature":
                if feat is not None:
                    return UNSPEC if zone == "desc" else INVALID
                el.update(tags=tags, language="en", desc=[], bg=None, items=[])
                tags = []
                feat = cont = stmt = el
                zone = "desc"
                continue
            if feat is None:
                return INVALID
            if name == "rule":
                el.update(tags=tags, desc=[], bg=None, items=[])
                tags = []
                feat["items"].append(el)
                cont = stmt = el
                zone = "desc"
            elif name == "background":
                if not (zone == "desc" and stmt is cont):
                    return UNSPEC if zone == "desc" else INVALID
                if cont["bg"] is not None:
                    return UNSPEC
                el.update(desc=[], steps=[])
                cont["bg"] = stmt = el
                zone = "desc"
            elif name in ("scenario", "outline"):
                if cont is feat and any(i["kind"] == "rule" for i in feat["items"]):
                    return INVALID
                el.update(tags=tags, desc=[], steps=[])
                if name == "outline":
                    el["examples"] = []
                tags = []
                cont["items"].append(el)
                stmt = el
                zone = "desc"
            else:   # examples
                if stmt is None or stmt["kind"] != "outline":
                    return INVALID
                el.update(tags=tags, table=None)
                tags = []
                stmt["examples"].append(el)
                zone = "ex_hdr"
            continue
        if name in _STEP:
            if stmt is None or stmt["kind"] not in ("background", "scenario", "outline"):
                return UNSPEC if zone == "desc" else INVALID
            if zone in ("ex_hdr",) or (zone == "table" and table[0] == "examples"):
                return UNSPEC
            if stmt["kind"] == "outline" and stmt["examples"]:
                return UNSPEC
            prev = stmt["steps"][-1]["type"] if stmt["steps"] else None
            sup = None
            if not prev and entry != "steps":
                if stmt["kind"] == "background":
                    sup = feat["bg"]["steps"][-1]["type"] if (cont["kind"] == "rule" and feat["bg"] and feat["bg"]["steps"]) else None
                else:
                    sup = supplied()
            if name in ("given", "when", "then"):
                typ = name
            elif name == "star":
                typ = prev or gr.AnyOf(sorted({"given"} | ({sup} if isinstance(sup, str) else set())))
            else:
                typ = prev or sup
                if typ is None:
                    return INVALID
            if isinstance(typ, gr.AnyOf) and len(typ.options) == 1:
                typ = typ.options[0]
            if isinstance(prev, gr.AnyOf) or isinstance(sup, gr.AnyOf) and not prev and name != "star":
                return UNSPEC
            kw, nm = _STEP[name]
            stmt["steps"].append({"kind": "step", "keyword": kw, "type": typ, "name": nm, "line": n, "text": None, "table": None})
            zone = "steps"
            continue
        if name in ("row1", "row2"):
            cells = [u"a"] if name == "row1" else [u"a", u"b"]
            if zone == "table":
                if len(table[1]["headings"]) != len(cells):
                    return INVALID
                table[1]["rows"].append({"kind": "row", "cells": cells, "line": n})
            elif zone == "steps":
                if not stmt["steps"]:
                    return INVALID
                last = stmt["steps"][-1]
                if last["table"] is not None:
                    return UNSPEC           # a second table on the same step
                last["table"] = {"kind": "table", "headings": cells, "line": n, "rows": []}
                table = ("step", last["table"])
                zone = "table"
            elif zone == "ex_hdr":
                ex = stmt["examples"][-1]
                ex["table"] = {"kind": "table", "headings": cells, "line": n, "rows": []}
                table = ("examples", ex["table"])
                zone = "table"
            else:
                return UNSPEC if zone == "desc" else INVALID
            continue
        if name in ("dq", "sq"):
            if zone == "steps" and stmt["steps"]:
                last = stmt["steps"][-1]
                if last["text"] is not None:
                    return UNSPEC           # a second doc-string on the same step
                doc = {"q": name, "line": n, "lines": []}
            elif zone == "table" and table[0] == "step":
                if stmt["steps"][-1]["text"] is not None:
                    return UNSPEC
                doc = {"q": name, "line": n, "lines": []}      # doc-string after the step's table: same step
            else:
                return UNSPEC if zone == "desc" else INVALID
            continue
        if name == "text":
            if zone == "desc" and stmt is not None:
                stmt["desc"].append(raw.strip())
                continue
            return INVALID
        return UNSPEC
    if doc is not None or tags and feat is not None and zone == "tags":
        return INVALID if doc is not None else UNSPEC
    if entry == "steps":
        return steps_root
    return feat


def _attach_check(entry, h, res_model, out):
    """-> (verdict, violations)"""
    want = attach(entry, h)
    if want in (INVALID, UNSPEC):
        return want, []
    if out[0] != "ok":
        # well-formed by the reference grammar but rejected: a faithful parser must accept it
        d = {"subcheck": "attachment", "entry": "parse_" + entry, "clause": "well-formed-rejected",
             "line_kind": ps.KIND_NAMES[h[-1]] if h else "-"}
        return "rejected", [(d, "history [%s] is well-formed but the parser gives %r\n%s" % (ps.names_of(h), out, ps.text_of(h)))]
    if entry == "feature":
        got = None if res_model is None else gr.x_feature(res_model)
    else:
        got = [gr.x_step(s) for s in res_model]
    if want is None:
        return "compared", ([] if got is None else
                            [({"subcheck": "attachment", "entry": "parse_" + entry, "clause": "feature-from-nothing"}, ps.text_of(h))])
    diffs = gr.diff(want, got) if got is not None else [((), "feature", None)]
    if not diffs:
        return "compared", []
    path, w, g = diffs[0]
    node = gr.node_at(want, path) if not isinstance(want, list) else gr.node_at({"steps": want}, ("steps",) + tuple(path))
    line = (node or {}).get("line")
    kind = ps.KIND_NAMES[h[line - 1]] if isinstance(line, int) and 1 <= line <= len(h) else ps.KIND_NAMES[h[-1]]
    tree = want if not isinstance(want, list) else {"kind": "steps", "steps": want}
    tpath = path if not isinstance(want, list) else ("steps",) + tuple(path)
    d = {"subcheck": "attachment", "entry": "parse_" + entry, "clause": gr.path_class(tpath, tree), "line_kind": kind}
    return "compared", [(d, "history [%s]: %s expected %r, parser gives %r\n%s"
                         % (ps.names_of(h), ".".join(map(str, path)), w, g, ps.text_of(h)))]


def e2_expand(case):
    """(entry, history[, "one"]): all one-line extensions over the C04 line alphabet"""
    entry, hist = case[0], case[1]
    if len(case) == 3:
        out, dead, s, calls, res = ps.run_history(entry, hist)
        return {"v": _attach_check(entry, hist, res, out)[1], "dg": (out, s)}
    _, _, s0, _, _ = ps.run_history(entry, hist)
    results = []
    for k in E2_KINDS:
        h = hist + (k,)
        out, dead, s, calls, res = ps.run_history(entry, h)
        verdict, v = _attach_check(entry, h, res, out)
        results.append({"case": (entry, h, "one"), "v": v, "nt": (entry, s0, k) if verdict == "compared" else None,
                        "out": ("e2", entry, verdict, out[0]), "dg": (out, s, verdict),
                        "keep": (s, h, dead, verdict), "st": {"transitions": 1, "traces": 1 if verdict == "compared" else 0}})
    return results


def e2_enum(case):
    """("enum", entry, prefix, maxlen) / ("one", entry, hist)"""
    if case[0] == "one":
        return e2_expand((case[1], case[2], "one"))
    _, entry, prefix, maxlen = case
    counts = collections.Counter()
    viol = {}
    obs = []
    stack = [prefix]
    compared = 0
    while stack:
        h = stack.pop()
        out, dead, s, calls, res = ps.run_history(entry, h)
        verdict, v = _attach_check(entry, h, res, out)
        compared += verdict == "compared"
        obs.append((out, verdict))
        counts[("e2", entry, verdict, out[0])] += 1
        for d, msg in v:
            key = tuple(sorted(d.items()))
            if key not in viol:
                viol[key] = [d, msg, h, 0]
            viol[key][3] += 1
        if len(h) < maxlen:
            for k in reversed(E2_KINDS):
                stack.append(h + (k,))
    res = [{"out": k, "n": n, "case": case} for k, n in sorted(counts.items(), key=repr)]
    res[0]["dg"] = digest(obs)
    res[0]["st"] = {"traces": compared}
    for key, (d, msg, h, cnt) in sorted(viol.items()):
        res.append({"v": [(d, msg)] * cnt, "n": 0, "case": ("one", entry, h)})
    return res


def run_e2(ctx, entry):
    _, _, s0, _, _ = ps.run_history(entry, ())
    seen = {s0: ()}
    frontier = [()]
    depth = 0
    compared = 0
    while frontier:
        depth += 1
        if depth > 40:
            ctx.cap("E2 depth 40 for entry %s" % entry)
            break
        kept = ctx.sweep(e2_expand, [(entry, h) for h in frontier], chunk=2, name="E2 %s depth %d" % (entry, depth), keep=True)
        kept.sort(key=lambda x: x[1])
        nxt = []
        for s, h, dead, verdict in kept:
            compared += verdict == "compared"
            if not dead and s not in seen:
                seen[s] = h
                nxt.append(h)
        frontier = nxt
    ctx.st["states"] += len(seen)
    return len(seen), depth - 1, compared


# ================================================================ (8) parser-reuse histories
# One Parser object parses several texts one after the other (Context.execute_steps() always goes through
# feature.parser.parse_steps()).  Earlier parses are aborted at the C05 fault points (or complete), the parses are
# compared one by one with the same call on a FRESH Parser: same model in canonical form incl. line numbers, or the
# same exception class and line.  A well-formed text must never be rejected, whatever the parser did before.
_AB = (
    # (method, text, label): parses that abort (or end) in the middle of something
    ("parse", u"Feature: F\n  Scenario: S\n    Given g\n      | a | b |\n      | 1 | 2 |\n      | 3 |\n    Then t\n", "row-width-2"),
    ("parse", u"Feature: F\n  Scenario: S\n    Given g\n      | a |\n      | 1 | 2 |\n", "row-width-1"),
    ("parse", u"Feature: F\n  Scenario Outline: O\n    Given <x>\n    @e1\n    Examples: E\n      | x | y |\n      | 1 | 2 |\n      | 3 |\n", "examples-row"),
    ("parse", u"Feature: F\n  Scenario: S\n    Given g\n      DQ\n      buffered line\n   less\n      DQ\n", "doc-bad-indent"),
    ("parse", u"Feature: F\n  Scenario: S\n    When w\n        SQ\n        left open\n", "doc-unterminated"),
    ("parse", u"Feature: F\n  @t1 @t2\n  free text\n", "text-after-tags"),
    ("parse", u"@f1\nFeature: F\n  Scenario: S\n    Then t\n  Feature: again\n", "second-feature"),
    ("parse", u"Feature: F\n  Scenario: S\n    a description line\n    Examples: E\n", "examples-in-description"),
    ("parse", u"Feature: F\n  Background: B\n    Given g\n  @ok @bad tag\n", "bad-tag"),
    ("parse", u"Feature: F\n  Scenario: S\n    And a\n", "and-first"),
    ("parse", u"Feature: F\n  Background: B\n    When w\n  Rule: R\n    Scenario: S\n      Then t\n      free text\n", "text-after-steps-in-rule"),
    ("parse", u"# language: de\nFunktionalit\xe4t: F\n  Szenario: S\n    Wenn w\n      | a | b |\n      | 1 |\n", "de:row-width-2"),
    ("parse", u"@pending @tags\n", "only-tags"),
    ("parse_steps", u"Given g\n  | a | b |\n  | 1 | 2 |\n  | 3 |\n", "row-width-2"),
    ("parse_steps", u"Given g\n  | a |\n  | 1 | 2 |\n", "row-width-1"),
    ("parse_steps", u"Given g\n  DQ\n  buffered line\n less\n", "doc-bad-indent"),
    ("parse_steps", u"When w\n    SQ\n    left open\n", "doc-unterminated"),
    ("parse_steps", u"DQ\n", "doc-before-step"),
    ("parse_steps", u"| a | b |\n", "table-before-step"),
    ("parse_steps", u"Then t\nfree text\n", "text-after-steps"),
    ("parse_steps", u"But b\n", "but-first"),
    ("parse_steps", u"Given g\n  | a | b |\n", "table-open-at-end"),
    ("parse_scenario", u"@t1\nScenario: S\n  Given g\n    | a | b |\n    | 1 |\n", "row-width-2"),
    ("parse_scenario", u"@t1 @t2\n", "only-tags"),
    ("parse_rule", u"Rule: R\n  Scenario: S\n    Given g\n      | a | b |\n      | 1 |\n", "row-width-2"),
    ("parse_tags", u"@a @b", "tag-line"),
    ("parse_tags", u"@a b", "bad-tag-line"),
)
_AB = tuple((m, t.replace(u"DQ", u'"' * 3).replace(u"SQ", u"'" * 3), l) for m, t, l in _AB)
_METHOD_ENTRY = {"parse": "feature", "parse_steps": "steps", "parse_scenario": "scenario", "parse_rule": "rule",
                 "parse_tags": "tags"}
_WF = []


def _wellformed_ops():
    """the well-formed texts: rendered abstract documents (with the model they must give)"""
    if _WF:
        return _WF
    S = gr.STEP_NAMES
    t2 = ("table", [u"h1", u"h2"], [[u"a", u""], [u"x\\|y", u"\xfc"]])
    t1 = ("table", [u"h1"], [[u"c1"], [u"c2"]])
    t3 = ("table", [u"h 1", u"h2", u"h3"], [])
    dq = ("text", u'"' * 3, [u"first", u"  indented more", u"", u"last"])
    sq = ("text", u"'" * 3, [u"plain line"], 1)
    both = ("both", "table", dq, t2)

    def feat(steps, **kw):
        scen = {"k": "scenario", "tags": kw.get("stags", []), "name": u"n1", "desc": kw.get("desc", []), "steps": steps}
        return {"lang": "en", "tags": kw.get("ftags", []), "name": u"F", "desc": [], "bg": kw.get("bg"), "items": [scen]}

    st = [("given", S[0], None), ("when", S[1], None), ("then", S[2], None)]
    feats = [
        ("tab2", feat([("given", S[0], t2), ("then", S[1], None)])),
        ("tab1", feat([("given", S[0], None), ("when", S[1], t1)])),
        ("tab3-first-step", feat([("given", S[0], t3)])),
        ("no-table", feat(st, ftags=[u"f1", u"f2"], stags=[u"s1"], desc=[gr.DESCS[1][0]])),
        ("doc", feat([("given", S[0], dq), ("and", S[1], sq)])),
        ("doc+table", feat([("when", S[0], both), ("then", S[1], None)])),
        ("star-first+bg", feat([("star", S[0], None), ("and", S[1], None)],
                               bg={"name": u"", "desc": [], "steps": [("when", S[2], None)]})),
        ("rich", gr.decorate(RICH, seed=1)),
        ("outline-rule", lang_doc("en", {}, 0, header=False)),
        ("de", lang_doc("de", {}, 0)),
        ("fr", lang_doc("fr", {}, 0)),
        ("en-with-header", lang_doc("en", {}, 0)),
        ("de-tables", lang_doc("de", {}, 1)),
    ]
    for label, doc in feats:
        _WF.append(("parse", gr.render(doc), label))
    for label, steps in (("tab2", [("given", S[0], t2)]), ("tab1", [("when", S[0], t1), ("and", S[1], None)]),
                         ("no-table", st), ("star-first", [("star", S[0], None), ("but", S[1], None)]),
                         ("doc", [("then", S[0], sq)]), ("doc+table", [("given", S[0], both)])):
        _WF.append(("parse_steps", gr.render_steps(steps), label))
    _WF.append(("parse_scenario", gr.render_scenario({"k": "scenario", "tags": [u"t1", u"t2"], "name": u"n1", "desc": [],
                                                       "steps": [("given", S[0], t2), ("and", S[1], None)]}), "tags+tab2"))
    _WF.append(("parse_rule", gr.render_rule({"k": "rule", "tags": [u"r1"], "name": u"R", "desc": [gr.DESCS[1][0]],
                                              "bg": {"name": u"", "desc": [], "steps": [("given", S[0], t1)]},
                                              "items": [{"k": "scenario", "tags": [], "name": u"n1", "desc": [],
                                                         "steps": [("and", S[1], None)]}]}), "bg+tab1"))
    return _WF


def _reuse_ops():
    return [(m, t, "abort:" + l, None) for m, t, l in _AB] + [(m, r["text"], "ok:" + l, r) for m, r, l in _wellformed_ops()]


def _reuse_call(parser, method, text, set_variant=True):
    if set_variant:
        parser.variant = _METHOD_ENTRY[method]  # as Context.execute_steps() does before parser.parse_steps()
    try:
        res = getattr(parser, method)(text)
    except bp.ParserError as e:
        return ("PE", None if method == "parse_tags" else e.line, ps.exc_site(e))
    except Exception as e:
        return ("EXC", type(e).__name__, ps.exc_site(e))
    if res is None:
        return ("ok", None)
    if method == "parse_tags":
        return ("ok", {"kind": "tags", "names": [u"%s" % t for t in res]})   # per-line helper: no line of its own
    want = {"parse": bm.Feature, "parse_steps": list, "parse_scenario": bm.Scenario, "parse_rule": bm.Rule}[method]
    if not isinstance(res, want):
        return ("ok", {"kind": "a %s object" % type(res).__name__})
    if method == "parse":
        return ("ok", gr.x_feature(res))
    if method == "parse_steps":
        return ("ok", [gr.x_step(x) for x in res])
    return ("ok", gr.x_scenario(res) if method == "parse_scenario" else gr.x_rule(res))


def check_reuse(seq):
    """seq: indexes into _reuse_ops(); a negative first index -(k+1) means: obtain the Parser object as
    parse_feature(text_k).parser, the way the runner gets the parser it hands to Context.execute_steps()"""
    ops = _reuse_ops()
    v = []
    obs = []
    start = 0
    seq = list(seq)
    # family "plain": the methods are called on the object exactly as a library user would, nobody assigns
    # parser.variant (the other histories assign it before every call, the way Context.execute_steps() does)
    plain = seq[0] == "plain"
    if plain:
        seq = seq[1:]
        obs.append("plain")
    if seq[0] < 0:
        seq[0] = -seq[0] - 1
        feature = bp.parse_feature(ops[seq[0]][1])
        used = feature.parser
        start = 1
        obs.append("via-feature.parser")
    else:
        used = bp.Parser()
    history = []
    for i, k in enumerate(seq):
        method, text, label, rendered = ops[k]
        history.append("%s[%s]" % (method, label))
        if i < start:
            continue
        # a whole feature text is read in the language the Parser was built with (unless it has its own header);
        # a fragment (steps / scenario / rule of execute_steps) is read in the language of the feature parsed before
        carried = used.language
        # fragments: a fresh Parser carrying the same language.  A whole feature text: which language a re-used
        # Parser starts in (the one it was built with, or the one a '# language:' header of an earlier text left
        # behind) is outside the statement - both readings are accepted
        wants = [_reuse_call(bp.Parser(language=carried), method, text, not plain)]
        if method == "parse":
            wants.insert(0, _reuse_call(bp.Parser(), method, text, not plain))
        got = _reuse_call(used, method, text, not plain)
        obs.append((tuple(w[0] for w in wants), got[0], got in wants))
        if got in wants:
            continue
        want = ([w for w in wants if w[0] == got[0]] or wants)[-1]
        if rendered is not None and want[0] == "ok" and gr.diff(rendered["expected"], want[1]) and len(wants) == 1:
            continue        # the fresh parser itself is not faithful on this text: reported by the other sub-checks
        d = {"subcheck": "parser-reuse", "method": method}
        if plain:
            d["calls"] = "plain"
        if want[0] == "ok" and got[0] == "ok":
            tree = want[1] if not isinstance(want[1], list) else {"kind": "steps", "steps": want[1]}
            other = got[1] if not isinstance(want[1], list) else {"kind": "steps", "steps": got[1]}
            diffs = gr.diff(tree, other) if isinstance(other, dict) and isinstance(tree, dict) else [((), want[1], got[1])]
            path, a, b = diffs[0] if diffs else ((), "?", "?")
            d["clause"] = "model:" + gr.path_class(path, tree)
            what = "%s expected %r, re-used parser gives %r" % (".".join(map(str, path)), a, b)
        elif want[0] == "ok":
            d["clause"] = "well-formed-rejected"
            d["site"] = got[2]
            what = "a fresh Parser accepts the text, the re-used one gives %r" % (got,)
        else:
            d["clause"] = "outcome-differs"
            what = "a fresh Parser gives %r, the re-used one %r" % (want, got if got[0] != "ok" else ("ok",))
        v.append((d, "call #%d of the history %s on ONE Parser object: %s\n--- text of this call:\n%s\n--- text of the call before:\n%s"
                  % (i + 1, " ; ".join(history), what, text, ops[seq[i - 1]][1] if i else "")))
        break       # later calls run on a parser that is already known to be off
    return {"v": v, "nt": tuple(seq) if len(seq) > 1 else None, "dg": obs, "n": len(seq) - start,
            "out": ("reuse", ops[seq[-1]][0], ops[seq[-1]][2].split(":")[0], len(seq)),
            "st": {"transitions": len(seq) - start, "traces": 1}}


def reuse_cases(thorough):
    ops = _reuse_ops()
    n = len(ops)
    finals = [i for i in range(n) if ops[i][3] is not None]
    aborts = [i for i in range(n) if ops[i][3] is None]
    for a in range(n):
        yield (a,)
    for a in range(n):                      # (anything ; well-formed) and (anything ; anything)
        for b in range(n):
            yield (a, b)
    for a in finals:                        # parser taken from a parsed feature, then execute_steps-style calls
        if ops[a][0] != "parse":
            continue
        for b in range(n):
            if ops[b][0] == "parse":
                continue
            yield (-a - 1, b)
            for c in finals:
                if ops[c][0] != "parse":
                    yield (-a - 1, b, c)
    # plain library use (no variant assignment): every history of <= 2 calls, and (x ; fragment call ; whole
    # feature) - incl. features whose '# language:' header differs from the language the object carries by then
    frags = [i for i in range(n) if ops[i][0] != "parse"]
    wholes = [i for i in finals if ops[i][0] == "parse"]
    for a in range(n):
        yield ("plain", a)
        for b in range(n):
            yield ("plain", a, b)
    for a in (range(n) if thorough else wholes + frags[::2]):
        for b in frags:
            for c in wholes:
                yield ("plain", a, b, c)
    firsts = range(n) if thorough else aborts[::2] + finals[::4]
    for a in firsts:                        # (x ; abort-or-ok ; well-formed): incl. ok ; abort ; ok
        for b in range(n):
            for c in finals:
                yield (a, b, c)


# ================================================================ (8b) library use: Parser subclasses
def check_subclass(case):
    """(kind, index of a well-formed rendered text): parsed by calling the entry point method on an object of a
    Parser subclass; the model must be the rendered one and the object's constructor must have run once"""
    kind, k = case
    method, r, label = _wellformed_ops()[k]
    entry = _METHOD_ENTRY[method]
    out, inits, res = ps.run_subclass(kind, entry, r["text"])
    if out[0] == "ok":
        got = ("ok", None if res is None else gr.x_feature(res) if entry == "feature" else [gr.x_step(x) for x in res]
               if entry == "steps" else gr.x_scenario(res) if entry == "scenario" else gr.x_rule(res))
    else:
        got = ("exc", out[1] if out[0] == "EXC" else "ParserError", out[2], repr(out))
    v = compare("model", entry, r, got, {"subclass": kind})
    if inits is not None and inits != 1:
        v.append(({"subcheck": "subclass", "clause": "constructor-called-again", "subclass": kind, "entry": "parse_" + entry},
                  "__init__ of the %s object ran %d times for one %s()" % (kind, inits, method)))
    return {"v": v, "nt": ("subclass", kind, k), "out": ("subclass", kind, method), "dg": (got, inits)}


# ================================================================ (9) language-sequence histories
# Anything the parser memoises at module or class level (keyword lookups ...) shows only ACROSS documents: a document
# of language L2 must give the same model whether it is the first text the process parses or comes after documents
# of another language L1.  "Fresh process-state" = a private, freshly executed copy of behave/parser.py that is not
# registered in sys.modules (compiled once per worker), so that the result never depends on what the worker did before.
fresh_parser_module = ps.fresh_parser_module


def _pm_parse(mod, text):
    try:
        res = mod.parse_feature(text)
    except mod.ParserError as e:
        return ("PE", e.line, ps.exc_site(e))
    except Exception as e:
        return ("EXC", type(e).__name__, ps.exc_site(e))
    return ("ok", None if res is None else gr.x_feature(res))


def _step_rivals(lang, kw):
    """aliases of the language that extend kw (or differ from it in case only)"""
    tab = gr.languages()[lang]
    return sorted(set(a for k in gr.STEP_KINDS for a in tab[k]
                      if a != kw and len(a) >= len(kw) and a.lower().startswith(kw.lower())))


def language_pairs(include_star):
    """ordered (L1, L2, K, extends): L1 and L2 share the step keyword string K; extends = one of them has an alias
    that extends K which the other has not (derived from the keyword table, nothing hard-coded)"""
    tab = gr.languages()
    users = {}
    for lang in sorted(tab):
        for k in gr.STEP_KINDS:
            for a in tab[lang][k]:
                users.setdefault(a, set()).add(lang)
    out = []
    for kw in sorted(users):
        if kw == u"* " and not include_star:
            continue
        langs = sorted(users[kw])
        for a in langs:
            for b in langs:
                if a != b:
                    out.append((a, b, kw, _step_rivals(a, kw) != _step_rivals(b, kw)))
    return out


def _kinds_of(lang, kw):
    return [k for k in gr.STEP_KINDS if kw in gr.languages()[lang][k]]


def _seq_violation(clause, extra, want, got, what, texts):
    d = {"subcheck": "language-sequence", "clause": clause}
    if want[0] == "ok" and got[0] == "ok" and isinstance(want[1], dict) and isinstance(got[1], dict):
        path, a, b = (gr.diff(want[1], got[1]) or [((), "?", "?")])[0]
        d["field"] = gr.path_class(path, want[1])
        detail = "%s: parsed first %r, parsed in the history %r" % (".".join(map(str, path)), a, b)
    else:
        d["field"] = "outcome"
        detail = "parsed first %r, parsed in the history %r" % (want if want[0] != "ok" else "ok", got if got[0] != "ok" else "ok")
    d.update(extra)
    return (d, "%s: %s\n%s" % (what, detail, texts))


def check_langseq(case):
    """(L1, L2, K): one process-state parses an L1 document that uses the shared step keyword K, then L2 documents
    with every step alias of L2; each must equal what the same text gives when parsed first in a fresh state"""
    l1, l2, kw = case
    kind1 = _kinds_of(l1, kw)[0]
    first = gr.render(lang_doc(l1, {kind1: kw} if kw != u"* " else {}, 1 if kw == u"* " else 0))
    mod = fresh_parser_module()
    _pm_parse(mod, first["text"])
    v = []
    obs = []
    n = 1
    tab = gr.languages()[l2]
    docs = [(None, None, 1)]
    for kind in gr.STEP_KINDS:
        for alias in tab[kind]:
            if alias != u"* ":
                docs.append((kind, alias, 0))
    for kind, alias, variant in docs:
        r = gr.render(lang_doc(l2, {kind: alias} if kind else {}, variant))
        got = _pm_parse(mod, r["text"])
        n += 1
        obs.append(digest(got))
        if got[0] == "ok" and got[1] is not None and not gr.diff(r["expected"], got[1]):
            continue        # equals the model that was rendered: nothing a fresh state could do better
        want = _pm_parse(fresh_parser_module(), r["text"])
        n += 1
        if got != want and not v:
            v.append(_seq_violation("differs-from-fresh-process-state", {}, want, got,
                                    "language %s (alias %r of %s) after a %s document that used %r" % (l2, alias, kind, l1, kw),
                                    "--- parsed before (%s):\n%s--- this document (%s):\n%s" % (l1, first["text"], l2, r["text"])))
    return {"v": v, "nt": case, "out": ("langseq", kw, bool(v)), "dg": obs, "n": n,
            "st": {"transitions": len(docs) + 1, "traces": 1}}


def check_langorder(case):
    """(order, rotate): the whole languages x aliases sweep in ONE process-state, languages in the given order;
    every document must equal what it gives when parsed first in a fresh state"""
    order, rotate = case
    langs = sorted(gr.languages())
    langs = langs[rotate:] + langs[:rotate]
    if order == "reverse":
        langs.reverse()
    mod = fresh_parser_module()
    v = []
    obs = []
    n = 0
    prev = None
    for lang in langs:
        tab = gr.languages()[lang]
        for kind in gr.BLOCK_KINDS + gr.STEP_KINDS:
            for alias in tab[kind]:
                if alias == u"* " or (kind in gr.BLOCK_KINDS and _ambiguous_block_alias(lang, kind, alias)):
                    continue
                r = gr.render(lang_doc(lang, {kind: alias}, 0))
                got = _pm_parse(mod, r["text"])
                n += 1
                obs.append(digest(got))
                if got[0] == "ok" and got[1] is not None and not gr.diff(r["expected"], got[1]):
                    continue
                want = _pm_parse(fresh_parser_module(), r["text"])
                n += 1
                if got != want and len(v) < 3:
                    v.append(_seq_violation("order-dependent", {}, want, got,
                                            "language %s (alias %r of %s) in the sweep order %s/%d (language before: %s)"
                                            % (lang, alias, kind, order, rotate, prev), r["text"]))
        prev = lang
    return {"v": v, "nt": ("langorder",) + tuple(case), "out": ("langorder", order, bool(v)), "dg": digest(obs), "n": n}


# ================================================================ driver
RICH = (True, ("S", "O2"), ((True, ("S", "O1")), (False, ("O1",))))


def run(ctx):
    init_worker()
    thorough = not ctx.quick
    nblocks = 6 if thorough else 4
    ctx.bounds = {"blocks": nblocks, "keyword_sequence_length": 3, "contexts": len(CONTEXTS),
                  "languages": len(gr.languages()), "alias_documents_per_alias": 3 if thorough else 1,
                  "layout": "pairs" if thorough else "single deviations",
                  "e2_no_dedup_max_lines": 4 if thorough else 3}
    bad = gr.unsafe_alphabet_report()
    ctx.guard(not bad, "rendered names/descriptions cannot be mistaken for keywords in any language %r" % (bad[:3],))
    ctx.guard(len(gr.languages()) == 80, "80 languages in the keyword table (%d)" % len(gr.languages()))
    ctx.note("keyword_table", gr.table_source())
    ctx.guard(gr.table_source().endswith(".json"), "keyword table read from etc/gherkin/gherkin-languages.json, independent of behave/i18n.py")
    from behave import i18n
    ctx.guard(set(i18n.languages) == set(gr.languages()), "behave.i18n.languages has the same language codes as the keyword table")
    # (1)
    shapes = list(gr.shapes(nblocks))
    seeds = (0, 1, 2) if ctx.quick else (0, 1)
    ctx.sweep(check_shape, ((sh, i * 13 + s * 7919) for s in seeds for i, sh in enumerate(shapes)), chunk=32,
              name="all shapes <= %d blocks" % nblocks)
    ctx.sweep(check_shape, ((sh, i * 17 + 5, 3) for i, sh in enumerate(gr.shapes(3))), chunk=32, name="shapes <= 3 blocks, 3 steps")
    ctx.note("shapes", len(shapes))
    # (2)
    seqs = list(gr.keyword_sequences(3))
    ctx.guard(len(seqs) == 258, "258 keyword sequences")
    ctx.sweep(check_kwseq, ((seq, c, i + j) for j, c in enumerate(CONTEXTS) for i, seq in enumerate(seqs)), chunk=64,
              name="keyword sequences x contexts")
    # (3)
    rep = list(gr.shapes(4))[::8 if thorough else 16]
    lay_cases = [("doc", sh, i * 13, thorough) for i, sh in enumerate(rep)] + [("doc", RICH, 1, thorough), ("doc", RICH, 2, thorough)]
    ctx.sweep(check_layouts, lay_cases, chunk=1, name="layout deviations")
    # (4)
    ctx.sweep(check_alias, alias_cases(thorough), chunk=32, name="languages x aliases")
    # (5)
    ctx.sweep(check_entry, entry_cases(thorough), chunk=32, name="parse_steps/scenario/rule/tags")
    ctx.sweep(check_docclose, docclose_cases(thorough), chunk=64, name="doc-string delimiter layouts")
    ctx.sweep(check_both, both_cases(thorough), chunk=64, name="doc-string and table on one step")
    ctx.sweep(check_colon, colon_cases(), chunk=32, name="steps ending with ':' / outlines without steps, switch off and on")
    ctx.sweep(check_shape_on, ((sh, i * 11 + 3) for i, sh in enumerate(gr.shapes(4 if thorough else 3))), chunk=32,
              name="shapes with BEHAVE_STRIP_STEPS_WITH_TRAILING_COLON=yes")
    # (6)
    ctx.sweep(check_roundtrip, roundtrip_cases(), chunk=8, name="ModelDescriptor round trip")
    # (7)
    info = {}
    for entry in ("feature", "steps"):
        info[entry] = run_e2(ctx, entry)
    ctx.note("e2", {e: {"states": a, "depth_to_fixpoint": b, "histories_compared_with_reference": c} for e, (a, b, c) in info.items()})
    ctx.guard(info["feature"][2] > 500, "E2: more than 500 accepted histories compared with the reference attachment")
    maxlen = 4 if thorough else 3
    for entry in ("feature", "steps"):
        cases = [("enum", entry, (), 1)] + [("enum", entry, (a, b), maxlen) for a in E2_KINDS for b in E2_KINDS]
        ctx.sweep(e2_enum, cases, chunk=8, name="E2 all sequences <= %d lines, %s" % (maxlen, entry))
    # (8)
    ops = _reuse_ops()
    ctx.bounds["parser_reuse"] = ("%d operations (%d aborting/unfinished texts, %d well-formed rendered texts); all "
                                  "histories of <= 2 calls, all (x ; y ; well-formed) of 3 calls%s, on one Parser object"
                                  % (len(ops), len(_AB), len(ops) - len(_AB), "" if thorough else " (x: every 2nd aborting + every 4th well-formed)"))
    ctx.sweep(check_reuse, reuse_cases(thorough), chunk=64, name="parser-reuse histories")
    ctx.sweep(check_subclass, ((k, i) for k in ps.SUBCLASS_KINDS for i in range(len(_wellformed_ops()))), chunk=8,
              name="well-formed texts through Parser subclasses")
    # (9)
    pairs = language_pairs(include_star=thorough)
    found = set((a, b, k) for a, b, k, ext in pairs if ext)
    must = {("cs", "sk", u"A "), ("bs", "sk", u"A "), ("bs", "cs", u"A "), ("cy-GB", "cs", u"A "), ("gl", "fr", u"Mais "),
            ("sk", "cs", u"A "), ("fr", "gl", u"Mais ")}
    ctx.guard(found >= must, "language pairs that share a step keyword which only one of them extends are derived from "
              "the keyword table (found %d; missing %s)" % (len(found), sorted(must - found)))
    ctx.note("language_sequence_pairs", {"sharing_a_step_keyword": len(pairs), "one_extends_it": sorted(found)})
    ctx.bounds["language_sequences"] = ("all %d ordered language pairs sharing a step keyword string%s; whole alias sweep in "
                                        "4 language orders" % (len(pairs), "" if thorough else " other than '* '"))
    ctx.sweep(check_langseq, sorted(set((a, b, k) for a, b, k, ext in pairs), key=lambda c: (c[2] == u"* ", c)), chunk=8,
              name="language-sequence histories")
    nl = len(gr.languages())
    ctx.sweep(check_langorder, [("forward", 0), ("reverse", 0), ("forward", nl // 2), ("reverse", nl // 3)], chunk=1,
              name="alias sweep in 4 language orders, one process-state each")
    ctx.guard(len(ctx.nt) > 3000, "at least 3000 distinct non-trivial documents/aliases/histories")
    ctx.guard(len(ctx.outcomes) > 40, "at least 40 distinct outcome classes")
