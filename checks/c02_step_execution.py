# -*- coding: utf-8 -*-
"""C02 - step execution: order, outcome->status mapping, stop after the first non-pass (E1 + E2)."""
import itertools, sys, io
from vlib import prog as P, refrun, harness
from vlib.core import digest

PROPERTY = "C02"
LEVEL = "exploration"
RULE = ("One scenario in each of 10 contexts {plain scenario, outline row} x {no background, feature background, feature + "
        "rule background}, plus outline rows whose inherited background steps are parametrised with <column> placeholders "
        "at the feature level, the rule level or both, followed by a sibling scenario; ALL outcome sequences over {pass, fail, error, pending, "
        "undefined, skip, kbi, convert} (and converters raising KeyError / AssertionError / RuntimeError; step functions raising a SUBCLASS of "
        "AssertionError / StepNotImplementedError / KeyboardInterrupt and the builtin NotImplementedError, i.e. the superclass of the pending class) of length <= 3 (quick) / <= 4 (thorough; 5 in the plain context), background steps "
        "drawing outcomes too; x {@wip on the scenario; for sequences with a pending step also @wip inherited from the feature, the rule or the examples block} x {dry-run} x {continue_after_failed_step} x {sync, async step functions (async: length <= 2 in quick)}. Oracle: "
        "predicted call log (which step function, in which scenario, in which order, inherited background first) and "
        "predicted status of every step from the reference interpreter. Histories: the same model object run 2 (3) times "
        "with a different outcome table per run must end with the statuses of a fresh object run with the last table. "
        "Non-trivial = distinct case with at least one non-pass outcome.")
ASSUMPTIONS = ["continue_after_failed_step is documented for failed steps; after an undefined/pending/interrupted step both "
               "continuing and stopping are accepted (call log and statuses must match one of the two variants as a whole)",
               "sequences longer than the bound are not claimed (no random tail)",
               "models assembled by hand through the public constructors are an extra beyond the statement's quantifier "
               "(it speaks of scenarios, not of how the model was built): covered for rules whose scenarios are added before "
               "the rule's background / before the rule joins the feature; NOT covered with parametrised (<column>) inherited "
               "background steps - Rule.add_background() expands the outlines it walks before they know their background, so "
               "the per-row copies keep the placeholder (seen on the unchanged tree, noted in DESIGN 10, not claimed)"]

OUT8 = ("pass", "fail", "error", "pending", "undefined", "skip", "kbi", "convert")
CONTEXTS = (("S", 0), ("S", 1), ("S", 2), ("O", 0), ("O", 1), ("O", 2),
            ("P1", 1), ("P1", 2), ("P2", 2), ("P3", 2))       # P<mask>: parametrised background levels


def build(kind, nbg, seq, wip):
    """kind "P<mask>" = outline row whose inherited background steps are parametrised (<oK> placeholders, bit k of
    mask = k-th background level): the background outcomes then travel through extra examples columns"""
    own = tuple(seq[nbg:])
    # wip: 1 = @wip on the scenario / outline itself, 2 = inherited from the FEATURE, 3 = inherited from the RULE
    # (contexts with two background levels), 4 = on the examples block (outline rows)
    tags = ("wip",) if wip == 1 else ()
    ftags = ("wip",) if wip == 2 else ()
    rtags = ("wip",) if wip == 3 else ()
    extags = ("wip",) if wip == 4 else ()
    sib = P.S(("pass",))
    if kind.startswith("P"):
        mask = int(kind[1:])
        n = len(own)
        row = own + tuple(seq[:nbg])
        item = P.O((row,), tags, ncols=len(row), extags=extags)
        # the outline's own steps use columns 0..n-1; parametrised background level k uses column n+k
        bgs = [("<o%d>" % (n + k)) if mask >> k & 1 else seq[k] for k in range(nbg)]
        sib = P.O((("pass",) * len(row),), ncols=len(row))
        item = ("O", item[1], n, item[3])
        sib = ("O", sib[1], n, sib[3])
        if nbg == 1:
            return (P.F((item, sib), bg=(bgs[0],), tags=ftags),)
        return (P.F((P.R((item, sib), bg=(bgs[1],), tags=rtags),), bg=(bgs[0],), tags=ftags),)
    item = P.S(own, tags) if kind in ("S", "SR") else P.O((own,), tags, ncols=len(own), extags=extags)
    if kind in ("SR", "OR"):
        # a rule WITHOUT a background of its own under a feature background (nbg == 1), or under none (nbg == 0)
        return (P.F((P.R((item, sib), tags=rtags),), bg=(seq[0],) if nbg else None, tags=ftags),)
    if nbg == 0:
        f = P.F((item, sib), tags=ftags)
    elif nbg == 1:
        f = P.F((item, sib), bg=(seq[0],), tags=ftags)
    else:
        f = P.F((P.R((item, sib), bg=(seq[1],), tags=rtags),), bg=(seq[0],), tags=ftags)
    return (f,)


def run_case(case):
    kind, nbg, seq, wip, dry, cafs, asyn = case[:7]
    rebuild = case[7] if len(case) > 7 else None
    prog = build(kind, nbg, seq, wip)
    cfg = {}
    if dry:
        cfg["dry"] = True
    if cafs:
        cfg["cafs"] = True
    obs = harness.run_case(prog, cfg, async_steps=asyn, rebuild=rebuild)
    v = None
    variants = (True, False) if cafs else (True,)
    for var in variants:
        c2 = dict(cfg)
        c2["cafs_all"] = var
        ref = refrun.predict(prog, c2)
        vv = refrun.compare(prog, ref, obs, what=("steps", "calls"))
        if not vv:
            v = []
            break
        if v is None:
            v = vv
    for d, msg in v:
        d["context"] = "%s+%dbg" % (kind, nbg)
        d["async"] = str(bool(asyn))
        if rebuild:
            d["model"] = "built-by-hand:" + rebuild
    nt = digest(case) if any(o != "pass" for o in seq) else None
    firstbad = next((o for o in seq if o != "pass"), "none")
    first = sorted(obs["steps"])[0] if obs["steps"] else None
    return {"v": v, "nt": nt, "out": (kind, nbg, firstbad, wip, dry, cafs, tuple(obs["steps"].get(first, ()))[:4]),
            "dg": (obs["verdict"], sorted(obs["steps"].items()), obs["calls"])}


def cases(tier):
    quick = tier == "quick"
    for L in range(1, (3 if quick else 4) + 1):
        for seq in itertools.product(OUT8, repeat=L):
            for kind, nbg in CONTEXTS:
                if L < nbg or (L == nbg and kind != "S"):
                    continue        # L == nbg: a plain scenario WITHOUT own steps - only the inherited ones run
                if L == 4 and (nbg == 1):
                    continue        # thorough: length 4 in contexts 0bg and 2bg
                for wip, dry, cafs in itertools.product((0, 1), repeat=3):
                    if L == 4 and (dry or (wip and cafs)):
                        continue
                    yield (kind, nbg, seq, wip, dry, cafs, 0)
                    if L <= (2 if quick else 3) and not dry:
                        yield (kind, nbg, seq, wip, dry, cafs, 1)      # async step functions
    # @wip INHERITED from the feature / the rule / the examples block (effective tags, not own tags)
    for L in (1, 2, 3):
        for seq in itertools.product(("pass", "pending", "fail", "undefined"), repeat=L):
            if "pending" not in seq or (L == 3 and quick and seq.count("pass") < 1):
                continue
            for kind, nbg in CONTEXTS:
                if L < nbg or (L == nbg and kind != "S"):
                    continue
                for wipl in (2, 3, 4):
                    if (wipl == 3 and nbg != 2) or (wipl == 4 and kind == "S"):
                        continue
                    for dry, cafs in ((0, 0), (0, 1), (1, 0)):
                        yield (kind, nbg, seq, wipl, dry, cafs, 0)
    if not quick:
        for seq in itertools.product(OUT8[:6], repeat=5):
            yield ("S", 0, seq, 0, 0, 0, 0)
    # the class of the exception raised by a type converter must not matter (KeyError, AssertionError, RuntimeError)
    CONV = ("pass", "fail", "convertK", "convertA", "convertR", "undefined")
    for L in (1, 2, 3):
        for seq in itertools.product(CONV, repeat=L):
            if not any(o.startswith("convert") for o in seq):
                continue
            for kind, nbg in CONTEXTS:
                if L <= nbg or (L == 3 and kind.startswith("P")):
                    continue
                for wip, dry, cafs in ((0, 0, 0), (0, 1, 0), (0, 0, 1), (1, 0, 0)):
                    yield (kind, nbg, seq, wip, dry, cafs, 0)


def api_cases(tier):
    """LIBRARY USE: the model of every context that holds a rule is assembled by hand through the public constructors
    (scenarios into the rule first, then its background, then the rule into the feature - and the variant that attaches
    the rule's background last); plus the parsed form of the new contexts SR / OR (rule without own background)"""
    quick = tier == "quick"
    # (contexts with PARAMETRISED inherited background steps are not assembled by hand: see ASSUMPTIONS)
    ctxs = (("SR", 0), ("SR", 1), ("OR", 1), ("S", 2), ("O", 2))
    outs = ("pass", "fail", "error", "undefined", "skip") if quick else OUT8
    for L in (1, 2, 3):
        for seq in itertools.product(outs, repeat=L):
            if L == 3 and quick and seq.count("pass") < 1:
                continue
            for kind, nbg in ctxs:
                if L < nbg or (L == nbg and kind not in ("S", "SR")):
                    continue
                for rb in (None, "bottom-up", "bottom-up-late"):
                    if rb is None and kind not in ("SR", "OR"):
                        continue
                    for wip, dry, cafs in ((0, 0, 0), (0, 1, 0), (0, 0, 1), (3 if nbg == 2 else 1, 0, 0)):
                        yield (kind, nbg, seq, wip, dry, cafs, 0, rb)


def class_cases(tier):
    """the CLASS of the exception a step function raises: for every `except X` clause of Step.run a subclass of X and
    X's immediate superclass (P.CLASS_VARIANTS), and outcomes reached THROUGH Context.execute_steps() (nested step passes /
    fails / raises, one and two levels deep: P.EXEC_VARIANTS), in every context x {plain, @wip, dry-run, cafs, @wip+cafs}"""
    quick = tier == "quick"
    ALPH = ("pass", "fail", "pending") + P.CLASS_VARIANTS + P.EXEC_VARIANTS
    for L in (1, 2, 3):
        for seq in itertools.product(ALPH, repeat=L):
            if not any(o in P.CLASS_VARIANTS + P.EXEC_VARIANTS for o in seq):
                continue
            if L == 3 and quick and sum(1 for o in seq if o != "pass") > 1:
                continue
            for kind, nbg in CONTEXTS:
                if L <= nbg or (L == 3 and kind.startswith("P")):
                    continue
                for wip, dry, cafs in ((0, 0, 0), (1, 0, 0), (0, 1, 0), (0, 0, 1), (1, 0, 1)):
                    yield (kind, nbg, seq, wip, dry, cafs, 0)
                if L == 1 and seq[0] not in P.EXEC_VARIANTS:
                    # (a nested run_until_complete inside a running event loop is a usage error, not an outcome)
                    yield (kind, nbg, seq, 1, 0, 0, 1)      # async, @wip


# ---- histories: repeated runs of the same scenario object ----------------------------------------
HOUT = ("pass", "fail", "error", "pending", "skip")


# ---- the same step text under several step types ------------------------------------------------------------
TYPES = ("given", "when", "then")
TEXT_X = u"the door is open"


def typed_case(case):
    """case = (scenarios, defs): scenarios = tuple of tuples of (keyword, step type) lines, all with the SAME step
    text; defs = {step type: None | "pass" | "fail"} - one definition per step type (or none). The status of each step
    is determined by what ITS OWN type's function did (no definition -> undefined); lookups of the same text under
    another type - earlier in the scenario or in an earlier scenario - must not matter."""
    scenarios, defs = case
    defs = dict(defs)
    from behave.parser import parse_feature
    from behave.step_registry import StepRegistry
    from behave.runner import ModelRunner
    from behave.configuration import Configuration
    from behave import matchers
    harness.reset_globals()
    lines = [u"Feature: F"]
    for i, sc in enumerate(scenarios):
        lines.append(u"  Scenario: S%d" % i)
        for kw, st in sc:
            lines.append(u"    %s %s" % (kw, TEXT_X))
    feature = parse_feature(u"\n".join(lines) + u"\n", filename="typed.feature")
    reg = StepRegistry()
    calls = []

    def make(st, kind):
        def impl(ctx):
            calls.append(st)
            assert kind == "pass", "boom"
        impl.__name__ = "step_%s_%s" % (st, kind)
        return impl
    for st in TYPES:
        if defs.get(st):
            reg.add_step_definition(st, TEXT_X, make(st, defs[st]))
    old = sys.stdout, sys.stderr
    sys.stdout, sys.stderr = io.StringIO(), io.StringIO()
    escaped = None
    try:
        config = Configuration(["-f", "null"], load_config=False)    # the summary reporter binds sys.stdout here
        runner = ModelRunner(config, [feature], step_registry=reg)
        runner.run()
    except BaseException as e:      # noqa
        escaped = type(e).__name__
    finally:
        sys.stdout, sys.stderr = old
    v = []
    got = [[s_.status.name for s_ in sc.steps] for sc in feature.scenarios]
    want, want_calls = [], []
    for sc in scenarios:
        row, stopped = [], False
        for kw, st in sc:
            kind = defs.get(st)
            if stopped:
                row.append("skipped" if kind else "undefined")
            elif not kind:
                row.append("undefined")
                stopped = True
            else:
                want_calls.append(st)
                row.append("passed" if kind == "pass" else "failed")
                stopped = kind != "pass"
        want.append(row)
    shape = "one-scenario" if len(scenarios) == 1 else "two-scenarios"
    cont = "continuation-keyword" if any(kw in ("And", "But", "*") for sc in scenarios for kw, st in sc) else "primary-keywords"
    if escaped:
        v.append(({"subcheck": "typed-same-text", "clause": "exception-escapes-run", "exc": escaped}, "run raised %s" % escaped))
    elif got != want:
        v.append(({"subcheck": "typed-same-text", "clause": "status", "shape": shape, "keywords": cont},
                  "same text under several step types %r, definitions %r: statuses %r, expected %r" % (scenarios, defs, got, want)))
    elif calls != want_calls:
        v.append(({"subcheck": "typed-same-text", "clause": "call-log", "shape": shape, "keywords": cont},
                  "same text under several step types %r, definitions %r: functions called %r, expected %r"
                  % (scenarios, defs, calls, want_calls)))
    return {"v": v, "nt": digest(case), "out": ("typed", tuple(map(tuple, got))[:2]), "dg": (got, calls, escaped)}


def typed_cases(tier):
    prim = {"given": "Given", "when": "When", "then": "Then"}

    def seqs(n):
        """all sequences of n lines: step types free; a line of the same type as its predecessor may also be written
        with And / But / *"""
        for types in itertools.product(TYPES, repeat=n):
            opts = []
            for i, st in enumerate(types):
                o = [prim[st]]
                if i and types[i - 1] == st:
                    o += ["And", "But", "*"]
                opts.append([(kw, st) for kw in o])
            for combo in itertools.product(*opts):
                yield combo
    all_defs = [tuple(zip(TYPES, d)) for d in itertools.product((None, "pass", "fail"), repeat=3) if any(d)]
    progs = [(s_,) for n in (2, 3) for s_ in seqs(n)]
    progs += [(a, b) for a in seqs(1) for b in seqs(2)] + [(a, b) for a in seqs(2) for b in seqs(1)]
    cont2 = [s_ for s_ in seqs(2) if s_[1][0] in ("And", "But", "*")]
    if tier != "quick":
        progs += [(a, b) for a in seqs(2) for b in seqs(2)]
    else:
        # the same continuation keyword under two step types: "Given X / And X" then "Then X / And X"
        progs += [(a, b) for a in cont2 for b in cont2 if a[0][1] != b[0][1]]
    for pr in progs:
        for d in all_defs:
            yield (pr, d)



def history_case(case):
    """case = (kind, nbg, reset_between, tables: tuple of outcome tuples)"""
    kind, nbg, reset, tables = case
    m = harness._imp()
    harness.reset_globals()
    n = len(tables[0])
    prog = build(kind, nbg, ("pass",) * n, False)
    text, meta = P.render(prog[0], 0)

    def one_run(table, feats=None):
        config = m["Configuration"](["--no-summary"], load_config=False)
        reg = m["StepRegistry"]()
        m["matchers"].use_step_matcher("parse")
        calls = []

        def impl(ctx, num):
            calls.append((ctx.scenario.name[:2], num))
            if ctx.scenario.name.startswith("S0_2") or ctx.scenario.name.startswith("S0_3"):
                # sibling scenario: only its inherited background steps follow the table
                if num > nbg:
                    return
            o = table[num - 1] if num - 1 < len(table) else "pass"
            if o == "fail":
                assert False, "boom"
            if o == "error":
                raise RuntimeError("x")
            if o == "pending":
                raise m["StepNotImplementedError"]("p")
            if o == "skip":
                ctx.scenario.skip()
        reg.add_step_definition("step", "step {num:d} pass", impl)
        feats = feats or [m["parse_feature"](text, filename="h.feature")]
        runner = m["ModelRunner"](config, feats, step_registry=reg)
        runner.hooks = {}
        runner.formatters = []
        old = sys.stdout
        sys.stdout = io.StringIO()
        try:
            verdict = bool(runner.run())
        finally:
            sys.stdout = old
        snap = [verdict, calls]
        for sc in feats[0].walk_scenarios():
            snap.append((sc.name[:2], sc.status.name, [s.status.name for s in sc.all_steps]))
        return snap, feats

    feats = None
    got = None
    for t in tables:
        if feats is not None and reset:
            feats[0].reset()
        got, feats = one_run(t, feats)
    want, _ = one_run(tables[-1])
    v = []
    if got != want:
        v.append(({"subcheck": "history", "clause": "depends-on-earlier-run", "context": "%s+%dbg" % (kind, nbg),
                   "reset": str(bool(reset))},
                  "runs %r of the same model end with %r; a fresh model run with the last table gives %r"
                  % (tables, got, want)))
    return {"v": v, "nt": digest(case) if len(set(tables)) > 1 else None, "out": repr(got[2:3]), "dg": got}


def history_cases(tier):
    quick = tier == "quick"
    for kind, nbg in CONTEXTS:
        n = nbg + 2
        seqs = list(itertools.product(HOUT, repeat=n)) if n <= 3 else \
            [s for s in itertools.product(HOUT, repeat=n) if s.count("pass") >= n - 2]
        if quick:
            seqs = [s for s in seqs if s.count("pass") >= n - 1 or n <= 2]
        for t1 in seqs:
            for t2 in seqs:
                yield (kind, nbg, 1, (t1, t2))
                if "skip" not in t1:
                    yield (kind, nbg, 0, (t1, t2))
        if not quick:
            small = [s for s in seqs if s.count("pass") >= n - 1]
            for t1 in small:
                for t2 in small:
                    for t3 in small:
                        if "skip" not in t1 and "skip" not in t2:
                            yield (kind, nbg, 0, (t1, t2, t3))


def run(ctx):
    ctx.bounds = {"sequence_length": 3 if ctx.quick else "4 (5 in the plain context over 6 outcomes)",
                  "contexts": len(CONTEXTS), "switch_combinations": 8, "history_runs": 2 if ctx.quick else 3}
    ctx.sweep(run_case, cases(ctx.tier), chunk=64, name="outcome sequences x contexts x switches")
    ctx.sweep(run_case, api_cases(ctx.tier), chunk=64,
              name="rules without own background (parsed) and models assembled by hand (rule bottom-up, background late)")
    ctx.sweep(run_case, class_cases(ctx.tier), chunk=64, name="exception classes around every except clause of Step.run")
    ctx.sweep(typed_case, typed_cases(ctx.tier), chunk=64,
              name="the same step text under several step types (typed definitions differ or are missing)")
    ctx.sweep(history_case, history_cases(ctx.tier), chunk=32, name="re-run histories of one model object")
    ctx.guard(len(ctx.outcomes) > 200, "at least 200 distinct observed outcome classes")
