# -*- coding: utf-8 -*-
"""C17 - the rerun file lists exactly the unsuccessful scenarios; fed back it selects them (E1 + E2 run -> file -> run)."""
import os, sys, io, re, shutil, tempfile, logging, itertools
from vlib import prog as P, harness
from vlib.core import digest

PROPERTY = "C17"
LEVEL = "exploration"
RULE = ("Two feature files on disk (features/f0.feature, features/f1.feature in a scratch directory that is the cwd), each "
        "one of 11 (thorough: 13) small shapes (plain scenarios, outlines with 1-2 rows / two examples blocks, scenarios and outlines "
        "inside rules, outlines with a header-only (row-less) Examples block before / after a block with rows, feature "
        "background on/off); every scenario slot (plain scenario or outline row) gets one kind of "
        "{pass, fail (AssertionError), error (RuntimeError), undef (no step definition), pend (StepNotImplementedError), "
        "hookb (before_scenario raises for it), hooka (after_scenario raises for it), desel (tagged @x, run with "
        "--tags='not x'; its step would fail)}; deviation bounding: all assignments with <= 2 (quick) / <= 4 (thorough) "
        "non-pass slots over 12 (thorough: 19) ordered shape pairs with 2-6 scenario slots; x stale rerun.txt present/absent; "
        "plus, on 4 (thorough: 22) pairs, one container-level hook fault - after_feature / after_tag of a feature tag / "
        "before_feature / before_tag of a feature tag for each file, after_rule / after_tag of a rule tag / before_rule / "
        "before_tag of a rule tag for each rule, among them a faulted rule FOLLOWED by another rule with a plain scenario "
        "and an outline row, so that untested scenarios sit in the middle of an executed feature (the container ends "
        "hook_error; after-hooks leave the scenarios' statuses alone, before-hooks leave them untested) - combined with "
        "<= 2 (thorough: <= 3, on the quick pairs) non-pass slots, stale file present; plus, on 3 (thorough: 6) pairs, the "
        "same programs rendered with ALL Scenario / Scenario Outline / Rule / Examples titles identical (namesake plain "
        "scenarios, namesakes in a feature and its rule, in two rules, same-named outlines whose rows get identical "
        "generated names), <= 2 (thorough: <= 3) non-pass slots so that namesakes differ in success; plus 22 six-to-eight-slot "
        "shapes (used for both files) in which one bystander element carries a tag the selection code treats specially - "
        "@setup / @teardown on a plain scenario (first, middle, last), on an outline, on one Examples block, on a scenario "
        "inside a rule - with each untagged slot unsuccessful in turn, fed back as '@rerun.txt' and as file:line "
        "command-line arguments; there the second run must execute the listed scenarios plus, as "
        "FeatureScenarioLocationCollector.build_feature documents, the @setup/@teardown ones, everything else skipped; plus 3 "
        "pairs of features carrying @t on exactly one element (an Examples block - the rows are then selected only through "
        "it -, an outline, a scenario, a rule, the feature, an Examples block inside a rule) run under {no tags, --tags=t} x "
        "{show_skipped, --no-skipped} in both runs with <= 1 non-pass slot of every kind and pairs of failing slots, so that "
        "unsuccessful scenarios fall among the selected and the de-selected ones (ground truth everywhere: the final status of the scenario objects handed to "
        "the before_scenario hook while they execute, keyed by file:line and cross-checked with the kinds and with the model "
        "walked afterwards; never formatter events); plus, on 3 pairs, the rerun entries fed back next to a line-less "
        "(whole-file) location of a third feature - on the command line before '@rerun.txt', inside a list file whose "
        "first entry is the whole file, and after '@rerun.txt' - where run 2 must execute the listed scenarios plus every "
        "scenario of the whole-file feature and skip the rest; plus, on every pair, exactly one slot of kind cleanup (its passing "
        "step registers a raising cleanup on the scenario layer: the scenario ends error-class - fixed by the kind, not read "
        "from the model - and must be listed) or cleanupf (registered with layer='feature': the feature ends error, the "
        "scenario passed and is not listed), alone and next to <= 1 (thorough: <= 2) other non-pass slots; plus, on 2 pairs, the directory layout: the cwd is "
        "<scratch>/proj and the feature files lie below it (everywhere else), in ../shared/features, or in a sibling whose "
        "name extends the cwd's name (../proj.shared/features, ../proj2/features), given to run 1 as a relative path, an "
        "absolute path or a path with a '..' detour; every listed file must exist relative to the cwd the file is fed back "
        "from and carry the cwd-relative name of the real file; plus formatter-object histories on the RerunFormatter object "
        "the run used (taken from runner.formatters): its public failed_scenarios read after every run must name the "
        "unsuccessful scenarios, and on 2 pairs close() is called 1 and 2 more times after each run - the file must stay "
        "as the first close() left it (none after an all-passing run, stale file present or absent) and the usual oracle "
        "applies to it. Run 1 = real Configuration "
        "(-f rerun -o rerun.txt features), collect_feature_locations + parse_features on the files, formatters from "
        "make_formatters, ModelRunner with a fresh StepRegistry. Oracle: rerun.txt lists exactly file:line (line known "
        "from the renderer) of the scenarios whose final status is failed or error-class, in run order; none -> no file "
        "(stale one removed). Run 2 = the same with the path argument '@rerun.txt': the scenarios left un-skipped by "
        "parse_features(collect_feature_locations(['@rerun.txt'])) are exactly the listed ones, the run calls "
        "before_scenario / step functions for exactly those, each once (run-1 call log restricted to them, compared as "
        "multisets), they end with their run-1 status, everything else in the parsed features ends skipped, and the file "
        "written by run 2 obeys the listing oracle again. The feedback oracle is relative to the file's entries, so a wrong "
        "listing and a wrong selection are reported separately. Non-trivial = "
        "distinct (shapes, kinds, stale) where the file must discriminate (some but not all scenarios listed) or a stale "
        "file must be removed.")
ASSUMPTIONS = ["the rerun file is written into the current directory and fed back from there (documented usage "
               "`behave @rerun.txt`); an output file in another directory than the cwd is not enumerated (the feature "
               "files' directory is: below the cwd, beside it, beside it with a name that extends the cwd's name)",
               "error-class = error, hook_error, cleanup_error, undefined, pending (docs/appendix.status.rst)",
               "the second run uses the same tag expression and the same hook faults as the first",
               "kind cleanupf (a raising cleanup registered with layer='feature' from a passing scenario): the statement "
               "lists unsuccessful SCENARIOS; that scenario itself passed (only its feature ends error), so it is expected "
               "NOT to be listed - only what the statement says about scenarios is judged",
               "kind cleanup: the expected status (error-class) is fixed by the kind, not read from the model"]

KINDS = ("pass", "fail", "error", "undef", "pend", "hookb", "hooka", "desel")
NONPASS = KINDS[1:]
# the cleanup kinds are deviations of their own sweep (cleanup_cases), not part of the NONPASS alphabet of the main one
CLEANUP_KINDS = ("cleanup", "cleanupf")
STEP = {"pass": "pass", "fail": "fail", "error": "error", "undef": "undefined", "pend": "pending",
        "hookb": "pass", "hooka": "pass", "desel": "fail", "cleanup": "cleanup", "cleanupf": "cleanupf"}
# expected final status per kind. For `cleanup` (the passing step registers a raising cleanup on the scenario layer) it is
# fixed by the rule "a raising cleanup makes the owning element fail" (C13): the scenario ends in an error-class status;
# for `cleanupf` (registered with layer="feature") the owning element is the feature, the scenario itself passed
EXPECT = {"pass": ("passed",), "fail": ("failed",), "error": ("error",), "undef": ("undefined", "error"),
          "pend": ("pending", "error"), "hookb": ("hook_error",), "hooka": ("hook_error",), "desel": ("skipped",),
          "cleanup": ("error", "cleanup_error"), "cleanupf": ("passed",)}
ERRC = ("error", "hook_error", "cleanup_error", "undefined", "pending")
RERUN = "rerun.txt"
FDIR = "features"

_S, _O, _R, _F = P.S, P.O, P.R, P.F
ROWS1 = (("pass",),)
ROWS2 = (("pass",), ("pass",))
SHAPES = {
    "S": _F((_S(),)),
    "SS": _F((_S(), _S())),
    "O2": _F((_O(ROWS2),)),
    "S+R(S)": _F((_S(), _R((_S(),)))),
    "bg:S,O1": _F((_S(), _O(ROWS1)), bg=("pass",)),
    "R(S,O1)": _F((_R((_S(), _O(ROWS1))),)),
    "O1+R(O2)": _F((_O(ROWS1), _R((_O(ROWS2),), bg=("pass",)))),
    "R(S)+R(O1)": _F((_R((_S(),)), _R((_O(ROWS1),)))),
    "O1|1": _F((P.O2([((), ROWS1), ((), ROWS1)]),)),
    "S,O2+R(S,O1)": _F((_S(), _O(ROWS2), _R((_S(), _O(ROWS1))))),
    # outlines with a row-less Examples block (header only, legal) before / after a block that has rows
    "E0|O2": _F((P.O2([((), ()), ((), ROWS2)]),)),
    "O1|E0,S": _F((P.O2([((), ROWS1), ((), ())]), _S())),
    "S+R(E0|O1)": _F((_S(), _R((P.O2([((), ()), ((), ROWS1)]),)))),
    # a rule followed by another rule that holds a plain scenario and an outline row: when the first rule's before-hook fails
    # its scenario stays untested in the MIDDLE of an executed feature (statuses are not monotone along the file)
    "R(S)+R(S,O1)": _F((_R((_S(),)), _R((_S(), _O(ROWS1))))),
    "R(S)+R(S)": _F((_R((_S(),)), _R((_S(),)))),            # identical-titles dimension only
    "O1,O1": _F((_O(ROWS1), _O(ROWS1))),                    # identical-titles dimension only
}
QUICK_PAIRS = (("S", "S"), ("SS", "O2"), ("O2", "S+R(S)"), ("S+R(S)", "SS"), ("bg:S,O1", "R(S,O1)"),
               ("R(S,O1)", "O1|1"), ("O1|1", "bg:S,O1"), ("S", "O1+R(O2)"), ("O1+R(O2)", "S"), ("R(S)+R(O1)", "SS"),
               ("O2", "R(S)+R(O1)"), ("E0|O2", "O1|E0,S"))
# pairs that get the container-level hook faults in the quick tier (feature faults in both files; a rule holding a plain
# scenario in f0, a rule holding a scenario and an outline row in f1)
QUICK_FAULT_PAIRS = (("S", "S"), ("S+R(S)", "O2"), ("S", "R(S,O1)"), ("R(S)+R(S,O1)", "S"))
RULE_FAULTS_ONLY = (("R(S)+R(S,O1)", "S"),)      # quick: this pair gets the rule-level faults only
# identical-titles dimension: every Scenario / Scenario Outline / Rule / Examples title of both files is the same text, so
# namesakes exist among plain scenarios, between a feature-level scenario and one in a rule, in two different rules, and
# among outline rows (two same-named outlines generate identical row names "same -- @1.1 same")
DUP_PAIRS = (("SS", "S+R(S)"), ("R(S)+R(S)", "O1,O1"), ("O1+R(O2)", "SS"))
DUP_PAIRS_THOROUGH = DUP_PAIRS + (("S,O2+R(S,O1)", "S"), ("bg:S,O1", "R(S,O1)"), ("O2", "R(S)+R(O1)"))
THOROUGH_PAIRS = QUICK_PAIRS + (("SS", "SS"), ("O2", "O2"), ("O1+R(O2)", "R(S,O1)"), ("S", "S,O2+R(S,O1)"),
                                ("S,O2+R(S,O1)", "S"), ("R(S)+R(O1)", "O1+R(O2)"), ("O1|E0,S", "S+R(E0|O1)"))


# ------------------------------------------------------------------------------------------- program construction
def nslots(shape):
    return sum(1 for _ in P.walk_scenarios((shape,)))


def fill(node, it):
    """assign kinds (consumed from `it` in run order) to the scenario slots of an all-pass shape"""
    items = []
    for x in node[3]:
        if x[0] == "S":
            k = next(it)
            items.append(("S", tuple(x[1]) + (("x",) if k == "desel" else ()), (STEP[k],)))
        elif x[0] == "O":
            ks = [[next(it) for _ in rows] for _, rows in x[3]]
            anyd = any(k == "desel" for rk in ks for k in rk)
            blocks = []
            for (extags, _rows), rk in zip(x[3], ks):
                blocks.append((extags, tuple((STEP[k],) + ((("x" if k == "desel" else "k"),) if anyd else ())
                                             for k in rk)))
            items.append(("O", tuple(x[1]) + ((P.PTAG,) if anyd else ()), 1, tuple(blocks)))
        else:
            items.append(fill(x, it))
    return (node[0], node[1], node[2], tuple(items))


CTAG = "ct"          # tag put on the container whose after_tag / before_tag hook raises
FEATURE_HOOKS = ("after_feature", "after_tag", "before_feature", "before_tag")
RULE_HOOKS = ("after_rule", "after_tag", "before_rule", "before_tag")


def container_faults(shape0, shape1):
    """every single container-level hook fault: (container path, hook name)"""
    for fi, sh in enumerate((shape0, shape1)):
        for h in FEATURE_HOOKS:
            yield ((fi,), h)
        for k, x in enumerate(sh[3]):
            if x[0] == "R":
                for h in RULE_HOOKS:
                    yield ((fi, k), h)


def build(shape0, shape1, kinds, cfault=None):
    it = iter(kinds)
    prog = [fill(shape0, it), fill(shape1, it)]
    if cfault and cfault[1].endswith("_tag"):
        cp = cfault[0]
        f = prog[cp[0]]
        if len(cp) == 1:
            f = (f[0], f[1] + (CTAG,), f[2], f[3])
        else:
            items = list(f[3])
            r = items[cp[1]]
            items[cp[1]] = (r[0], r[1] + (CTAG,), r[2], r[3])
            f = (f[0], f[1], f[2], tuple(items))
        prog[cp[0]] = f
    prog = tuple(prog)
    paths = [p for p, _k, _i in P.walk_scenarios(prog)]
    assert len(paths) == len(kinds)
    return prog, paths


# bystander-tag dimension: tags that the anchored selection code treats specially (runner_util.build_feature exempts
# scenarios tagged @setup / @teardown from being marked skipped, as its docstring documents)
SPECIAL_TAGS = ("setup", "teardown")


def special_shapes():
    """(tag, level, feature shape): one element carrying a special tag - a plain scenario (first / middle / last of 6),
    a scenario outline with 2 rows (first / middle / last of 6 items), one of two Examples blocks of an outline, a
    scenario inside a rule (first / second / last of 4) - next to >= 5 untagged scenario slots"""
    for tag in SPECIAL_TAGS:
        for t in (0, 2, 5):
            yield tag, "scenario", _F(tuple(_S(tags=(tag,)) if i == t else _S() for i in range(6)))
        for t in (0, 2, 5):
            yield tag, "outline", _F(tuple(_O(ROWS2, tags=(tag,)) if i == t else _S() for i in range(6)))
        for b in (0, 1):
            blocks = [((tag,) if i == b else (), ROWS2) for i in (0, 1)]
            yield tag, "examples", _F((_S(), P.O2(blocks), _S(), _S(), _S()))
        for t in (0, 1, 3):
            yield tag, "scenario@rule", _F((_S(), _S(), _R(tuple(_S(tags=(tag,)) if i == t else _S() for i in range(4)))))


def special_of(prog):
    """-> (exempt scenario paths, (tag, level) | None) for a program built from special_shapes()"""
    exempt, what = set(), None
    for p, kind, info in P.walk_scenarios(prog):
        hit = [t for t in SPECIAL_TAGS if t in info["own"]]
        if hit:
            exempt.add(p)
            node = P.get(prog, p[:2])
            in_rule = node[0] == "R"
            if in_rule:
                node = node[3][p[2]]
            if node[0] == "S":
                level = "scenario"
            else:
                level = "outline" if hit[0] in node[1] else "examples"
            what = (hit[0], level + ("@rule" if in_rule else ""))
    return exempt, what


# switch-combination dimension: run 1 (and 2) under {no tags, --tags=t} x {show_skipped on, --no-skipped}; @t sits on
# exactly one element of each feature, so that with --tags=t only what that element covers is selected
_T = ("t",)
TAG_SHAPES = {
    "examples": _F((_S(), P.O2([(_T, ROWS2), ((), ROWS1)]))),          # rows selected ONLY through an Examples-block tag
    "outline": _F((_S(), _O(ROWS2, tags=_T))),
    "scenario": _F((_S(tags=_T), _S(), _O(ROWS1))),
    "rule": _F((_S(), _R((_S(), _O(ROWS1)), tags=_T))),
    "feature": _F((_S(), _O(ROWS1)), tags=_T),
    "examples@rule": _F((_S(), _R((P.O2([(_T, ROWS1), ((), ROWS1)]),)))),
}
TAG_PAIRS = (("examples", "scenario"), ("outline", "rule"), ("feature", "examples@rule"))
SWITCHES = ((), ("--tags=t",), ("--no-skipped",), ("--tags=t", "--no-skipped"))


def tag_level(feature):
    """where @t sits in a TAG_SHAPES feature (None when it has no @t)"""
    for name, shp in TAG_SHAPES.items():
        if _strip(shp) == _strip(feature) and _where_t(shp) == _where_t(feature):
            return name
    return None


def _strip(node):
    """shape skeleton: kinds and outcomes removed"""
    if node[0] == "S":
        return ("S",)
    if node[0] == "O":
        return ("O", tuple(len(rows) for _t, rows in node[3]))
    return (node[0], tuple(_strip(x) for x in node[3]))


def _where_t(node, path=()):
    out = []
    if "t" in node[1]:
        out.append(path)
    if node[0] == "O":
        for b, (extags, _rows) in enumerate(node[3]):
            if "t" in extags:
                out.append(path + ("ex", b))
    elif node[0] in ("F", "R"):
        for k, x in enumerate(node[3]):
            out.extend(_where_t(x, path + (k,)))
    return out


_TITLE = re.compile(r"^(\s*(?:Scenario Outline|Scenario|Rule|Examples):).*$")


def same_titles(text):
    """give every Scenario / Scenario Outline / Rule / Examples line the title 'same' (line numbers are unchanged)"""
    return "\n".join(_TITLE.sub(lambda mo: mo.group(1) + " same", line) for line in text.split("\n"))


# how the rerun file reaches run 2 (the `feed` element of a case)
FEEDS = {0: "@rerun.txt", 1: "file:line arguments", 2: "whole-file location of a third feature, then @rerun.txt",
         3: "list file: whole-file entry of a third feature, then the rerun entries", 4: "@rerun.txt, then a whole-file location"}
FEED_KEY = {2: "wholefile-before", 3: "listfile-wholefile-first", 4: "wholefile-after"}
XDIR, XFILE, LISTFILE = "extra", "extra/f2.feature", "feeds.txt"
XFEATURE = _F((_S(), _O(ROWS1)))          # the third feature (never part of run 1): all of it runs when named whole


# directory layout (the `layout` element of a case): the scratch root holds the working directory `proj` and the feature
# directory - below the cwd, in an unrelated sibling, in siblings whose NAME EXTENDS the cwd's name - addressed in run 1 by a
# relative path, an absolute path, or a path with a `..` detour
CWDNAME = "proj"
LAYOUT_WHERE = {"below": "proj/features", "shared": "shared/features", "ext.": "proj.shared/features",
                "ext2": "proj2/features"}
LAYOUT_HOW = ("rel", "abs", "dotdot")
DEFAULT_LAYOUT = ("below", "rel")


def features_rel(where):
    """the feature directory as seen from the cwd (the name every location must carry)"""
    return os.path.relpath("/x/" + LAYOUT_WHERE[where], "/x/" + CWDNAME)


def fname(fi, where="below"):
    return "%s/f%d.feature" % (features_rel(where), fi)


def _lookup(table, filename, line):
    """(filename, line) -> path; falls back to the file's base name (f0/f1/f2.feature are unique), so that a location with a
    wrong directory part is judged by the listing oracle and does not derail the harness"""
    hit = table.get((filename, line))
    if hit is None:
        hit = table.get(("*/" + os.path.basename(filename), line))
    return hit


# ------------------------------------------------------------------------------------------- one real run
def _read_rerun():
    if not os.path.exists(RERUN):
        return None
    with io.open(RERUN, encoding="utf-8") as fh:
        return fh.read()


def one_run(m, args, loc2path, faults, loc2cont=None, cfault=None, feedback=False, post=0):
    """Configuration(args) -> collect_feature_locations(config.paths) -> parse_features -> make_formatters ->
    ModelRunner.run(), i.e. what behave.runner.Runner.run_with_paths does, with an own StepRegistry and hooks dict."""
    from behave.runner_util import parse_features, collect_feature_locations
    from behave.formatter._registry import make_formatters
    obs = {"escaped": None, "feed_exc": None, "verdict": None, "status": {}, "selected": {}, "calls": [], "before": [],
           "after": [], "unknown": [], "present": [], "chooks": [], "cstatus": {}, "mstatus": {},
           "cleanups": []}
    live = {}            # file:line -> the scenario object that was really executed (kept at execution time)
    config = m["Configuration"](list(args), load_config=False)
    try:
        locations = collect_feature_locations(config.paths)
        feats = parse_features(locations, language=config.lang)
    except Exception as e:                                     # noqa
        obs["feed_exc"] = "%s: %s" % (type(e).__name__, str(e)[:160])
        return obs
    def path_of(s):
        hit = _lookup(loc2path, s.location.filename, s.line)
        return "?" if hit is None else hit

    for f in feats:
        obs["present"].append(f.filename)
        if feedback:
            # the selection made by parse_features (which has walked - and thereby built - the outline rows itself).
            # A first run must NOT be walked before it starts: real runs start with outlines whose rows are not built yet
            for s in f.walk_scenarios():
                obs["selected"][path_of(s)] = not s.should_skip
    conts = []
    for f in feats:
        for c in [f] + [x for x in f.run_items if isinstance(x, m["Rule"])]:
            cp = _lookup(loc2cont or {}, c.location.filename, c.line)
            if cp is None:
                obs["unknown"].append(str(c.location))
            else:
                conts.append((cp, c))
    cont_id = {id(c): cp for cp, c in conts}
    reg = m["StepRegistry"]()

    def make_step(kind):
        def step_impl(ctx, n):
            obs["calls"].append((path_of(ctx.scenario), n))
            if kind == "fail":
                assert False, "boom %d" % n
            if kind == "error":
                raise RuntimeError("err %d" % n)
            if kind == "pending":
                raise m["StepNotImplementedError"]("pending %d" % n)
            if kind == "cleanup":
                ctx.add_cleanup(raising_cleanup, n)
            if kind == "cleanupf":
                ctx.add_cleanup(raising_cleanup, n, layer="feature")
        step_impl.__name__ = "step_" + kind
        return step_impl

    def raising_cleanup(n):
        obs["cleanups"].append(n)
        raise RuntimeError("cleanup %d failed" % n)
    for kind in ("pass", "fail", "error", "pending", "cleanup", "cleanupf"):
        reg.add_step_definition("step", "step {n:d} %s" % kind, make_step(kind))

    def before_scenario(ctx, scenario):
        p = path_of(scenario)
        live[p] = scenario
        obs["before"].append(p)
        if faults.get(p) == "hookb":
            raise harness.HookFault("before_scenario fault")

    def after_scenario(ctx, scenario):
        p = path_of(scenario)
        obs["after"].append(p)
        if faults.get(p) == "hooka":
            raise harness.HookFault("after_scenario fault")

    def container_hook(name):
        def hook(ctx, entity):
            cp = cont_id.get(id(entity), "?")
            obs["chooks"].append((name, cp))
            if cfault == (cp, name):
                raise harness.HookFault("%s fault" % name)
        hook.__name__ = name
        return hook

    def tag_hook(name):
        def hook(ctx, tag):
            if tag == CTAG:
                obs["chooks"].append((name, tag))
                if cfault and cfault[1] == name:
                    raise harness.HookFault("%s fault" % name)
        hook.__name__ = name
        return hook

    runner = m["ModelRunner"](config, feats, step_registry=reg)
    runner.hooks = {"before_scenario": before_scenario, "after_scenario": after_scenario,
                    "after_tag": tag_hook("after_tag"), "before_tag": tag_hook("before_tag")}
    for name in ("before_feature", "after_feature", "before_rule", "after_rule"):
        runner.hooks[name] = container_hook(name)
    runner.formatters = make_formatters(config, config.outputs)
    try:
        obs["verdict"] = bool(runner.run())
    except BaseException as e:                                 # noqa - nothing may escape
        obs["escaped"] = "%s: %s" % (type(e).__name__, str(e)[:160])
    # formatter-object history after the run, on the object the run used: read the public failed_scenarios, then close()
    # it `post` more times (a defensive clean-up by whoever owns the formatters); the file is read after every step
    obs["fs_after"], obs["file_after"] = None, [_read_rerun()]
    for fmt in runner.formatters:
        if type(fmt).__name__ == "RerunFormatter":
            obs["fs_after"] = [path_of(x) for x in fmt.failed_scenarios]
            for _i in range(post):
                try:
                    fmt.close()
                except Exception as e:                         # noqa
                    obs["file_after"].append("close() raised %s: %s" % (type(e).__name__, str(e)[:120]))
                    break
                obs["file_after"].append(_read_rerun())
    for f in feats:
        for s in f.walk_scenarios():
            p = path_of(s)
            if p == "?":
                obs["unknown"].append(str(s.location))
            else:
                obs["mstatus"][p] = s.status.name
    # ground truth: how the scenarios that were executed ended, read from the objects the runner handed to the
    # before_scenario hook; the model walked after the run only speaks for scenarios that were never started
    obs["status"] = dict(obs["mstatus"])
    for p, s in live.items():
        if p != "?":
            obs["status"][p] = s.status.name
    obs["fstatus"] = {f.filename: f.status.name for f in feats}
    for cp, c in conts:
        obs["cstatus"][cp] = c.status.name
    return obs


def read_listing(v, hist):
    """-> (text | None, entries [(filename, line)])   independent reading of the rerun file"""
    if not os.path.exists(RERUN):
        return None, []
    with io.open(RERUN, encoding="utf-8") as fh:
        text = fh.read()
    entries = []
    for raw in text.splitlines():
        line = raw.strip()
        if not line or line.startswith("#"):
            continue
        name, sep, num = line.rpartition(":")
        if not sep or not num.isdigit():
            v.append(({"subcheck": "rerun.listing", "clause": "unparsable-entry"},
                      "%s: rerun file line %r is not filename:line" % (hist, raw)))
            continue
        entries.append((os.path.normpath(name), int(num)))
    return text, entries


def klass(status):
    return "failed" if status == "failed" else "error" if status in ERRC else status


def check_listing(v, hist, status, order, path2loc, loc2path, text, entries, stale_text, fstatus, tagon=None, forced=()):
    """the listing clause of the statement for one run; returns the expected entries.
    Trigger class of a missing entry: "error" when the scenario's own final status or the final status of its
    feature is error-class (one class: an error-class status is involved), otherwise "failed"."""
    expected = [path2loc[p] for p in order if klass(status.get(p, "absent")) in ("failed", "error")]
    where = "%s: statuses %s" % (hist, [(path2loc[p][0][-10:], path2loc[p][1], status.get(p, "absent")) for p in order])
    if not expected:
        if text is not None:
            clause = "stale-file-kept" if text == stale_text else "file-written-without-unsuccessful"
            v.append(({"subcheck": "rerun.listing", "clause": clause},
                      "%s; no scenario failed/errored but %s exists:\n%s" % (where, RERUN, text)))
        return expected
    for e in expected:
        if e not in entries:
            p = loc2path[e]
            fst = fstatus.get(e[0], "absent")
            cls = "error" if "error" in (klass(status[p]), klass(fst)) else klass(status[p])
            desc = {"subcheck": "rerun.listing", "clause": "missing", "status_class": cls}
            if fst == "hook_error":          # only a feature-level hook fault gives a feature this status
                desc["feature_status"] = fst
            if any(status.get(q) == "untested" for q in order[:order.index(p)] if path2loc[q][0] == e[0]):
                desc["preceded_by"] = "untested-scenario"      # statuses are not monotone along the file
            if p in forced:                  # status fixed by the kind `cleanup`, the model says otherwise
                desc["status_from"] = "raising-scenario-cleanup"
            if tagon and tagon.get(e[0]):    # switch-combination programs: where @t sits in that feature
                desc["tag_on"] = tagon[e[0]]
            v.append((desc,
                      "%s; %s:%d (status %s, in a feature with status %s) is not listed; %s"
                      % (where, e[0], e[1], status[p], fst,
                                                                   "file content:\n" + text if text is not None
                                                                   else "NO %s was written" % RERUN)))
    for e in entries:
        if e not in expected:
            p = loc2path.get(e)
            st = status.get(p, "absent") if p is not None else "no-such-scenario"
            v.append(({"subcheck": "rerun.listing", "clause": "extra", "status_class": klass(st)},
                      "%s; %s:%d (status %s) is listed; file content:\n%s" % (where, e[0], e[1], st, text)))
    if entries != expected and sorted(entries) == sorted(expected):
        v.append(({"subcheck": "rerun.listing", "clause": "order"},
                  "%s; listed %s, run order is %s" % (where, entries, expected)))
    elif entries != expected and set(entries) == set(expected):
        v.append(({"subcheck": "rerun.listing", "clause": "duplicate"},
                  "%s; listed %s, expected %s" % (where, entries, expected)))
    return expected


def elem_class(path, prog):
    """minimal trigger class of a scenario slot: plain scenario / outline row, inside / outside a rule"""
    node = P.get(prog, path[:2])
    in_rule = node[0] == "R"
    if in_rule:
        node = node[3][path[2]]
    return ("row" if node[0] == "O" else "scenario") + ("@rule" if in_rule else "")


# ------------------------------------------------------------------------------------------- the case function
def rerun_case(case):
    """case = (shape0, shape1, kinds, stale[, cfault[, dup[, feed]]])   cfault = None | (container path, hook name);
    dup = 1: all scenario / outline / rule / examples titles identical; feed = 1: the entries of the rerun file are given
    to run 2 as file:line command-line arguments instead of '@rerun.txt', feed = 2/3/4: see FEEDS (a whole-file location of a third
    feature, extra/f2.feature, before / in a list file before / after the rerun entries); opts = extra command-line switches of both runs
    (a subset of --tags=t, --no-skipped; shapes from TAG_SHAPES); layout = (where, how): see LAYOUT_WHERE / LAYOUT_HOW;
    post = number of further close() calls on the RerunFormatter object after each run"""
    shape0, shape1, kinds, stale = case[:4]
    cfault = case[4] if len(case) > 4 else None
    dup = case[5] if len(case) > 5 else 0
    feed = case[6] if len(case) > 6 else 0
    opts = tuple(case[7]) if len(case) > 7 else ()
    where, how = tuple(case[8]) if len(case) > 8 else DEFAULT_LAYOUT
    post = case[9] if len(case) > 9 else 0

    def fn(fi):
        return fname(fi, where)
    m = harness._imp()
    harness.reset_globals()
    prog, order = build(shape0, shape1, kinds, cfault)
    kind_of = dict(zip(order, kinds))
    exempt, special = special_of(prog)
    tagsel = "--tags=t" in opts
    efftags = {p: info["tags"] for p, _k, info in P.walk_scenarios(prog)}
    tagon = {fn(fi): tag_level(f) for fi, f in enumerate(prog)} if opts else None
    faults = {p: k for p, k in kind_of.items() if k in ("hookb", "hooka")}
    v = []
    d = tempfile.mkdtemp(prefix="c17_%d_" % os.getpid(), dir="/dev/shm" if os.path.isdir("/dev/shm") else None)
    cwd = os.getcwd()
    root = logging.getLogger()
    saved_handlers, saved_level = list(root.handlers), root.level
    old_out, old_err = sys.stdout, sys.stderr
    sys.stdout = io.StringIO()
    sys.stderr = io.StringIO()
    try:
        os.mkdir(os.path.join(d, CWDNAME))
        os.chdir(os.path.join(d, CWDNAME))
        os.makedirs(os.path.join(d, LAYOUT_WHERE[where]))
        fdir = features_rel(where)
        path2loc, loc2path, loc2cont = {}, {}, {}
        for fi, f in enumerate(prog):
            text, meta = P.render(f, fi)
            if dup:
                text = same_titles(text)
            with io.open(fn(fi), "w", encoding="utf-8") as fh:
                fh.write(text)
            for key in (fn(fi), "*/f%d.feature" % fi):
                loc2cont[(key, meta["lines"][(fi,)])] = (fi,)
                for k, x in enumerate(f[3]):
                    if x[0] == "R":
                        loc2cont[(key, meta["lines"][(fi, k)])] = (fi, k)
            for p in order:
                if p[0] == fi:
                    path2loc[p] = (fn(fi), meta["lines"][p])
                    loc2path[path2loc[p]] = p
                    loc2path[("*/f%d.feature" % fi, meta["lines"][p])] = p
        xpaths, xcalls = [], []
        if feed >= 2:
            os.mkdir(XDIR)
            text, meta = P.render(XFEATURE, 2)
            with io.open(XFILE, "w", encoding="utf-8") as fh:
                fh.write(text)
            loc2cont[(XFILE, meta["lines"][(2,)])] = (2,)
            for p0, _k, info in P.walk_scenarios((XFEATURE,)):
                p = (2,) + p0[1:]
                xpaths.append(p)
                path2loc[p] = (XFILE, meta["lines"][p])
                loc2path[path2loc[p]] = p
                xcalls.extend((p, sid) for sid, _o in info["steps"])
        stale_text = None
        if stale:
            stale_text = (u"# -- RERUN: 1 failing scenarios during last test run.\n# (stale: written before run 1)\n"
                          u"%s:%d\n\n" % path2loc[order[0]])
            with io.open(RERUN, "w", encoding="utf-8") as fh:
                fh.write(stale_text)
        base = ["--no-summary", "-f", "rerun", "-o", RERUN]
        if "desel" in kinds:
            base.append("--tags=not x")
        base.extend(opts)

        # ---------------- run 1
        arg1 = {"rel": fdir, "abs": os.path.join(d, LAYOUT_WHERE[where]),
                "dotdot": os.path.join(os.pardir, CWDNAME, fdir)}[how]
        o1 = one_run(m, base + [arg1], loc2path, faults, loc2cont, cfault, post=post)
        if o1["feed_exc"] or o1["escaped"] or o1["unknown"]:
            v.append(({"subcheck": "run", "clause": "exception-escapes-run" if o1["escaped"] else "harness-premise",
                       "exc": (o1["escaped"] or o1["feed_exc"] or "location").split(":")[0]},
                      "run 1: escaped=%s feed=%s unknown locations=%s" % (o1["escaped"], o1["feed_exc"], o1["unknown"])))
            return {"v": v, "dg": repr(o1), "out": "broken-run"}
        st1 = o1["status"]
        cut = cfault[0] if cfault and cfault[1].startswith("before_") else None     # nothing inside it may run
        if cfault:
            fired = [h for h in o1["chooks"] if h == ((cfault[1], CTAG) if cfault[1].endswith("_tag") else
                                                      (cfault[1], cfault[0]))]
            if len(fired) != 1 or o1["cstatus"].get(cfault[0]) != "hook_error":
                v.append(({"subcheck": "run.status", "clause": "container-fault-premise", "hook": cfault[1],
                           "level": "feature" if len(cfault[0]) == 1 else "rule"},
                          "run 1: fault %r fired %d times, container status %s, hooks %s"
                          % (cfault, len(fired), o1["cstatus"].get(cfault[0]), o1["chooks"])))
        for p in order:
            if cut is not None and p[:len(cut)] == cut:
                if st1.get(p) not in ("untested", "skipped"):
                    v.append(({"subcheck": "run.status", "clause": "ran-after-failed-before-hook", "hook": cfault[1],
                               "status": str(st1.get(p))},
                              "run 1: scenario %r ended %s although %s raised" % (p, st1.get(p), cfault[1])))
            elif tagsel and "t" not in efftags[p]:
                if st1.get(p) != "skipped":
                    v.append(({"subcheck": "run.status", "clause": "untagged-not-skipped-under-tags",
                               "status": str(st1.get(p))},
                              "run 1 %s: scenario %r has no @t but ended %s" % (list(opts), p, st1.get(p))))
            elif st1.get(p) not in EXPECT[kind_of[p]]:
                v.append(({"subcheck": "run.status", "clause": "kind-gives-other-status", "kind": kind_of[p],
                           "status": str(st1.get(p))},
                          "run 1: scenario %r of kind %s ended %s" % (p, kind_of[p], st1.get(p))))
        forced = set()
        for p in order:
            if kind_of[p] == "cleanup" and p in o1["before"] and klass(st1.get(p)) != "error":
                # the kind fixes the truth: its scenario-layer cleanup raised (the premise check above has reported that the
                # scenario object says otherwise); the listing oracle below works with the status the rule gives
                st1 = dict(st1)
                st1[p] = "error"
                forced.add(p)
        for p in order:
            if p in o1["before"] and o1["mstatus"].get(p) != o1["status"].get(p):
                v.append(({"subcheck": "run.model", "clause": "walked-model-differs-from-executed-scenario",
                           "elem": elem_class(p, prog)},
                          "run 1: scenario %r was executed and ended %s, feature.walk_scenarios() afterwards yields a "
                          "scenario at that location with status %s" % (p, st1.get(p), o1["mstatus"].get(p))))
        nv1 = len(v)
        if len(set(o1["file_after"])) > 1:
            fa = o1["file_after"]
            k = [i for i in range(1, len(fa)) if fa[i] != fa[0]][0]
            v.append(({"subcheck": "rerun.formatter-object", "clause": "repeated-close-changes-file",
                       "file_then": "absent" if fa[k] is None else "raised" if fa[k].startswith("close() raised")
                       else "other-content", "file_first": "absent" if fa[0] is None else "written"},
                      "run 1 kinds=%s stale=%s: after the run %s was %s; after close() number %d on the same RerunFormatter "
                      "object it is %s" % (list(kinds), stale, RERUN, "absent" if fa[0] is None else "written:\n" + fa[0],
                                           k + 1, "absent" if fa[k] is None else ":\n" + fa[k])))
        text1, entries1 = read_listing(v, "run 1")
        if text1 != stale_text:
            for e in entries1:
                if not os.path.isfile(e[0]):
                    v.append(({"subcheck": "rerun.listing", "clause": "listed-file-does-not-exist"},
                              "run 1 (features in %s, given as %r, cwd %s): the rerun file names %s, which does not exist "
                              "relative to the directory the file is fed back from; file content:\n%s"
                              % (LAYOUT_WHERE[where], arg1, CWDNAME, e[0], text1)))
                    break
        expected1 = check_listing(v, "run 1 %skinds=%s stale=%s cfault=%s" % (opts and "%s " % list(opts) or "", list(kinds),
                                                                          stale, cfault), st1, order,
                                  path2loc, loc2path,
                                  text1, entries1, stale_text, o1["fstatus"], tagon, forced)

        # (what the formatter's own `failed_scenarios` attribute holds after the run is NOT judged: the statement
        #  speaks of the rerun FILE and of feeding it back - the attribute stays in the determinism digest only)
        if False and len(v) == nv1 and o1["fs_after"] is not None:
            want_fs = [p for p in order if klass(st1.get(p, "absent")) in ("failed", "error")]
            if o1["fs_after"] != want_fs:
                v.append(({"subcheck": "rerun.formatter-object", "clause": "failed_scenarios-after-run",
                           "got": "empty" if not o1["fs_after"] else "other"},
                          "run 1 kinds=%s: the file is right, but formatter.failed_scenarios read after the run names %s, "
                          "unsuccessful scenarios (run order) are %s" % (list(kinds), o1["fs_after"], want_fs)))
        # ---------------- feed the file back: selection and second run
        o2 = None
        text2 = None
        resolvable = bool(entries1) and all(e in loc2path for e in entries1)
        if text1 is not None and text1 != stale_text and resolvable:
            # oracle relative to the file's content: the scenarios its entries name (each entry is a scenario line)
            listed = []
            for e in entries1:
                if loc2path[e] not in listed:
                    listed.append(loc2path[e])
            if feed == 1:
                feed_args = ["%s:%d" % e for e in entries1]
            elif feed == 2:
                feed_args = [XFILE, "@" + RERUN]
            elif feed == 3:
                with io.open(LISTFILE, "w", encoding="utf-8") as fh:
                    fh.write(u"# whole file first, then the rerun entries\n%s\n%s" % (XFILE, text1))
                feed_args = ["@" + LISTFILE]
            elif feed == 4:
                feed_args = ["@" + RERUN, XFILE]
            else:
                feed_args = ["@" + RERUN]
            o2 = one_run(m, base + feed_args, loc2path, faults, loc2cont, cfault, feedback=True, post=post)
            hist = "run 2 on %s (%s) kinds=%s cfault=%s%s" % (" ".join(feed_args), entries1, list(kinds), cfault,
                                                             " special=%s" % (special,) if special else "")
            if o2["feed_exc"]:
                v.append(({"subcheck": "rerun.feedback", "clause": "exception", "exc": o2["feed_exc"].split(":")[0]},
                          "%s: reading the rerun file back raised %s; file:\n%s" % (hist, o2["feed_exc"], text1)))
            elif o2["escaped"] or o2["unknown"]:
                v.append(({"subcheck": "run", "clause": "exception-escapes-run" if o2["escaped"] else "harness-premise",
                           "exc": (o2["escaped"] or "location").split(":")[0]},
                          "%s: escaped=%s unknown locations=%s" % (hist, o2["escaped"], o2["unknown"])))
            else:
                nv = len(v)
                sel = o2["selected"]
                # scenarios tagged @setup/@teardown in a loaded feature stay selected, as build_feature documents
                also = [p for p in order if p in exempt and p in sel and p not in listed]
                leaked = []
                for p in order:
                    is_sel = sel.get(p, False)              # a feature that is not even parsed selects nothing
                    if p in also:
                        if not is_sel:
                            v.append(({"subcheck": "rerun.feedback", "clause": "exempt-tag-skipped",
                                       "tag": special[0], "tag_on": special[1]},
                                      "%s: %s:%d carries @%s but is marked should_skip" % (hist, path2loc[p][0],
                                                                                         path2loc[p][1], special[0])))
                        continue
                    if special and p not in listed and is_sel:
                        leaked.append(p)        # which ones leak may depend on set order: one aggregate violation
                        continue
                    if p in listed and not is_sel:
                        v.append(({"subcheck": "rerun.feedback", "clause": "listed-not-selected",
                                   "elem": elem_class(p, prog)},
                                  "%s: %s:%d is listed but %s" % (hist, path2loc[p][0], path2loc[p][1],
                                                                  "marked should_skip" if p in sel else
                                                                  "its feature file is not loaded")))
                    if p not in listed and is_sel:
                        v.append(({"subcheck": "rerun.feedback", "clause": "unlisted-selected",
                                   "elem": elem_class(p, prog)},
                                  "%s: %s:%d is not listed but not marked should_skip" % (hist, path2loc[p][0],
                                                                                          path2loc[p][1])))
                for p in xpaths:
                    if not sel.get(p, False):
                        v.append(({"subcheck": "rerun.feedback", "clause": "wholefile-scenario-not-selected"},
                                  "%s: %s:%d belongs to the feature named without a line but %s"
                                  % (hist, path2loc[p][0], path2loc[p][1],
                                     "is marked should_skip" if p in sel else "its feature file is not loaded")))
                if leaked:
                    v.append(({"subcheck": "rerun.feedback", "clause": "unlisted-selected", "bystander_tag": special[0],
                               "tag_on": special[1]},
                              "%s: scenarios without @setup/@teardown that are not listed are not marked should_skip: %s"
                              % (hist, ["%s:%d" % path2loc[p] for p in leaked])))
                st2 = o2["status"]
                wanted = listed + also + xpaths
                # the second run is only judged when the selection was right (otherwise it repeats the same alarm);
                # the statement does not fix an order for run 2: compared as multisets (each listed scenario once)
                if len(v) == nv and sorted(o2["before"]) != sorted(wanted):
                    extra = [p for p in o2["before"] if p not in wanted]
                    lost = [p for p in wanted if p not in o2["before"]]
                    clause = "executed-unlisted" if extra else "listed-not-executed" if lost else "executed-twice"
                    cls = elem_class((extra or lost or listed)[0], prog) if not special else "with-@%s" % special[0]
                    v.append(({"subcheck": "rerun.second-run", "clause": clause, "elem": cls},
                              "%s: before_scenario called for %s, listed %s (+ @setup/@teardown: %s)"
                              % (hist, o2["before"], listed, also)))
                want_calls = [c for c in o1["calls"] if c[0] in wanted] + xcalls
                if len(v) == nv and sorted(o2["calls"]) != sorted(want_calls):
                    v.append(({"subcheck": "rerun.second-run", "clause": "step-call-log"},
                              "%s: step calls %s, run-1 calls of the listed scenarios %s" % (hist, o2["calls"],
                                                                                            want_calls)))
                if len(v) == nv:
                    for p in xpaths:
                        if st2.get(p) != "passed":
                            v.append(({"subcheck": "rerun.second-run", "clause": "wholefile-scenario-not-passed",
                                       "status": str(st2.get(p))},
                                      "%s: scenario %r of the whole-file feature ended %s" % (hist, p, st2.get(p))))
                    for p in order:
                        if p in wanted:
                            if st2.get(p) != st1[p]:
                                v.append(({"subcheck": "rerun.second-run", "clause": "listed-status-differs",
                                           "elem": elem_class(p, prog), "status": str(st2.get(p))},
                                          "%s: listed scenario %r ended %s in run 1 and %s in run 2"
                                          % (hist, p, st1[p], st2.get(p))))
                        elif p in st2 and st2[p] != "skipped":
                            v.append(({"subcheck": "rerun.second-run", "clause": "unlisted-not-skipped",
                                       "elem": elem_class(p, prog), "status": st2[p]},
                                      "%s: scenario %r is not listed but ended %s" % (hist, p, st2[p])))
                text2, entries2 = read_listing(v, "run 2")
                if len(v) == nv:
                    # the statement applied to run 2 (its run order: features in the order the file names them)
                    forder = []
                    for e in entries1:
                        if e[0] not in forder:
                            forder.append(e[0])
                    order2 = [p for f in forder for p in order if path2loc[p][0] == f]
                    check_listing(v, hist, {p: st2.get(p, "absent") for p in order}, order2, path2loc, loc2path,
                                  text2, entries2, None, o2["fstatus"], tagon)
        n_unsucc = len(expected1)
        nt = None
        if (0 < n_unsucc < len(order)) or (n_unsucc == 0 and stale):
            nt = digest(case)
        out = (tuple(sorted(set(st1.values()))), min(n_unsucc, 3), text1 is not None, bool(stale), o2 is not None,
               cfault and (cfault[1], "feature" if len(cfault[0]) == 1 else "rule"), int(bool(dup)),
               special and special + (feed,), opts and ("+".join(o.strip("-").split("=")[0] for o in opts),
                                                        tuple(sorted(set(tagon.values()), key=str))), feed,
               "+".join(sorted(set(k for k in kinds if k in CLEANUP_KINDS))) or None,
               (where, how) if (where, how) != DEFAULT_LAYOUT else None, post)
        # special-tag programs: what happens to the untagged unlisted scenarios is judged by the oracle, but a defect there
        # may depend on set iteration order, so those scenarios stay out of the determinism digest
        keep = set(order) if not special else set(p for p in order if p in exempt or st1.get(p) != "passed")
        keep |= set(xpaths)
        dg = (o1["fs_after"], o1["file_after"], o2 and (o2["fs_after"], o2["file_after"]),
              text1, sorted(st1.items()), o1["calls"], o1["before"], o1["after"], o1["chooks"], sorted(o1["cstatus"].items()),
              o1["cleanups"],
              o2 and (sorted(x for x in o2["selected"].items() if x[0] in keep),
                      sorted(x for x in o2["status"].items() if x[0] in keep),
                      [c for c in o2["calls"] if c[0] in keep], [p for p in o2["before"] if p in keep]), text2)
        res = {"v": v, "nt": nt, "out": out, "dg": dg, "n": 1 if o2 is None else 2}
    finally:
        sys.stdout, sys.stderr = old_out, old_err
        root.handlers[:] = saved_handlers
        root.setLevel(saved_level)
        os.chdir(cwd)
        shutil.rmtree(d, ignore_errors=True)
    if dup and res["v"]:
        # trigger class: the identical titles, if the same program with distinct titles is clean
        plain = rerun_case((shape0, shape1, kinds, stale, cfault, 0))
        if not plain["v"]:
            res["v"] = [(dict(desc, titles="identical"), "identical titles: " + msg) for desc, msg in res["v"]]
    if opts and res["v"]:
        # trigger class: the switch combination, if the same program without the switches is clean
        plain = rerun_case((shape0, shape1, kinds, stale, cfault, dup, feed, ()))
        if not plain["v"]:
            sw = "+".join(o.strip("-").split("=")[0] for o in opts)
            res["v"] = [(dict(desc, switches=sw), msg) for desc, msg in res["v"]]
    if feed >= 2 and res["v"]:
        # trigger class: the whole-file location next to the rerun entries, if '@rerun.txt' alone is clean
        plain = rerun_case((shape0, shape1, kinds, stale, cfault, dup, 0, opts))
        if not plain["v"]:
            res["v"] = [(dict(desc, feed=FEED_KEY[feed]), msg) for desc, msg in res["v"]]
    if (where, how) != DEFAULT_LAYOUT and res["v"]:
        # trigger class: the directory layout, if the same case with the features below the cwd is clean
        plain = rerun_case((shape0, shape1, kinds, stale, cfault, dup, feed, opts, DEFAULT_LAYOUT))
        if not plain["v"]:
            res["v"] = [(dict(desc, layout=where), msg) for desc, msg in res["v"]]
    if post and res["v"]:
        # trigger class: the repeated close(), if the same case with the runner's single close() is clean
        plain = rerun_case((shape0, shape1, kinds, stale, cfault, dup, feed, opts, (where, how), 0))
        if not plain["v"]:
            res["v"] = [(dict(desc, formatter_history="close x%d" % (post + 1)), msg) for desc, msg in res["v"]]
    return res


# ------------------------------------------------------------------------------------------- enumeration
def assignments(n, k):
    """all kind tuples of length n with exactly k non-pass slots"""
    for pos in itertools.combinations(range(n), k):
        for ks in itertools.product(NONPASS, repeat=k):
            t = ["pass"] * n
            for i, kd in zip(pos, ks):
                t[i] = kd
            yield tuple(t)


def cases(tier):
    quick = tier == "quick"
    pairs = QUICK_PAIRS if quick else THOROUGH_PAIRS
    bound = 2 if quick else 4
    fault_pairs = [(pr, 2) for pr in QUICK_FAULT_PAIRS] if quick else \
                  [(pr, 3 if pr in QUICK_PAIRS else 2) for pr in THOROUGH_PAIRS + QUICK_FAULT_PAIRS[1:]]
    rule_only = RULE_FAULTS_ONLY if quick else ()
    for ndev in range(0, bound + 1):            # simplest first over all pairs
        for a, b in pairs:
            s0, s1 = SHAPES[a], SHAPES[b]
            n = nslots(s0) + nslots(s1)
            for kinds in assignments(n, ndev):
                for stale in (0, 1):
                    yield (s0, s1, kinds, stale)
        # one container-level hook fault (feature / rule: after_X, after_tag, before_X) x the same scenario kinds;
        # with a stale file present (the harder case: it has to be replaced or removed)
        for (a, b), fault_bound in fault_pairs:
            if ndev > fault_bound:
                continue
            s0, s1 = SHAPES[a], SHAPES[b]
            n = nslots(s0) + nslots(s1)
            for cf in container_faults(s0, s1):
                if (a, b) in rule_only and len(cf[0]) != 2:
                    continue
                for kinds in assignments(n, ndev):
                    yield (s0, s1, kinds, 1, cf)
        # identical titles (namesakes differing in success), full history, stale file present
        for a, b in (DUP_PAIRS if quick else DUP_PAIRS_THOROUGH):
            if ndev > (2 if quick else 3):
                continue
            s0, s1 = SHAPES[a], SHAPES[b]
            for kinds in assignments(nslots(s0) + nslots(s1), ndev):
                yield (s0, s1, kinds, 1, None, 1)


def special_cases(tier):
    """both files get the same special shape; one unsuccessful scenario per file at every untagged slot in turn;
    fed back as '@rerun.txt' and as file:line arguments"""
    kinds_fail = ("fail", "error") if tier == "quick" else ("fail", "error", "undef", "hooka")
    for tag, level, shp in special_shapes():
        prog = (shp, shp)
        exempt, _what = special_of(prog)
        slots = [p for p, _k, _i in P.walk_scenarios((shp,))]
        free = [i for i, p in enumerate(slots) if p not in exempt]
        n = len(slots)
        for j, i in enumerate(free):
            for kd in (kinds_fail if j == 0 else kinds_fail[:1]):
                kinds = ["pass"] * (2 * n)
                kinds[i] = kd
                kinds[n + i] = kd
                for feed in (0, 1):
                    yield (shp, shp, tuple(kinds), 1, None, 0, feed)


def switch_cases(tier):
    """TAG_PAIRS x SWITCHES x kinds: <= 1 non-pass slot of every kind but desel, 2 non-pass slots of {fail} (thorough:
    {fail, error, hooka}); unsuccessful scenarios thus fall among the selected and among the de-selected ones"""
    kinds1 = [k for k in NONPASS if k != "desel"]
    kinds2 = ("fail",) if tier == "quick" else ("fail", "error", "hooka")
    for a, b in TAG_PAIRS:
        s0, s1 = TAG_SHAPES[a], TAG_SHAPES[b]
        n = nslots(s0) + nslots(s1)
        assigns = [("pass",) * n]
        for i in range(n):
            for kd in kinds1:
                assigns.append(tuple(kd if j == i else "pass" for j in range(n)))
        for i, j in itertools.combinations(range(n), 2):
            for k1 in kinds2:
                for k2 in kinds2:
                    assigns.append(tuple(k1 if x == i else k2 if x == j else "pass" for x in range(n)))
        for opts in SWITCHES:
            for kinds in assigns:
                yield (s0, s1, kinds, 1, None, 0, 0, opts)


def cleanup_cases(tier):
    """exactly one slot of kind cleanup / cleanupf, alone and next to <= 1 (thorough: <= 2) other non-pass slots"""
    quick = tier == "quick"
    others = ("fail", "error", "hooka", "desel") + CLEANUP_KINDS if quick else NONPASS + CLEANUP_KINDS
    for a, b in (QUICK_PAIRS if quick else THOROUGH_PAIRS):
        s0, s1 = SHAPES[a], SHAPES[b]
        n = nslots(s0) + nslots(s1)
        for nother in range(0, 2 if quick else 3):
            for i in range(n):
                rest = [x for x in range(n) if x != i]
                for ck in CLEANUP_KINDS:
                    for pos in itertools.combinations(rest, nother):
                        for ks in itertools.product(others, repeat=nother):
                            t = ["pass"] * n
                            t[i] = ck
                            for x, kd in zip(pos, ks):
                                t[x] = kd
                            yield (s0, s1, tuple(t), 1)


def history_cases(tier):
    """formatter-object histories: 1 or 2 further close() calls after each run; all-pass, every single non-pass slot, every
    pair of failing slots; stale file present and absent"""
    for a, b in (("S", "S"), ("SS", "O2")):
        s0, s1 = SHAPES[a], SHAPES[b]
        n = nslots(s0) + nslots(s1)
        assigns = list(assignments(n, 0)) + list(assignments(n, 1))
        for i, j in itertools.combinations(range(n), 2):
            assigns.append(tuple("fail" if x in (i, j) else "pass" for x in range(n)))
        if tier != "quick":
            assigns = list(assignments(n, 0)) + list(assignments(n, 1)) + list(assignments(n, 2))
        for post in (1, 2):
            for kinds in assigns:
                for stale in (0, 1):
                    yield (s0, s1, kinds, stale, None, 0, 0, (), DEFAULT_LAYOUT, post)


LAYOUT_PAIRS = (("SS", "O2"), ("S+R(S)", "SS"))


def layout_cases(tier):
    """every directory layout x way of addressing it (but the default, used everywhere else): <= 1 non-pass slot of every
    kind and every pair of failing slots (thorough: every assignment with <= 2 non-pass slots), full history"""
    for a, b in LAYOUT_PAIRS:
        s0, s1 = SHAPES[a], SHAPES[b]
        n = nslots(s0) + nslots(s1)
        assigns = list(assignments(n, 1))
        if tier == "quick":
            for i, j in itertools.combinations(range(n), 2):
                assigns.append(tuple("fail" if x in (i, j) else "pass" for x in range(n)))
        else:
            assigns.extend(assignments(n, 2))
        for where in ("below", "shared", "ext.", "ext2"):
            for how in LAYOUT_HOW:
                if (where, how) == DEFAULT_LAYOUT:
                    continue
                for kinds in assigns:
                    yield (s0, s1, kinds, 1, None, 0, 0, (), (where, how))


FEED_PAIRS = (("SS", "O2"), ("O2", "S+R(S)"), ("R(S,O1)", "O1|1"))


def feed_cases(tier):
    """the rerun entries next to a whole-file location (FEEDS 2, 3, 4): <= 1 non-pass slot of every kind and every pair of
    failing slots (thorough: every assignment with <= 2 non-pass slots)"""
    for a, b in FEED_PAIRS:
        s0, s1 = SHAPES[a], SHAPES[b]
        n = nslots(s0) + nslots(s1)
        assigns = list(assignments(n, 1))
        if tier == "quick":
            for i, j in itertools.combinations(range(n), 2):
                assigns.append(tuple("fail" if x in (i, j) else "pass" for x in range(n)))
        else:
            assigns.extend(assignments(n, 2))
        for feed in (2, 3, 4):
            for kinds in assigns:
                yield (s0, s1, kinds, 1, None, 0, feed)


def run(ctx):
    pairs = QUICK_PAIRS if ctx.quick else THOROUGH_PAIRS
    ctx.bounds = {"feature_files": 2, "shape_pairs": len(pairs), "max_nonpass_scenarios": 2 if ctx.quick else 4,
                  "kinds": len(KINDS), "stale_file": "present/absent (container-fault cases: present)",
                  "container_hook_faults": "every single one of after_feature/after_tag/before_feature/before_tag per "
                                           "feature and after_rule/after_tag/before_rule/before_tag per rule",
                  "container_fault_pairs": "4 pairs, <= 2 non-pass scenarios" if ctx.quick else
                                           "22 pairs, <= 3 non-pass scenarios on the 12 quick pairs, <= 2 on the others",
                  "identical_titles": "%d pairs, <= %d non-pass scenarios, all Scenario/Outline/Rule/Examples titles equal"
                                      % ((len(DUP_PAIRS), 2) if ctx.quick else (len(DUP_PAIRS_THOROUGH), 3)),
                  "special_bystander_tags": "@setup/@teardown on a scenario (3 positions), an outline (3 positions), an "
                                            "Examples block (2), a scenario in a rule (3); both files; every untagged "
                                            "slot unsuccessful in turn; fed back as @rerun.txt and as file:line arguments",
                  "switch_combinations": "3 pairs of @t placements (examples block, outline, scenario, rule, feature, "
                                         "examples block in a rule) x {no tags, --tags=t} x {show_skipped, --no-skipped}",
                  "feed_modes": "@rerun.txt alone (everywhere); file:line arguments (special-tag programs); 3 pairs x "
                                "{whole-file location of a third feature before @rerun.txt, list file starting with a "
                                "whole-file entry, whole-file location after @rerun.txt}",
                  "cleanup_kinds": "exactly one slot cleanup / cleanupf on every pair, alone and with <= %d other non-pass slots"
                                   % (1 if ctx.quick else 2),
                  "directory_layouts": "features below the cwd / in ../shared / in siblings whose name extends the cwd's name "
                                       "(../proj.shared, ../proj2) x addressed by relative, absolute and '..'-detour path; "
                                       "2 pairs; the rerun file stays in the cwd",
                  "formatter_object_histories": "failed_scenarios read after every run; on 2 pairs 1 and 2 further close() calls "
                                                "on the RerunFormatter object the run used, stale file present/absent",
                  "executions": "a case with a rerun file counts 2 (run + re-run), otherwise 1"}
    ctx.sweep(rerun_case, cases(ctx.tier), chunk=16, name="run -> rerun.txt -> run")
    ctx.sweep(rerun_case, special_cases(ctx.tier), chunk=8, name="bystanders tagged @setup/@teardown")
    ctx.sweep(rerun_case, switch_cases(ctx.tier), chunk=16, name="{--tags=t} x {--no-skipped} x @t placements")
    ctx.sweep(rerun_case, feed_cases(ctx.tier), chunk=16, name="rerun entries next to a whole-file location")
    ctx.sweep(rerun_case, cleanup_cases(ctx.tier), chunk=16, name="scenario kinds cleanup / cleanupf")
    ctx.sweep(rerun_case, layout_cases(ctx.tier), chunk=16, name="directory layouts x addressing")
    ctx.sweep(rerun_case, history_cases(ctx.tier), chunk=8, name="formatter object: repeated close()")
    kinds_seen = set()
    for (statuses, _n, _f, _s, _second, _cf, _dup, _sp, _sw, _feed, _cl, _lay, _post) in ctx.outcomes:
        kinds_seen |= set(statuses)
    for need in ("passed", "failed", "error", "hook_error", "skipped"):
        ctx.guard(need in kinds_seen, "scenario status %s occurred in run 1" % need)
    ctx.guard(kinds_seen & {"undefined", "pending"} or "error" in kinds_seen, "undefined/pending scenarios occurred")
    ctx.guard(any(o[4] for o in ctx.outcomes), "at least one run -> file -> run history executed")
    ctx.guard(any(o[1] == 0 and o[3] for o in ctx.outcomes), "a stale file had to be removed at least once")
    cfs = set(o[5] for o in ctx.outcomes if o[5])
    for lvl, hooks in (("feature", FEATURE_HOOKS), ("rule", RULE_HOOKS)):
        for h in hooks:
            ctx.guard((h, lvl) in cfs, "container fault %s at %s level exercised" % (h, lvl))
    ctx.guard(any(o[5] and o[5] == ("before_rule", "rule") and "untested" in o[0] and o[1] > 0 and o[4]
                  for o in ctx.outcomes),
              "a rule left untested by its failing before_rule hook next to unsuccessful scenarios; file fed back")
    ctx.guard(any(o[5] and o[5][0].startswith("after_") and o[1] > 0 and o[4] for o in ctx.outcomes),
              "a container with a raising after-hook held unsuccessful scenarios and the file was fed back")
    ctx.guard(any(o[6] and o[4] and o[1] > 0 for o in ctx.outcomes),
              "identical titles: a file naming some namesake scenarios was fed back")
    sws = set(o[8][0] for o in ctx.outcomes if o[8] and o[4] and o[1] > 0)
    for need in ("tags", "no-skipped", "tags+no-skipped"):
        ctx.guard(need in sws, "switch combination %s: unsuccessful scenarios listed and fed back" % need)
    ctx.guard(any(o[8] and o[8][0] == "tags+no-skipped" and "examples" in o[8][1] and "skipped" in o[0] and o[4]
                  for o in ctx.outcomes), "--tags=t --no-skipped with rows selected only through an Examples-block tag")
    ctx.guard(any(o[10] == "cleanup" and o[4] and o[1] > 0 for o in ctx.outcomes),
              "a scenario whose only problem is a raising scenario-layer cleanup was listed and fed back")
    ctx.guard(any(o[10] == "cleanupf" and o[1] == 0 and o[3] for o in ctx.outcomes),
              "a raising feature-layer cleanup as the only problem: no scenario to list, stale file to remove")
    for k in (1, 2):
        ctx.guard(any(o[12] == k and o[4] and o[1] > 0 for o in ctx.outcomes),
                  "%d further close() after a run with unsuccessful scenarios; file fed back" % k)
        ctx.guard(any(o[12] == k and o[1] == 0 and o[3] for o in ctx.outcomes),
                  "%d further close() after a run without unsuccessful scenarios and a stale file" % k)
    lays = set(o[11] for o in ctx.outcomes if o[11] and o[4] and o[1] > 0)
    for where in LAYOUT_WHERE:
        for how in LAYOUT_HOW:
            if (where, how) != DEFAULT_LAYOUT:
                ctx.guard((where, how) in lays, "layout %s addressed by %s: file written and fed back" % (where, how))
    for fd in (2, 3, 4):
        ctx.guard(any(o[9] == fd and o[4] and "passed" in o[0] for o in ctx.outcomes),
                  "fed back as: %s (with unlisted scenarios in the listed features)" % FEEDS[fd])
    sps = set(o[7] for o in ctx.outcomes if o[7] and o[4])
    for tag in SPECIAL_TAGS:
        for level in ("scenario", "outline", "examples", "scenario@rule"):
            for feed in (0, 1):
                ctx.guard((tag, level, feed) in sps, "bystander tagged @%s on %s fed back (%s)"
                          % (tag, level, "file:line arguments" if feed else "@rerun.txt"))
    ctx.guard(len(ctx.nt) >= (1000 if ctx.quick else 20000), "enough discriminating cases")
