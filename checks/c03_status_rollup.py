# -*- coding: utf-8 -*-
"""C03 - status roll-up follows the documented table (E4 status algebra + forced child tuples, E1 real runs, E2 retries)."""
import itertools, re, os, sys, io
from vlib import prog as P, runcases, refrun, harness
from vlib.refrun import accept, ERRC, UNT, PASSL
from vlib.core import digest, repo_dir

PROPERTY = "C03"
LEVEL = "exploration"
RULE = ("(1) status algebra: all 17 members of Status - partition into passed-like/failure/error/skipped/untested, "
        "has_failed == is_error or is_failure, OuterStatus/ScenarioStatus vs. the table parsed from docs/appendix.status.rst; "
        "(2) compute_status of real Scenario / Feature / Rule / ScenarioOutline objects on ALL forced child-status tuples up "
        "to length 3 (steps, 11 statuses) / 4 (containers, 6 statuses) [thorough: 4 / 6] against the clause-by-clause "
        "accept-set of the statement; tuples no single run can produce are reported in the evidence but do not fail; "
        "(3) every element status after every real run of C01's enumeration (outcome deviations x configs, hook and "
        "cleanup faults, --stop/abort remainders, never-started features, de-selected elements) must lie in the accept-set "
        "computed from its actual children; auto-retry and plain re-run histories with a different outcome per attempt "
        "must end with the statuses of a fresh run of the last attempt. Non-trivial = distinct child tuple / run whose "
        "accept-set is not {passed}.")
ASSUMPTIONS = ["containers without children are out of scope (statement)",
               "an element skipped by user code during the run may be 'skipped' although earlier steps passed (behave's documented behaviour)"]

STEP_ALPHA = ("passed", "failed", "error", "skipped", "untested", "undefined", "pending", "pending_warn",
              "hook_error", "untested_undefined", "untested_pending")
CONT_ALPHA = ("passed", "failed", "error", "skipped", "untested", "hook_error")


def _behave():
    from behave.model_core import Status, OuterStatus, ScenarioStatus
    from behave.parser import parse_feature
    return Status, OuterStatus, ScenarioStatus, parse_feature


# ---------------------------------------------------------------- (1) algebra
def doc_tables():
    text = open(os.path.join(repo_dir(), "docs", "appendix.status.rst"), encoding="utf-8").read()
    sec = text.split("From Inner Status to Outer Status")[1]
    rows = re.findall(r"^`(\w+)`\s+`(\w+)`", sec, re.M)
    return dict(rows)


def check_algebra(case):
    Status, OuterStatus, ScenarioStatus, _ = _behave()
    v = []
    reportable = [s for s in Status if s.name not in ("unknown", "executing")]
    for s in reportable:
        classes = [s.is_passed(), s.is_failure(), s.is_error(), s is Status.skipped, s.is_untested()]
        if sum(bool(c) for c in classes) != 1:
            v.append(({"subcheck": "algebra", "clause": "partition", "status": s.name},
                      "%s belongs to %d classes (passed-like,failure,error,skipped,untested)=%s"
                      % (s.name, sum(bool(c) for c in classes), classes)))
        if s.has_failed() != (s.is_error() or s.is_failure()):
            v.append(({"subcheck": "algebra", "clause": "has_failed", "status": s.name}, s.name))
        try:
            s.normalized_name
        except BaseException as e:
            v.append(({"subcheck": "algebra", "clause": "total", "status": s.name, "exc": type(e).__name__},
                      "%s: normalized_name/to_status_v0 raised %r" % (s.name, e)))
    table = doc_tables()
    for inner, outer in sorted(table.items()):
        s = Status.from_name(inner)
        got = OuterStatus.from_inner_status(s).name
        if got != outer:
            v.append(({"subcheck": "algebra", "clause": "outer-status-table", "inner": inner, "got": got, "want": outer},
                      "OuterStatus.from_inner_status(%s) = %s, docs/appendix.status.rst says %s" % (inner, got, outer)))
        got = ScenarioStatus.from_step_status(s).name
        if got != outer:
            v.append(({"subcheck": "algebra", "clause": "scenario-status-table", "inner": inner, "got": got, "want": outer},
                      "ScenarioStatus.from_step_status(%s) = %s, docs say %s" % (inner, got, outer)))
    return {"v": v, "n": len(reportable) * 3 + len(table) * 2, "nt": ("algebra", len(table)),
            "out": "algebra", "dg": sorted(table.items())}


# ---------------------------------------------------------------- (2) forced tuples
def run_ordered(kind, t):
    """can a single run produce this child sequence?
    steps: executed* (skipped|undefined)*  |  executed* untested*  |  dry run: (untested-class|undefined|skipped)*
    containers: (executed|skipped)* untested*  |  dry run: (untested|skipped|error)*   -> returns "dry" for the latter"""
    if kind == "steps":
        if all(c in UNT or c == "undefined" for c in t) or all(c == "skipped" for c in t):
            return True
        phase = 0       # 0 executed, 1 not-executed tail
        tailkind = None
        failing = False
        for c in t:
            if c == "undefined" and phase == 1 and not failing:
                return False    # undefined steps are only discovered in the tail after a failure
            if phase == 0 and (c in ERRC or c == "failed"):
                failing = True
            if c in UNT or c == "skipped":
                phase = 1
                k = "unt" if c in UNT else "skip"
                if tailkind and tailkind != k:
                    return False
                tailkind = k
            elif c == "undefined":
                if phase == 1 and tailkind == "unt":
                    return False
            elif phase == 1:
                return False
        return True
    seen_unt = False
    ok = True
    for c in t:
        if c in UNT:
            seen_unt = True
        elif seen_unt:
            ok = False
    if ok:
        return True
    if all(c in ("untested", "skipped", "error") for c in t):
        return "dry"
    return False


_CACHE = {}


def _feature_with(n_scen, n_steps=1, outline=False, rule=False):
    key = (n_scen, n_steps, outline, rule)
    Status, _, _, parse_feature = _behave()
    lines = ["Feature: F"]
    ind = "  "
    if rule:
        lines.append("  Rule: R")
        ind = "    "
    if outline:
        lines.append(ind + "Scenario Outline: O")
        lines.append(ind + "  Given step <o>")
        lines.append(ind + "  Examples:")
        lines.append(ind + "    | o |")
        for i in range(n_scen):
            lines.append(ind + "    | %d |" % i)
    else:
        for i in range(n_scen):
            lines.append(ind + "Scenario: S%d" % i)
            for j in range(n_steps):
                lines.append(ind + "  Given step %d" % j)
    return parse_feature("\n".join(lines) + "\n", filename="forced.feature")


def check_tuple(case):
    kind, t = case
    Status = _behave()[0]
    v = []
    if kind == "steps":
        f = _feature_with(1, len(t))
        sc = f.scenarios[0]
        for st, name in zip(sc.steps, t):
            st.status = Status.from_name(name)
        sc.clear_status()
        got = sc.status.name
        explicit = "skipped" in t and not any(c in ERRC or c == "failed" for c in t)
        acc = accept(t, explicit_skip=explicit)
    else:
        n = len(t)
        f = _feature_with(n, 1, outline=(kind == "outline"), rule=(kind == "rule-in-feature"))
        if kind == "outline":
            target = f.run_items[0]
            kids = list(target.scenarios)
        elif kind == "rule-in-feature":
            target = f.run_items[0]
            kids = list(target.run_items)
        else:
            target = f
            kids = list(f.run_items)
        for k, name in zip(kids, t):
            k.clear_status()
            if name != "untested":
                k.set_status(name)
        target.clear_status()
        got = target.status.name
        acc = accept(t)
        if kind == "rule-in-feature":
            # also the feature that contains just this rule: roll-up of a single child
            f.clear_status()
            fgot = f.status.name
            facc = accept([got])
            if fgot not in facc:
                v.append(({"subcheck": "tuples", "clause": "rollup", "kind": "feature-over-rule", "got": fgot,
                           "want": "|".join(sorted(facc)), "children": got},
                          "feature containing one rule with status %s has status %s" % (got, fgot)))
    ro = run_ordered(kind, t)
    if ro == "dry":
        acc = accept(t, dry=True)
    res = {"nt": (kind, t) if acc != {"passed"} else None, "out": (kind, got), "dg": got}
    if got not in acc:
        desc = {"subcheck": "tuples", "clause": "rollup", "kind": kind, "got": got,
                "want": "|".join(sorted(acc)), "children": "+".join(sorted(set(t)))}
        msg = "%s with child statuses %r has status %s, acceptable: %s" % (kind, t, got, sorted(acc))
        if ro:
            v.append((desc, msg))
        else:
            res["keep"] = (kind, t, got, sorted(acc))
    res["v"] = v
    return res


def tuple_cases(tier):
    quick = tier == "quick"
    for n in range(1, (3 if quick else 4) + 1):
        for t in itertools.product(STEP_ALPHA, repeat=n):
            yield ("steps", t)
    for kind in ("feature", "rule-in-feature", "outline"):
        for n in range(1, (4 if quick else 6) + 1):
            for t in itertools.product(CONT_ALPHA, repeat=n):
                yield (kind, t)


# ---------------------------------------------------------------- (3) real runs
def probe_case(case):
    """same runs, but hooks and step functions READ feature/rule/scenario .status while the run is in progress
    (the property is a cache): the final statuses must still be the roll-up of the children"""
    prog, cfg, faults, cleanups, hooks = case
    cfgd = runcases.CFGS[cfg] if isinstance(cfg, str) else cfg
    obs = harness.run_case(prog, cfgd, faults=faults, cleanups=cleanups, hooks=True, probe_status=True)
    ref = refrun.predict(prog, cfgd, faults=faults, cleanups=cleanups, hooks=True)
    v = refrun.compare(prog, ref, obs, what=("status", "steps"))
    v = [x for x in v if x[0]["subcheck"] in ("status", "run")]
    for d, msg in v:
        d["probe"] = "status-read-during-run"
    interesting = tuple(sorted(set(obs["status"].values())))
    return {"v": v, "nt": digest(case) if interesting != ("passed",) else None, "out": ("probe",) + interesting,
            "dg": (sorted(obs["status"].items()), sorted(obs["steps"].items()))}


def rerun_case(case):
    """whole-model history: run, feature.reset(), run again with a new runner - the second run must look like a fresh one"""
    prog, cfg, faults, cleanups, hooks = case
    cfgd = runcases.CFGS[cfg] if isinstance(cfg, str) else cfg
    obs = harness.run_case(prog, cfgd, faults=faults, cleanups=cleanups, hooks=True, second_run=True)
    ref = refrun.predict(prog, cfgd, faults=faults, cleanups=cleanups, hooks=True)
    v = refrun.compare(prog, ref, obs, what=("verdict", "status", "steps", "calls", "hooks"))
    for d, msg in v:
        d["history"] = "second-run-after-reset"
    interesting = tuple(sorted(set(obs["status"].values())))
    return {"v": v, "nt": digest(case) if interesting != ("passed",) else None, "out": ("rerun",) + interesting,
            "dg": (obs["verdict"], sorted(obs["status"].items()), sorted(obs["steps"].items()), obs["calls"])}


def run_case(case):
    ref, obs = runcases.exec_case(case)
    v = refrun.compare(case[0], ref, obs, what=("status", "steps"))
    v = [x for x in v if x[0]["subcheck"] in ("status", "run")]
    interesting = tuple(sorted(set(obs["status"].values())))
    nt = digest(case) if interesting != ("passed",) else None
    return {"v": v, "nt": nt, "out": interesting, "dg": (sorted(obs["status"].items()), sorted(obs["steps"].items()))}


# ---------------------------------------------------------------- a container is skipped when partly executed
def partskip_case(case):
    """case = (prog, k, kind): the k-th hook invocation calls feature.skip() ("skipf") or rule.skip() ("skipr") -
    documented as legal on an entity that 'may be already partly executed'; children that already ran keep their
    result, the rest becomes skipped. Oracle: no prediction - every element's status must be the documented function
    of the statuses of what it contains (as observed after the run)."""
    prog, k, kind = case
    obs = harness.run_case(prog, {}, faults={k: kind}, hooks=True)
    v = []
    if obs["escaped"]:
        v.append(({"subcheck": "run", "clause": "exception-escapes-run", "exc": obs["escaped"]},
                  "run() raised %s: %s" % (obs["escaped"], obs.get("escaped_msg"))))
        return {"v": v, "nt": None, "out": "escaped", "dg": obs["escaped"]}
    hname = obs["hooks"][k][0] if k < len(obs["hooks"]) else "?"
    for path, ek in P.element_paths(prog):
        got = obs["status"].get(path)
        if ek in ("S", "row"):
            kids = obs["steps"][path]
            acc = refrun.accept(kids) | refrun.accept(kids, explicit_skip=True)
        else:
            kids = refrun.children_of(prog, path, obs["status"])
            acc = refrun.accept(kids)
        if got not in acc:
            v.append(({"subcheck": "part-skip", "clause": "rollup", "kind": ek, "got": str(got),
                       "want": "|".join(sorted(acc)), "children": "+".join(sorted(set(kids))), "skipped_by": kind},
                      "%s.skip() called from %s #%d: element %r (%s) has status %s, children %s, acceptable %s"
                      % ("feature" if kind == "skipf" else "rule", hname, k, path, ek, got, kids, sorted(acc))))
    interesting = tuple(sorted(set(obs["status"].values())))
    return {"v": v, "nt": digest(case), "out": ("part-skip", kind, interesting),
            "dg": (sorted(obs["status"].items()), sorted(obs["steps"].items()))}


def partskip_cases(tier):
    quick = tier == "quick"
    shapes = [s_ for s_ in P.shapes(tier) if 2 <= P.size(s_) <= (3 if quick else 5) and len(s_[3]) <= 2]
    for si, shp in enumerate(shapes):
        for nd, pr in P.deviations((shp,), 1, outcomes=("fail", "error", "undefined") if quick else
                                   ("fail", "error", "undefined", "pending", "skip")):
            prog = (pr[0], P.SECOND_FEATURE)
            hooks_ = refrun.predict(prog, {}, hooks=True).hooks
            for k, (name, ref) in enumerate(hooks_):
                if name in ("before_all", "after_all") or ref[:1] == (1,) or (isinstance(ref[0], tuple) and ref[0][:1] == (1,)):
                    continue        # hooks of the second feature: nothing before them in their feature
                if quick and "tag" in name:
                    continue
                for kind in ("skipf", "skipr"):
                    yield (prog, k, kind)


# ---------------------------------------------------------------- histories: auto-retry and re-runs
def retry_case(case):
    """case = (mode, kind, attempts: tuple of outcome tuples)  mode in autoretry|rerun ; kind in S|O"""
    with_bg = len(case) > 3 and case[3] == "bg"     # the first outcome of every attempt belongs to a BACKGROUND step
    mode, kind, attempts = case[:3]
    # an attempt is (outcome tuple, hook fault) with hook fault in None | "before_scenario" | "after_scenario"
    attempts = tuple(a if (len(a) == 2 and isinstance(a[0], tuple)) else (a, None) for a in attempts)
    case = (mode, kind, attempts) + (("bg",) if with_bg else ())
    m = harness._imp()
    harness.reset_globals()
    from behave.contrib.scenario_autoretry import patch_scenario_with_autoretry
    nsteps = len(attempts[0][0])
    nown = nsteps - 1 if with_bg else nsteps
    item = P.S(("pass",) * nown) if kind == "S" else P.O((("pass",) * nown,), ncols=nown)
    feat = P.F((item, P.S(("pass",))), bg=("pass",) if with_bg else None)
    text, meta = P.render(feat, 0)

    def one_run(plans, patch, feats=None):
        """plans: list of outcome tuples consumed one per scenario attempt"""
        state = {"attempt": -1}
        config = m["Configuration"](["--no-summary"], load_config=False)
        reg = m["StepRegistry"]()
        m["matchers"].use_step_matcher("parse")

        def impl(ctx, n):
            if ctx.scenario.name.startswith("S0_2"):
                return
            plan = plans[min(state["attempt"], len(plans) - 1)][0]
            o = plan[(n - 1) % nsteps]
            if o == "fail":
                assert False, "boom"
            if o == "error":
                raise RuntimeError("x")
            if o == "skip":
                ctx.scenario.skip()
        reg.add_step_definition("step", "step {n:d} pass", impl)
        feats = feats or [m["parse_feature"](text, filename="r.feature")]
        target = feats[0].run_items[0]
        if patch:
            patch_scenario_with_autoretry(target, max_attempts=len(plans))

        def before_scenario(ctx, sc):
            if not sc.name.startswith("S0_2"):
                state["attempt"] += 1
                if plans[min(state["attempt"], len(plans) - 1)][1] == "before_scenario":
                    raise RuntimeError("flaky before_scenario")

        def after_scenario(ctx, sc):
            if not sc.name.startswith("S0_2"):
                if plans[min(state["attempt"], len(plans) - 1)][1] == "after_scenario":
                    raise RuntimeError("flaky after_scenario")
        runner = m["ModelRunner"](config, feats, step_registry=reg)
        runner.hooks = {"before_scenario": before_scenario, "after_scenario": after_scenario}
        runner.formatters = []
        old = sys.stdout
        sys.stdout = io.StringIO()
        try:
            verdict = bool(runner.run())
        finally:
            sys.stdout = old
        f = feats[0]
        tgt = f.run_items[0]
        scs = list(tgt.scenarios) if kind == "O" else [tgt]
        # statuses only: the verdict legitimately remembers that a hook raised in an earlier attempt (C01)
        snap = (None, f.status.name, tgt.status.name, [s.status.name for s in scs],
                [[st.status.name for st in s.all_steps] for s in scs], f.run_items[1].status.name)
        return snap, feats

    v = []
    if mode == "autoretry":
        got, _ = one_run(list(attempts), True)
        # the retries stop at the first passing attempt
        def attempt_fails(a):
            if a[1]:
                return True
            for o in a[0]:
                if o in ("fail", "error"):
                    return True
                if o == "skip":
                    return False
            return False
        last = attempts[-1]
        for a in attempts:
            if not attempt_fails(a):
                last = a
                break
        want, _ = one_run([last], False)
    else:
        feats = None
        got = None
        for a in attempts:
            if feats and mode == "rerun-reset":
                feats[0].reset()
            got, feats = one_run([a], False, feats)
        want, _ = one_run([attempts[-1]], False)
    if got != want:
        v.append(({"subcheck": "history", "clause": "depends-on-earlier-run", "mode": mode, "kind": kind},
                  "%s over attempts %r ends with (verdict, feature, element, scenarios, steps, sibling)=%r; a fresh "
                  "run of the last attempt gives %r" % (mode, attempts, got, want)))
    if v:
        v[0][0]["hook_fault_in_earlier_attempt"] = str(any(a[1] for a in attempts[:-1]))
    for d_, _m in v:
        d_["background"] = str(with_bg)
    return {"v": v, "nt": case if len(set(attempts)) > 1 else None, "out": got[1:4].__repr__(),
            "dg": got}


def retry_cases(tier):
    outs = ("pass", "fail", "error", "skip")
    nsteps = 2
    seqs = list(itertools.product(outs, repeat=nsteps))
    maxa = 2 if tier == "quick" else 3
    for kind in ("S", "O"):
        for na in range(2, maxa + 1):
            for attempts in itertools.product(seqs, repeat=na):
                if tier == "quick" and na == 3:
                    continue
                yield ("autoretry", kind, attempts)
                yield ("rerun-reset", kind, attempts)
                if na == 2:
                    # a scenario-level hook raising in one attempt only (flaky hook)
                    for hf1 in (None, "before_scenario", "after_scenario"):
                        for hf2 in (None, "before_scenario", "after_scenario"):
                            if (hf1 or hf2) and attempts[0].count("pass") == nsteps:
                                h = ((attempts[0], hf1), (attempts[1], hf2))
                                yield ("autoretry", kind, h)
                                yield ("rerun-reset", kind, h)
                                yield ("rerun", kind, h)
                if not any("skip" in a for a in attempts[:-1]):
                    # a scenario excluded by user code (skip()) stays excluded until reset(): by design
                    yield ("rerun", kind, attempts)
    # the same histories under a BACKGROUND (the first outcome of an attempt is the inherited step's): a later attempt
    # that is not executed at all (its before_scenario hook raises) must leave the background copies untested too
    seqs3 = [q for q in itertools.product(outs, repeat=3) if q.count("pass") >= 2 or tier != "quick"]
    for kind in ("S", "O"):
        for a1 in seqs3:
            for a2 in seqs3:
                yield ("autoretry", kind, (a1, a2), "bg")
                yield ("rerun-reset", kind, (a1, a2), "bg")
                if "skip" not in a1:
                    yield ("rerun", kind, (a1, a2), "bg")
                for hf1, hf2 in ((None, "before_scenario"), ("before_scenario", None), (None, "after_scenario"),
                                 ("after_scenario", "before_scenario")):
                    if "skip" in a1:
                        continue        # skip() is a user marking that persists into the next attempt (9.2): not retried
                    if a2.count("pass") == 3 or tier != "quick":
                        h = ((a1, hf1), (a2, hf2))
                        yield ("autoretry", kind, h, "bg")
                        if "skip" not in a1:
                            yield ("rerun", kind, h, "bg")
                        yield ("rerun-reset", kind, h, "bg")


def run(ctx):
    ctx.bounds = {"step_tuple_len": 3 if ctx.quick else 4, "container_tuple_len": 4 if ctx.quick else 6,
                  "retry_attempts": 2 if ctx.quick else 3,
                  "real_runs": "C01 enumeration" + (" restricted to shapes with <= 3 step positions" if ctx.quick else "")}
    ctx.sweep(check_algebra, [0], name="status algebra + doc table")
    odd = ctx.sweep(check_tuple, tuple_cases(ctx.tier), chunk=512, name="compute_status on forced child tuples",
                    keep=True)
    ctx.note("non_run_ordered_deviations", {"count": len(odd), "samples": [list(map(str, o)) for o in odd[:10]],
                                            "meaning": "child sequences no single run can produce whose roll-up is "
                                                       "outside the accept-set; reported, not failed (DESIGN C03.2)"})
    # quick: the C01 enumeration restricted to shapes with <= 3 step positions (faults: <= 3); thorough: all of it
    small = (lambda c, n: P.size(c[0][0]) <= n) if ctx.quick else (lambda c, n: True)
    ctx.sweep(run_case, (c for c in runcases.step_cases(ctx.tier) if small(c, 3)), chunk=48,
              name="real runs: outcomes x configs")
    ctx.sweep(run_case, (c for c in runcases.fault_cases(ctx.tier) if small(c, 3)), chunk=48,
              name="real runs: hook/cleanup faults")
    ctx.sweep(run_case, (c for c in runcases.nonpass_fault_cases(ctx.tier) if small(c, 3)), chunk=48,
              name="real runs: one non-passing step, then a hook fault at every invocation")
    ctx.sweep(probe_case, (c for c in runcases.step_cases(ctx.tier) if P.size(c[0][0]) <= (3 if ctx.quick else 5)
                           and c[1] in ("default", "stop", "tags_t")), chunk=48,
              name="real runs with .status read from hooks and steps")
    ctx.sweep(rerun_case, (c for c in itertools.chain(runcases.step_cases(ctx.tier), runcases.fault_cases(ctx.tier))
                           if P.size(c[0][0]) <= (2 if ctx.quick else 4) and c[1] in ("default", "stop", "tags_t", "wip")),
              chunk=48, name="whole model run twice (reset in between)")
    ctx.sweep(partskip_case, partskip_cases(ctx.tier), chunk=48,
              name="feature.skip() / rule.skip() called from every hook invocation of a partly executed feature")
    ctx.sweep(retry_case, retry_cases(ctx.tier), chunk=16, name="auto-retry / re-run histories")
    ctx.guard(len(ctx.outcomes) > 30, "at least 30 distinct outcome classes")
