# -*- coding: utf-8 -*-
"""C11 - step matching and dispatch: full-text match, right definition, right arguments,
ambiguity rejection, registration histories.

Part (a), engine E4: every pattern that is a token sequence of length 1..3 over the token
alphabet of DESIGN 5/C11, rendered for the four matcher kinds, against every instance text over
a 3-value domain per field and the negative variants of every instance.  The oracle is an
independent "instance-of" decision on the token sequence (enumeration of all ways to cut the text
into the tokens' languages, hand-written recognisers, no regular expressions, nothing from behave)
that also yields the expected converted values, names and spans.  The registered step function is
really invoked through Match.run() with a stub context.

Part (b), engine E2: breadth-first search over operation histories on a real StepRegistry + the
real matcher factory, stepped in lock-step with a reference registry.  Lookups L(step type, text)
are operations as well: they are executed on the live registry after every operation of every
history (registrations and lookups interleaved) and each is checked to be a self-loop of the
canonical state; canonical-state deduplication, one sweep per BFS level.

Part (c), engine E4: custom types {tight / wide / no regex} x {total / partly raising / raising on
pattern source texts} converters inside ordered pairs and triples of registrations that overlap
only inside the typed field ("converter raises" as an outcome of the AMBIGUITY test at
registration, not only of lookup), then dispatch of the step texts.

Part (d), engine E2: histories of load_step_modules() calls in one process over generated step
module directories (modules that switch the matcher and do or do not switch back), factory state
and matcher class of every definition after each load, differential against a fresh process.

Part (e), engine E4: regex patterns with optional, nested and alternative groups (first / middle /
last position) and texts in which each optional group is present / absent; arguments in group-index
order with None for groups that did not take part, spans = group spans, call log.

Part (f), engine E2: lookup histories - sequences of 2-3 find_match() calls (optionally with a
registration or clear() in between) on one registry, Step keyword varied independently of the step
type; every lookup must give what it gives on a fresh registry (lookups never influence each other:
a memo/cache shows only on the second lookup with a colliding key).
"""
import atexit
import itertools
import os
import shutil
import tempfile
from vlib.core import digest

PROPERTY = "C11"
LEVEL = "model_checking"
RULE = ("(a) patterns = token sequences of length 1-3 (thorough: also length 4 over a reduced alphabet) over "
        "{a, bb, {x}, {n:d}, {:w}, {f:f}, {c:Color}, {n:Number}} for parse, additionally {n:Number+}, {n:Number*}, "
        "{c:Color?} for cfparse, {a, bb, (?P<x>\\w+), (\\d+), (?:z )?} for re / re0 / re0 written with ^...$ "
        "(a repeated field name gets its position appended); texts = every instance over a 3-value domain per field "
        "plus, for every instance, wrong case of each literal / Color value, two extra prefixes, two extra suffixes, "
        "two changes of each literal; oracle = enumeration of all cuts of the text into the token languages. "
        "Non-trivial = (pattern, text class) where an instance delivers >= 1 argument or a non-instance has to be "
        "rejected. (b) BFS over histories of {register(type, pattern in a 6-pattern pool, f1..f3), "
        "use_step_matcher(4 kinds), module boundary use_default_step_matcher(), use_current_step_matcher_as_default()} "
        "to depth 3 (quick, 42 operations) / depth 4 over 42 operations and depth 3 over 78 operations (thorough); "
        "after every operation the exception, the matcher factory state and the number of definitions per type are "
        "compared with a reference registry. Lookups are operations of the alphabet too: L(step type, text) = "
        "registry.find_match (+ Match.run, function really invoked) and registry.find_step_definition for 4 step "
        "types x 9 texts, executed on the LIVE registry after every operation of every history (so every later "
        "registration and lookup runs on a registry that has already served lookups) and compared with the reference. "
        "States are deduplicated by (per-type ordered (pattern, kind, function) lists, current matcher, default "
        "matcher): that determines all futures because registration and lookup read nothing else; a lookup must not "
        "write any of it, therefore L-edges are not expanded but each one is CHECKED to be a self-loop on the real "
        "objects (identity snapshot of every per-type list - keys, length, the matcher objects in order - and of the "
        "factory before == after every single find_match / find_step_definition). "
        "(c) the converter outcome inside the registration alphabet: custom type T = regex {red|green|blue, \\D+, "
        "\\S+, no pattern attribute} x converter {total, raises on 'blue', raises on everything but a colour name "
        "(= on every pattern source text)} x matcher {parse, cfparse}; every ordered sequence of 1-3 (thorough: 4) "
        "@given registrations over the pool {a {c:T}, a {n:d}, a lvl {n:d}, a red, a blue, a {x}} (patterns that "
        "overlap only inside the field), distinct functions and, for repeated patterns, also the same function; "
        "reference: a definition matches a text iff the field languages accept a cut of it AND every converter "
        "succeeds; AmbiguousStep iff an existing definition really matches the new pattern text; then 11 step texts "
        "x {given, when} are looked up and run. Non-trivial there = a registration that is unambiguous only because "
        "a converter raises, or a lookup with a raising converter in front of the expected definition. "
        "(d) module-loading histories: every sequence of 1-3 behave.runner_util.load_step_modules() calls in ONE "
        "process over generated step directories of 1-3 modules with <= 3 (quick) / <= 5 (thorough) modules in total, "
        "each module one of {no switch, use_step_matcher(re|cfparse) + definition + back to parse + definition, "
        "definition + use_step_matcher(re|cfparse) + definition WITHOUT switching back}, x project default chosen up "
        "front {nothing, use_step_matcher(re|cfparse), use_default_step_matcher(re|cfparse)}; after every load the "
        "factory's current and default matcher must be the project default, every new definition must have been "
        "built by the matcher in force at that point of its module, each definition is dispatched with a typed "
        "instance and with its pattern source text, and every later load is repeated alone in a fresh state and "
        "must register the same definitions (differential). Non-trivial there = at least one module switches. "
        "(e) regular expressions with groups that need not take part: sequences of 1-3 slots over {literal, (\\d+), "
        "named group, optional part '(?: kw (group))?' unnamed/named, optional group glued to a keyword 'kw(\\d+)?' "
        "unnamed/named, nested groups with the inner one at the start / middle / end of the outer one, outer named or "
        "inner named, optional inner group, alternation '(?:(..)kwa|(..)kwb)' unnamed / named / inside a capturing "
        "group} for re, re0 with ^...$ and re0; texts = every combination of present/absent optional parts and "
        "alternation branches; the oracle knows every group's text and span by construction (the re module is not "
        "consulted): Match.arguments in group-index order with start/end = the group's span, (-1, -1, None) for a "
        "group that did not take part; positional call arguments = unnamed groups in that order (None if absent), "
        "keyword arguments by name. Non-trivial there = a text whose pattern has >= 2 groups. "
        "(f) lookup histories in ONE registry lifetime: registries = every assignment {no definition, 'a bb', "
        "'a {x}'} to given/when/then/step (81, one function per type); lookups = Step objects with keyword in "
        "{Given, When, Then, And, But, *} INDEPENDENT of step type in {given, when, then} x texts {a bb, a foo}; all "
        "ordered pairs of the 36 lookups, all triples over 12 of them, all pairs over 18 of them with an operation "
        "in between {unrelated registration, registration of a then-definition (accepted or AmbiguousStep), clear() "
        "+ registration of the definitions rotated over the types}, and every scenario of 2-3 step lines parsed by "
        "behave's parser (the parser derives the step type of And/But/* lines). Oracle: every lookup (definition "
        "called, arguments) equals the same lookup on a fresh registry with the same definitions AND the reference "
        "registry (which ignores the keyword). Non-trivial there = a (registry, family) with typed definitions in "
        "which the same (keyword, text) is looked up under two step types.")
ASSUMPTIONS = [
    "field values, literals and prefixes/suffixes are ASCII without 0x/0b/0o prefixes; the languages of {:d} and "
    "{:f} include an optional sign out of '+', '-', ' ' (parse's format-spec sign set; a blank sign only arises "
    "next to an empty optional/many0 field)",
    "optional/many0 cardinality fields that match the empty string are expected to deliver None / [] "
    "(parse_type documentation); the empty step text is used for patterns that consist only of such tokens",
    "re0 (CucumberRegexMatcher) is only required to bind instances; in the registration histories its 'matches' is "
    "taken as 'matches a prefix' (regular expression as written, no anchors added), the statement is silent there",
    "when several cuts of a text are instances (two adjacent {x} fields) any of them is accepted",
    "a registration whose pattern string equals an existing definition's pattern string of a different function "
    "but is not an instance of it (regex with groups) may be rejected or accepted (statement silent); the "
    "reference follows the implementation there",
    "a converter that raises: accepted outcomes are 'no match' or a match object whose run() raises without "
    "calling the step function (the statement does not say which)",
    "lookup when a candidate in front of the first really matching definition accepts the text with its regex but "
    "its converter raises: the statement does not say whether that candidate surfaces as a match-with-error or the "
    "search goes on; accepted = the match-with-error (run() raises, no function called) or the really matching "
    "definition with the right arguments (part c)",
    "module loading (part d) goes through behave.runner_util.load_step_modules(), which registers into the "
    "process-wide behave.step_registry.registry: that registry is cleared at the start and end of every case; the "
    "protocol taken as documented: every module starts with the project default (= the matcher current when "
    "load_step_modules() is entered) and the current matcher is the project default again after the load",
    "regex groups that do not take part in a match (part e): expected as an argument with value None, original "
    "None, start = end = -1 at its group-index position (Python re semantics; the statement only speaks of matched "
    "parameters); nested groups legitimately overlap, so the non-overlap clause is only applied in part (a)",
    "cucumber expressions (behave.cucumber_expression) are not one of the four matcher kinds and are not covered",
]

DIG = "0123456789"
WORD = DIG + "abcdefghijklmnopqrstuvwxyzABCDEFGHIJKLMNOPQRSTUVWXYZ_"
RAISE = "<RAISE>"
COLORS = ("red", "green", "blue")


# =============================================================================
# independent reference: token languages, conversions, instance-of decision
# =============================================================================
def acc_digits(s):
    return len(s) > 0 and all(c in DIG for c in s)


def acc_word(s):
    return len(s) > 0 and all(c in WORD for c in s)


def acc_int(s):
    """parse's 'd': digits with an optional sign, where the format-spec sign set is '+', '-' and ' '"""
    return acc_digits(s[1:] if s[:1] in ("+", "-", " ") else s)


def acc_fixed(s):
    if s[:1] in ("+", "-", " "):
        s = s[1:]
    ip, dot, frac = s.partition(".")
    return dot == "." and acc_digits(frac) and all(c in DIG for c in ip)


def acc_color(s):
    return s in COLORS


def many_items(s):
    """'7, 42' -> ['7', '42'] or None: items separated by a comma with optional blanks around it"""
    if s != s.strip(" "):
        return None
    items = [p.strip(" ") for p in s.split(",")]
    if all(acc_digits(p) for p in items):
        return items
    return None


def conv_number(s):
    if s == "13":
        return RAISE
    return ("num", int(s))


def conv_many(s):
    vals = [conv_number(p) for p in many_items(s)]
    return RAISE if RAISE in vals else vals


# token -> (family, rendering, base name or None, captures, accepts-empty, recogniser, converter, domain)
TOKENS = {
    "a":       ("lit", "a", None, False, False, None, None, ("a",)),
    "bb":      ("lit", "bb", None, False, False, None, None, ("bb",)),
    "x":       ("p", "{%s}", "x", True, False, lambda s: len(s) > 0, lambda s: s, ("foo", "a b", "7")),
    "d":       ("p", "{%s:d}", "n", True, False, acc_int, int, ("0", "7", "42")),
    "w":       ("p", "{:w}", None, True, False, acc_word, lambda s: s, ("foo", "Bar9", "x_1")),
    "f":       ("p", "{%s:f}", "f", True, False, acc_fixed, float, ("1.5", "0.25", "10.0")),
    "Color":   ("p", "{%s:Color}", "c", True, False, acc_color, lambda s: ("color", s), COLORS),
    "Number":  ("p", "{%s:Number}", "n", True, False, acc_digits, conv_number, ("7", "42", "13")),
    "Number+": ("cf", "{%s:Number+}", "n", True, False, lambda s: many_items(s) is not None, conv_many,
                ("7", "7, 42", "13,7")),
    "Number*": ("cf", "{%s:Number*}", "n", True, True, lambda s: s == "" or many_items(s) is not None,
                lambda s: [] if s == "" else conv_many(s), ("", "42", "7 ,42")),
    "Color?":  ("cf", "{%s:Color?}", "c", True, True, lambda s: s == "" or acc_color(s),
                lambda s: None if s == "" else ("color", s), ("", "red", "green")),
    "rx":      ("r", "(?P<%s>\\w+)", "x", True, False, acc_word, lambda s: s, ("foo", "Bar9", "x_1")),
    "rd":      ("r", "(\\d+)", None, True, False, acc_digits, lambda s: s, ("0", "7", "42")),
    "opt":     ("r", "(?:z )?", None, False, True, lambda s: s in ("", "z "), None, ("", "z ")),
}
KIND_TOKENS = {
    "parse": ("a", "bb", "x", "d", "w", "f", "Color", "Number"),
    "cfparse": ("a", "bb", "x", "d", "w", "f", "Color", "Number", "Number+", "Number*", "Color?"),
    "re": ("a", "bb", "rx", "rd", "opt"),
    "re0": ("a", "bb", "rx", "rd", "opt"),
    "re0^$": ("a", "bb", "rx", "rd", "opt"),
}
KIND_TOKENS_4 = {
    "parse": ("a", "x", "d", "w", "Number"),
    "cfparse": ("a", "x", "Number+", "Color?"),
    "re": ("a", "rx", "rd", "opt"),
    "re0^$": ("a", "rx", "rd", "opt"),
}
REAL_KIND = {"parse": "parse", "cfparse": "cfparse", "re": "re", "re0": "re0", "re0^$": "re0"}
FULL_TEXT_KINDS = ("parse", "cfparse", "re")      # the statement's full-text clause names exactly these


def render(kind, toks):
    """token sequence -> (pattern string, elements, names)   elements: ('lit', s) | ('fld', token, name)"""
    parts, elements, used = [], [], set()
    for i, t in enumerate(toks):
        fam, fmt, base, captures = TOKENS[t][:4]
        name = None
        if fam == "lit":
            parts.append(fmt)
            elements.append(("lit", fmt))
        else:
            if base is not None:
                name = base if base not in used else "%s%d" % (base, i + 1)
                used.add(name)
                parts.append(fmt % name)
            else:
                parts.append(fmt)
            elements.append(("fld", t, name))
        if i + 1 < len(toks) and t != "opt":
            parts.append(" ")
            elements.append(("lit", " "))
    pattern = "".join(parts)
    if kind == "re0^$":
        pattern = "^" + pattern + "$"
    return pattern, elements


def decompose(elements, text, prefix_only=False):
    """all ways in which text (or, prefix_only, a prefix of it) is an instance of the element sequence.
    Each way = tuple of (start, end, original, value, name) for the capturing fields, in text order."""
    out = []
    n = len(text)
    ne = len(elements)

    def rec(i, pos, acc):
        if i == ne:
            if pos == n or prefix_only:
                out.append(tuple(acc))
            return
        el = elements[i]
        if el[0] == "lit":
            if text.startswith(el[1], pos):
                rec(i + 1, pos + len(el[1]), acc)
            return
        tk = TOKENS[el[1]]
        accept, conv, captures = tk[5], tk[6], tk[3]
        for e in range(pos if tk[4] else pos + 1, n + 1):
            s = text[pos:e]
            if accept(s):
                if captures:
                    acc.append((pos, e, s, conv(s), el[2]))
                    rec(i + 1, e, acc)
                    acc.pop()
                else:
                    rec(i + 1, e, acc)
    rec(0, 0, [])
    return out


def typed(v):
    """value with its type made visible (7 != 7.0 != '7')"""
    return "%s:%r" % (type(v).__name__, v)


def norm_decomp(d):
    return tuple((s, e, o, typed(v), nm) for (s, e, o, v, nm) in d)


def has_raise(d):
    return any(v == RAISE for (_, _, _, v, _) in d)


# =============================================================================
# part (a): texts
# =============================================================================
def assemble(toks, vals):
    s = []
    for i, (t, v) in enumerate(zip(toks, vals)):
        s.append(v)
        if i + 1 < len(toks) and t != "opt":
            s.append(" ")
    return "".join(s)


def texts_for(toks):
    """ordered list of (variant class, text), texts distinct, instances first"""
    seen, out = set(), []

    def add(variant, text):
        if text not in seen:
            seen.add(text)
            out.append((variant, text))
    insts = list(itertools.product(*[TOKENS[t][7] for t in toks]))
    for vals in insts:
        add("instance", assemble(toks, vals))
    for vals in insts:
        base = assemble(toks, vals)
        for i, t in enumerate(toks):
            v = list(vals)
            if TOKENS[t][0] == "lit":
                v[i] = vals[i].upper()
                add("case-literal", assemble(toks, v))
                v[i] = "c"
                add("literal-replaced", assemble(toks, v))
                v[i] = vals[i] + vals[i][-1]
                add("literal-extended", assemble(toks, v))
            elif t in ("Color", "Color?") and vals[i]:
                v[i] = vals[i].upper()
                add("case-field", assemble(toks, v))
            elif t == "opt" and vals[i]:
                v[i] = "Z "
                add("case-literal", assemble(toks, v))
        add("prefix-word", "q " + base)
        add("prefix-glued", "q" + base)
        add("suffix-word", base + " q")
        add("suffix-glued", base + "q")
    return out


# =============================================================================
# real side
# =============================================================================
CALLS = []


def f1(context, *args, **kwargs):
    CALLS.append(("f1", args, kwargs))


def f2(context, *args, **kwargs):
    CALLS.append(("f2", args, kwargs))


def f3(context, *args, **kwargs):
    CALLS.append(("f3", args, kwargs))


def f4(context, *args, **kwargs):
    CALLS.append(("f4", args, kwargs))


def f5(context, *args, **kwargs):
    CALLS.append(("f5", args, kwargs))


def f6(context, *args, **kwargs):
    CALLS.append(("f6", args, kwargs))


FUNCS = (f1, f2, f3, f4, f5, f6)


class _Null(object):
    def __enter__(self):
        return self

    def __exit__(self, *exc):
        return False


class StubContext(object):
    """the only thing Match.run() needs from a context"""
    def use_with_user_mode(self):
        return _Null()


_B = {}


def init_worker():
    import parse
    import behave
    from behave import matchers
    from behave.step_registry import StepRegistry, AmbiguousStep
    from behave.model import Step

    @parse.with_pattern(r"red|green|blue")
    def parse_color(text):
        return ("color", text)

    @parse.with_pattern(r"\d+")
    def parse_number(text):
        if text == "13":
            raise ValueError("unlucky number")
        return ("num", int(text))

    _B.update(behave=behave, matchers=matchers, StepRegistry=StepRegistry, AmbiguousStep=AmbiguousStep, Step=Step,
              color=parse_color, number=parse_number, ctx=StubContext(),
              kindname={matchers.ParseMatcher: "parse", matchers.CFParseMatcher: "cfparse",
                        matchers.SimplifiedRegexMatcher: "re", matchers.CucumberRegexMatcher: "re0",
                        matchers.RegexMatcher: "re0"})


def reset_state():
    """process-wide behave state this check touches: matcher factory + custom type registry"""
    m = _B["matchers"]
    fac = m.get_step_matcher_factory()
    fac.reset()
    fac.use_default_step_matcher("parse")
    m.ParseMatcher.TYPE_REGISTRY.clear()
    _B["behave"].register_type(Color=_B["color"], Number=_B["number"])
    del CALLS[:]


def run_match(m):
    """invoke the step function through the real Match.run -> ('called', [(f, args, kwargs)..]) | ('raised', cls)"""
    del CALLS[:]
    try:
        m.run(_B["ctx"])
    except Exception as e:          # noqa
        return ("raised", type(e).__name__, list(CALLS))
    return ("called", None, list(CALLS))


# =============================================================================
# part (a): the case function
# =============================================================================
def match_case(case):
    """case = (kind, tokens) -> all texts;  (kind, tokens, text) -> that text only (replay)"""
    if not _B:
        init_worker()
    kind, toks = case[0], tuple(case[1])
    only = case[2] if len(case) > 2 else None
    reset_state()
    pattern, elements = render(kind, toks)
    _B["behave"].use_step_matcher(REAL_KIND[kind])
    reg = _B["StepRegistry"]()
    try:
        reg.make_decorator("given")(pattern)(f1)
        ok = len(reg.steps["given"]) == 1
        err = "not registered (bad step definition)"
    except Exception as e:      # noqa
        ok, err = False, repr(e)
    reset_state()       # the module boundary: matcher kind of a definition is fixed at registration
    if not ok:
        return [{"case": case, "out": (kind, "registration", "failed"), "dg": err,
                 "v": [({"subcheck": "match", "clause": "pattern-not-registrable", "kind": kind},
                        "pattern %r (%s) could not be registered: %s" % (pattern, kind, err))]}]
    ncapt = sum(1 for t in toks if TOKENS[t][3])
    results = []
    Step = _B["Step"]
    for variant, text in texts_for(toks):
        if only is not None and text != only:
            continue
        v = []
        where = "pattern %r (%s), step text %r" % (pattern, kind, text)
        full = decompose(elements, text)
        accept = full
        if kind == "re0":
            accept = decompose(elements, text, prefix_only=True)
        good = [norm_decomp(d) for d in accept if not has_raise(d)]
        anyraise = any(has_raise(d) for d in accept)
        m = reg.find_match(Step("c11.feature", 1, u"Given", "given", text))
        obs = None
        if m is None:
            outcome = "none"
            if full and not (anyraise and all(has_raise(d) for d in full)):
                v.append(({"subcheck": "match", "clause": "instance-not-bound", "kind": kind, "text": variant},
                          "%s: the text is an instance %r but no definition was bound" % (where, full[0])))
        else:
            args = m.arguments
            ran = run_match(m)
            if type(m).__name__ == "MatchWithError" or args is None:
                outcome = "converr"
                obs = ("converr", ran)
                if ran[2]:
                    v.append(({"subcheck": "dispatch", "clause": "called-after-converter-error", "kind": kind},
                              "%s: converter raised but the step function was called: %r" % (where, ran[2])))
                if ran[0] != "raised":
                    v.append(({"subcheck": "dispatch", "clause": "converter-error-lost", "kind": kind},
                              "%s: match carries a conversion error but run() did not raise" % where))
                if not anyraise:
                    if not full and kind in FULL_TEXT_KINDS:
                        v.append(({"subcheck": "match", "clause": "binds-non-instance", "kind": kind, "text": variant},
                                  "%s: not an instance, but bound (with a matching error)" % where))
                    elif full:
                        v.append(({"subcheck": "match", "clause": "spurious-converter-error", "kind": kind},
                                  "%s: instance %r, no converter raises for it, but matching reported an error"
                                  % (where, full[0])))
            else:
                got = tuple((a.start, a.end, a.original, typed(a.value), a.name) for a in args)
                obs = (got, ran)
                npos = sum(1 for a in args if a.name is None)
                outcome = "bound p%d k%d" % (npos, len(args) - npos)
                # -- every reported argument delimits its original text; ordered, non-overlapping
                last_end = 0
                for (s, e, o, _, nm) in got:
                    if not (isinstance(s, int) and isinstance(e, int) and 0 <= s <= e <= len(text)
                            and text[s:e] == o):
                        v.append(({"subcheck": "arguments", "clause": "span-does-not-delimit-original", "kind": kind},
                                  "%s: argument %r has start=%r end=%r original=%r but text[start:end]=%r"
                                  % (where, nm, s, e, o, text[s:e] if isinstance(s, int) and isinstance(e, int) else None)))
                    elif s < last_end:
                        v.append(({"subcheck": "arguments", "clause": "spans-unordered-or-overlapping", "kind": kind},
                                  "%s: arguments %r" % (where, got)))
                    if isinstance(e, int):
                        last_end = max(last_end, e)
                if not full and kind in FULL_TEXT_KINDS:
                    v.append(({"subcheck": "match", "clause": "binds-non-instance", "kind": kind, "text": variant},
                              "%s: the text is not an instance of the pattern, but the definition was bound with %r"
                              % (where, got)))
                elif accept:
                    if got not in good:
                        if not good:
                            v.append(({"subcheck": "arguments", "clause": "converter-error-swallowed", "kind": kind},
                                      "%s: the converter raises for this text, but the step was bound with %r"
                                      % (where, got)))
                        else:
                            want = good[0]
                            if len(want) != len(got):
                                clause = "argument-count"
                            elif [w[4] for w in want] != [g[4] for g in got]:
                                clause = "argument-names-or-order"
                            elif [w[3] for w in want] != [g[3] for g in got]:
                                clause = "argument-value"
                            else:
                                clause = "argument-span"
                            v.append(({"subcheck": "arguments", "clause": clause, "kind": kind},
                                      "%s: Match.arguments = %r, expected %s%r"
                                      % (where, got, "one of " if len(good) > 1 else "", good if len(good) > 1 else want)))
                # -- dispatch: exactly one call of the registered function, anonymous values by position in
                #    text order, named ones by keyword
                basis = got
                want_args = tuple(val for (_, _, _, val, nm) in basis if nm is None)
                want_kw = dict((nm, val) for (_, _, _, val, nm) in basis if nm is not None)
                calls = ran[2]
                if ran[0] != "called" or len(calls) != 1 or calls[0][0] != "f1":
                    v.append(({"subcheck": "dispatch", "clause": "function-not-called-once", "kind": kind},
                              "%s: Match.run -> %r" % (where, ran)))
                else:
                    rargs = tuple(typed(x) for x in calls[0][1])
                    rkw = dict((k, typed(x)) for k, x in calls[0][2].items())
                    if rargs != want_args or rkw != want_kw:
                        v.append(({"subcheck": "dispatch", "clause": "received-arguments", "kind": kind,
                                   "what": "positional" if rargs != want_args else "keyword"},
                                  "%s: step function received args=%r kwargs=%r, expected args=%r kwargs=%r"
                                  % (where, rargs, rkw, want_args, want_kw)))
        nt = None
        if (full and ncapt and outcome.startswith("bound")) or (not full and kind in FULL_TEXT_KINDS):
            nt = (kind, toks, variant)
        # oracle-side class of the text (the vacuity guards look at this, not at what behave did)
        if not full:
            oclass = "non-instance"
        else:
            d0 = full[0]
            npos = sum(1 for a in d0 if a[4] is None)
            oclass = "instance p%d k%d%s%s" % (npos, len(d0) - npos, " raises" if has_raise(d0) else "",
                                                " zero-width" if any(a[0] == a[1] for a in d0) else "")
        results.append({"case": (kind, toks, text), "v": v, "nt": nt, "out": (kind, variant, oclass, outcome),
                        "dg": (text, outcome, obs)})
    return results


def match_cases(kind_tokens, lengths):
    for n in lengths:
        for kind in ("parse", "cfparse", "re", "re0^$", "re0"):
            if kind not in kind_tokens:
                continue
            for toks in itertools.product(kind_tokens[kind], repeat=n):
                yield (kind, toks)


# =============================================================================
# part (b): registration histories
# =============================================================================
TYPES = ("given", "when", "then", "step")
KINDS = ("parse", "cfparse", "re", "re0")
POOL = ("a bb", "a {x}", "{x} bb", "a (?P<x>\\w+)", "a", "c d")
# meaning of each pool string under the two pattern languages, written by hand as element lists
POOL_SEM = {
    ("a bb", "p"): (("lit", "a bb"),),                      ("a bb", "r"): (("lit", "a bb"),),
    ("a {x}", "p"): (("lit", "a "), ("fld", "x", "x")),      ("a {x}", "r"): (("lit", "a {x}"),),
    ("{x} bb", "p"): (("fld", "x", "x"), ("lit", " bb")),    ("{x} bb", "r"): (("lit", "{x} bb"),),
    ("a (?P<x>\\w+)", "p"): (("lit", "a (?P<x>\\w+)"),),     ("a (?P<x>\\w+)", "r"): (("lit", "a "), ("fld", "rx", "x")),
    ("a", "p"): (("lit", "a"),),                            ("a", "r"): (("lit", "a"),),
    ("c d", "p"): (("lit", "c d"),),                        ("c d", "r"): (("lit", "c d"),),
}
LOOKUP_TEXTS = ("a bb", "a foo", "foo bb", "a", "c d", "a bb q", "q a bb", "A bb", "a {x}")
FAMILY = {"parse": "p", "cfparse": "p", "re": "r", "re0": "r"}


def make_ops(types, nfuncs):
    ops = [("R", t, p, f) for t in types for p in range(len(POOL)) for f in range(nfuncs)]
    ops += [("M", k) for k in KINDS]
    ops += [("B",), ("D",)]
    return tuple(ops)


ALPHABETS = {
    "small": make_ops(("given", "when", "step"), 2),
    "full": make_ops(TYPES, 3),
}

_REFM = {}


def ref_instances(pattern, kind, text):
    key = (pattern, kind, text)
    r = _REFM.get(key)
    if r is None:
        r = decompose(POOL_SEM[(pattern, FAMILY[kind])], text, prefix_only=(kind == "re0"))
        r = tuple(tuple(sorted((nm, typed(val)) for (_, _, _, val, nm) in d)) for d in r)
        _REFM[key] = r
    return r


class Ref(object):
    """reference registry + matcher factory: a state is (lists, current, default)"""
    def __init__(self):
        self.lists = dict((t, []) for t in TYPES)
        self.cur = "parse"
        self.default = "parse"

    def canon(self):
        return (tuple(tuple(self.lists[t]) for t in TYPES), self.cur, self.default)

    def expect(self, op):
        """-> expected outcome of a registration: 'ignored' | 'ambiguous' | 'added' | 'silent'"""
        _, t, p, f = op
        pattern = POOL[p]
        lst = self.lists[t]
        same = [ek for (ep, ek, ef) in lst if ep == pattern and ef == f]
        if self.cur in same:
            return "ignored", self.cur
        if same:
            # same function and same text, but registered under another matcher kind: the text is then a
            # pattern of a different pattern language - "the very same pattern" is not settled -> any outcome
            return "silent", same[0]
        for (ep, ek, ef) in lst:
            if ref_instances(ep, ek, pattern):
                return "ambiguous", ek
        for (ep, ek, ef) in lst:
            if ep == pattern:
                return "silent", ek
        return "added", None

    def apply(self, op, added=None):
        if op[0] == "R":
            if added:
                self.lists[op[1]].append((POOL[op[2]], self.cur, op[3]))
        elif op[0] == "M":
            self.cur = op[1]
        elif op[0] == "B":
            self.cur = self.default
        elif op[0] == "D":
            self.default = self.cur

    def lookup(self, step_type, text):
        """-> (function index, accepted kwargs sets, competition class) of the first matching definition in
        [type list ++ generic list], or None"""
        cands = [(e, "typed") for e in self.lists[step_type]]
        if step_type != "step":
            cands += [(e, "generic") for e in self.lists["step"]]
        hits = [(e, src) for (e, src) in cands if ref_instances(e[0], e[1], text)]
        if not hits:
            return None
        (ep, ek, ef), src = hits[0]
        if len(hits) == 1:
            comp = "single"
        elif src == "typed" and any(s == "generic" for (_, s) in hits[1:]) and not any(s == "typed" for (_, s) in hits[1:]):
            comp = "typed-before-generic"
        elif all(s == src for (_, s) in hits[1:]):
            comp = "earlier-before-later"
        else:
            comp = "mixed"
        return ef, ref_instances(ep, ek, text), comp, src


def real_abstraction(reg):
    kn = _B["kindname"]
    fac = _B["matchers"].get_step_matcher_factory()
    lists = tuple(tuple((kn.get(type(m), type(m).__name__), m.func.__name__) for m in reg.steps[t]) for t in TYPES)
    return lists, kn.get(fac.current_matcher), kn.get(fac.default_matcher)


def apply_real(reg, op):
    try:
        if op[0] == "R":
            reg.make_decorator(op[1])(POOL[op[2]])(FUNCS[op[3]])
        elif op[0] == "M":
            _B["behave"].use_step_matcher(op[1])
        elif op[0] == "B":
            _B["behave"].use_default_step_matcher()
        elif op[0] == "D":
            _B["matchers"].use_current_step_matcher_as_default()
    except Exception as e:      # noqa
        return type(e).__name__
    return None


def step_both(reg, ref, op, v, hist):
    """one transition on the real objects and on the reference; appends violations; returns observation"""
    before = real_abstraction(reg)
    expected = ref.expect(op) if op[0] == "R" else (None, None)
    exc = apply_real(reg, op)
    after = real_abstraction(reg)
    where = "history %r then %r" % (hist, describe_op(op))
    if op[0] == "R":
        ti = TYPES.index(op[1])
        grew = len(after[0][ti]) - len(before[0][ti])
        exp, ekind = expected
        lst = "generic" if op[1] == "step" else "typed"
        if exc not in (None, "AmbiguousStep"):
            v.append(({"subcheck": "history.register", "clause": "unexpected-exception", "exc": exc},
                      "%s raised %s" % (where, exc)))
        elif exp == "ignored":
            if exc is not None or grew:
                v.append(({"subcheck": "history.register", "clause": "identical-not-ignored", "existing_kind": ekind},
                          "%s: the same function and pattern are already registered for this type (with matcher %r); "
                          "expected to be ignored, but %s"
                          % (where, ekind, "AmbiguousStep was raised" if exc else "a second definition was added")))
        elif exp == "ambiguous":
            if exc != "AmbiguousStep":
                v.append(({"subcheck": "history.register", "clause": "ambiguous-not-rejected", "existing_kind": ekind,
                           "list": lst},
                          "%s: an existing %s definition of this type matches the new pattern text; expected "
                          "AmbiguousStep, got %r (definitions added: %d)" % (where, ekind, exc, grew)))
        elif exp == "added":
            if exc is not None or grew != 1:
                v.append(({"subcheck": "history.register", "clause": "rejected-although-unambiguous", "list": lst,
                           "current_kind": ref.cur},
                          "%s: no existing definition of this type matches the pattern; expected it to be added, "
                          "got %r (definitions added: %d)" % (where, exc, grew)))
        if exc is not None and grew:
            v.append(({"subcheck": "history.register", "clause": "rejected-but-registry-changed"},
                      "%s raised %s but the number of definitions changed by %d" % (where, exc, grew)))
        ref.apply(op, added=(grew > 0))
    else:
        if exc is not None:
            v.append(({"subcheck": "history.factory", "clause": "unexpected-exception", "op": op[0], "exc": exc},
                      "%s raised %s" % (where, exc)))
        ref.apply(op)
    # -- state comparison: matcher factory, (kind, function) lists per type
    canon = ref.canon()
    want_lists = tuple(tuple((k, "f%d" % (f + 1)) for (p, k, f) in lst) for lst in canon[0])
    if (after[1], after[2]) != (canon[1], canon[2]):
        v.append(({"subcheck": "history.factory", "clause": "current-or-default-matcher", "op": op[0]},
                  "%s: matcher factory has current=%r default=%r, expected current=%r default=%r"
                  % (where, after[1], after[2], canon[1], canon[2])))
    if after[0] != want_lists:
        v.append(({"subcheck": "history.state", "clause": "definitions-differ", "op": op[0]},
                  "%s: registry holds %r, expected %r" % (where, after[0], want_lists)))
    return exc, after


def describe_op(op):
    if op[0] == "R":
        return "@%s(%r)(f%d)" % (op[1], POOL[op[2]], op[3] + 1)
    if op[0] == "M":
        return "use_step_matcher(%r)" % op[1]
    return {"B": "use_default_step_matcher()", "D": "use_current_step_matcher_as_default()"}[op[0]]


_STEPS = {}


def lookup_step(t, text):
    """the model Step of a lookup (built once per worker; find_match only reads step_type and name)"""
    key = (t, text)
    st = _STEPS.get(key)
    if st is None:
        st = _STEPS[key] = _B["Step"]("c11.feature", 1, t.title(), t, text)
    return st


LOOKUPS = tuple((t, text) for t in TYPES for text in LOOKUP_TEXTS)


def registry_snapshot(reg):
    """everything a later registration or lookup depends on, by object identity: the per-type lists (keys, lengths,
    the very matcher objects in order) and the matcher factory.  Only ever compared inside one execution."""
    fac = _B["matchers"].get_step_matcher_factory()
    return (tuple((t, tuple(id(m) for m in reg.steps[t])) for t in sorted(reg.steps)),
            id(fac.current_matcher), id(fac.default_matcher))


def snapshot_diff(t, s0, s1):
    """which part of the registry a lookup of step type t changed"""
    if s0[1:] != s1[1:]:
        return "matcher-factory"
    d0, d1 = dict(s0[0]), dict(s1[0])
    changed = [k for k in sorted(set(d0) | set(d1)) if d0.get(k) != d1.get(k)]
    if changed == [t]:
        return "list-of-the-looked-up-type"
    if changed == ["step"]:
        return "generic-list"
    return "other-lists"


def touch_lookups(reg):
    """the L-edges of an intermediate state of a replayed history, executed on the live registry (they were compared
    with the reference and checked for being self-loops when that prefix was the expanded state)"""
    for (t, text) in LOOKUPS:
        step = lookup_step(t, text)
        reg.find_match(step)
        reg.find_step_definition(step)


def all_lookups(reg, ref, v, where):
    """the lookup operations L(step type, text) out of the current state: registry.find_match (+ Match.run) and
    registry.find_step_definition on the LIVE registry, one after the other.  Each is compared with the reference
    registry and checked for being a self-loop (registry_snapshot before == after)."""
    obs = []
    ncomp = 0
    snap = registry_snapshot(reg)
    for (t, text) in LOOKUPS:
        step = lookup_step(t, text)
        lt = "generic" if t == "step" else "typed"
        want = ref.lookup(t, text)
        m = reg.find_match(step)
        snap1 = registry_snapshot(reg)
        if snap1 != snap:
            v.append(({"subcheck": "history.lookup", "clause": "lookup-changed-registry", "api": "find_match",
                       "lookup": lt, "changed": snapshot_diff(t, snap, snap1)},
                      "%s: lookup find_match(%s, %r) changed the registry: per-type definition counts %r -> %r"
                      % (where, t, text, [(k, len(x)) for (k, x) in snap[0]], [(k, len(x)) for (k, x) in snap1[0]])))
            snap = snap1
        d = reg.find_step_definition(step)
        snap1 = registry_snapshot(reg)
        if snap1 != snap:
            v.append(({"subcheck": "history.lookup", "clause": "lookup-changed-registry",
                       "api": "find_step_definition", "lookup": lt, "changed": snapshot_diff(t, snap, snap1)},
                      "%s: lookup find_step_definition(%s, %r) changed the registry: per-type definition counts "
                      "%r -> %r" % (where, t, text, [(k, len(x)) for (k, x) in snap[0]],
                                    [(k, len(x)) for (k, x) in snap1[0]])))
            snap = snap1
        dname = None if d is None else getattr(d.func, "__name__", repr(d.func))
        if m is None:
            got = None
        else:
            ran = run_match(m)
            calls = ran[2]
            if ran[0] != "called" or len(calls) != 1:
                got = ("bad-run", ran[0], ran[1], len(calls))
            else:
                got = (calls[0][0], calls[0][1], tuple(sorted((k, typed(x)) for k, x in calls[0][2].items())))
        obs.append((got, dname))
        wname = None if want is None else "f%d" % (want[0] + 1)
        if dname != wname:
            v.append(({"subcheck": "history.lookup", "clause": "find_step_definition-differs", "lookup": lt},
                      "%s: find_step_definition(%s, %r) -> definition of %r, expected %r"
                      % (where, t, text, dname, wname)))
        if want is None:
            if got is not None:
                v.append(({"subcheck": "history.lookup", "clause": "bound-although-nothing-matches",
                           "lookup": lt},
                          "%s: lookup (%s, %r) -> %r, but no registered definition of that type or generic "
                          "matches the text" % (where, t, text, got)))
            continue
        f, kwsets, comp, src = want
        if comp != "single":
            ncomp += 1
        if got is None:
            v.append(({"subcheck": "history.lookup", "clause": "not-bound", "lookup": lt, "winner": src,
                       "competition": comp},
                      "%s: lookup (%s, %r) -> nothing, expected f%d" % (where, t, text, f + 1)))
        elif got[0] != "f%d" % (f + 1):
            v.append(({"subcheck": "history.lookup", "clause": "wrong-definition", "lookup": lt, "winner": src,
                       "competition": comp},
                      "%s: lookup (%s, %r) -> %r, expected f%d (%s, %s)"
                      % (where, t, text, got, f + 1, src, comp)))
        elif got[1] != () or got[2] not in kwsets:
            v.append(({"subcheck": "history.lookup", "clause": "wrong-arguments", "lookup": lt},
                      "%s: lookup (%s, %r) -> %r, expected keyword arguments %r" % (where, t, text, got, kwsets)))
    return obs, ncomp


def history_case(case):
    """case = (alphabet id, history, mode)  mode: 'expand' (return successors) | 'last' (only successor hashes)
    | ('op', i) replay of one transition.  The state reached by `history` is expanded by every operation."""
    if not _B:
        init_worker()
    alpha, hist, mode = case
    ops = ALPHABETS[alpha]
    hist = tuple(tuple(o) for o in hist)
    results = []
    succ = []
    nontrivial = 0
    trans = 0
    ledges = 0
    dg = []
    outs = {}
    for oi, op in enumerate(ops):
        if isinstance(mode, (tuple, list)) and mode[1] != oi:
            continue
        v = []
        reset_state()
        reg = _B["StepRegistry"]()
        ref = Ref()
        scratch = []
        for k, h in enumerate(hist):
            step_both(reg, ref, h, scratch, hist[:k])      # validated when that prefix was expanded
            touch_lookups(reg)                             # ... followed by its L-edges, on the live registry
        parent = ref.canon()
        exp = ref.expect(op)[0] if op[0] == "R" else op[0]
        exc, after = step_both(reg, ref, op, v, hist)
        where = "history %r (every operation followed by all lookups)" % ([describe_op(o) for o in hist + (op,)],)
        obs, ncomp = all_lookups(reg, ref, v, where)
        trans += 1
        ledges += 2 * len(LOOKUPS)
        canon = ref.canon()
        if exp in ("ignored", "ambiguous") or ncomp:
            nontrivial += 1
        key = (exp, str(exc), "competing" if ncomp else "plain")
        outs[key] = outs.get(key, 0) + 1
        if canon != parent:
            succ.append((canon, hist + (op,)))
        dg.append((exc, after, obs))
        for desc, msg in v:
            results.append({"case": (alpha, hist, ("op", oi)), "v": [(desc, msg)], "n": 0})
    reset_state()
    main = {"case": case, "n": trans, "dg": dg,
            "st": {"states": 0, "transitions": trans, "traces": trans, "lookup_edges": ledges}}
    if nontrivial:
        main["nt"] = digest((alpha, hist))
    if mode == "expand":
        main["keep"] = ("succ", [(hash(c), h) for (c, h) in succ])
    elif mode == "last":
        main["keep"] = ("hash", [hash(c) for (c, _) in succ])
    # outcome classes: one synthetic result per class keeps the outcome histogram meaningful
    for key, cnt in sorted(outs.items()):
        results.append({"case": case, "out": ("history",) + key, "n": 0, "dg": None})
    results.insert(0, main)
    return results


# =============================================================================
# part (c): "converter raises" inside the REGISTRATION alphabet (ambiguity detection), then dispatch
# =============================================================================
# custom type T = regex x converter.  Reference semantics of a definition: it matches a text iff the text can be cut
# into its elements (the field's regular language accepts the field text) AND every converter succeeds.
T_REGEX = {                       # name -> (pattern attribute given to parse or None, hand-written recogniser)
    "tight": (r"red|green|blue", acc_color),
    "nodigit": (r"\D+", lambda s: len(s) > 0 and not any(c in DIG for c in s)),
    "nospace": (r"\S+", lambda s: len(s) > 0 and not any(c in " \t\n\r\f\v" for c in s)),
    "none": (None, lambda s: len(s) > 0),
}
T_CONV = {                        # name -> reference converter
    "total": lambda s: ("c", s),
    "raises-on-blue": lambda s: RAISE if s == "blue" else ("c", s),
    "names-only": lambda s: ("c", s) if s in COLORS else RAISE,      # raises on every pattern source text
}
for _rk in T_REGEX:
    for _ck in T_CONV:
        TOKENS["T/%s/%s" % (_rk, _ck)] = ("p", "{%s:T}", "c", True, False, T_REGEX[_rk][1], T_CONV[_ck], ())

CPOOL = ("a {c:T}", "a {n:d}", "a lvl {n:d}", "a red", "a blue", "a {x}")


def cpool_elements(i, rk, ck):
    return ((("lit", "a "), ("fld", "T/%s/%s" % (rk, ck), "c")),
            (("lit", "a "), ("fld", "d", "n")),
            (("lit", "a lvl "), ("fld", "d", "n")),
            (("lit", "a red"),),
            (("lit", "a blue"),),
            (("lit", "a "), ("fld", "x", "x")))[i]


CDISPATCH = ("a red", "a blue", "a green", "a 7", "a lvl 7", "a lvl x", "a foo", "a {n:d}", "a lvl {n:d}", "a {c:T}",
             "c d")


def make_real_type(rk, ck):
    def convert_T(text):
        if ck == "raises-on-blue" and text == "blue":
            raise ValueError("no blue")
        if ck == "names-only" and text not in COLORS:
            raise KeyError(text)
        return ("c", text)
    if T_REGEX[rk][0] is not None:
        convert_T.pattern = T_REGEX[rk][0]
    return convert_T


def ref_match_class(elements, text):
    """-> ('no', None) | ('raises', None) | ('matches', kwargs)   (the cut is unique for the pool's patterns)"""
    ds = decompose(elements, text)
    if not ds:
        return "no", None
    good = [d for d in ds if not has_raise(d)]
    if not good:
        return "raises", None
    return "matches", tuple(sorted((nm, typed(val)) for (_, _, _, val, nm) in good[0]))


def convreg_case(case):
    """case = (matcher kind, regex kind, converter kind, ((pool index, function index), ...)): the registrations in
    order for step type 'given', each compared with the reference; then every dispatch text is looked up and run."""
    if not _B:
        init_worker()
    kind, rk, ck, regs = case
    reset_state()
    _B["behave"].register_type(T=make_real_type(rk, ck))
    _B["behave"].use_step_matcher(kind)
    reg = _B["StepRegistry"]()
    ref = []                    # [(pool index, function index)]
    v, dg, outs = [], [], []
    crux = False
    for (pi, fi) in regs:
        pattern = CPOOL[pi]
        where = "matcher %s, type T = regex %s x converter %s, registered %r, then @given(%r)(f%d)" % (
            kind, rk, ck, [(CPOOL[a], "f%d" % (b + 1)) for (a, b) in ref], pattern, fi + 1)
        classes = [(ref_match_class(cpool_elements(epi, rk, ck), pattern)[0], epi, efi) for (epi, efi) in ref]
        if any(epi == pi and efi == fi for (_, epi, efi) in classes):
            exp = "ignored"
        elif any(c == "matches" for (c, _, _) in classes):
            exp = "ambiguous"
        elif any(epi == pi for (_, epi, _) in classes):
            exp = "silent"      # same pattern string, other function, not a real match: statement silent
        else:
            exp = "added"
        why = "converter-raises" if any(c == "raises" for (c, _, _) in classes) else "regex-rejects"
        if exp == "added" and why == "converter-raises":
            crux = True
        before = len(reg.steps["given"])
        try:
            reg.make_decorator("given")(pattern)(FUNCS[fi])
            exc = None
        except Exception as e:      # noqa
            exc = type(e).__name__
        grew = len(reg.steps["given"]) - before
        if exc not in (None, "AmbiguousStep"):
            v.append(({"subcheck": "convreg.register", "clause": "unexpected-exception", "exc": exc},
                      "%s raised %s" % (where, exc)))
        elif exp == "ignored" and (exc or grew):
            v.append(({"subcheck": "convreg.register", "clause": "identical-not-ignored"},
                      "%s: same function and pattern already registered, got %r (added %d)" % (where, exc, grew)))
        elif exp == "ambiguous" and exc != "AmbiguousStep":
            v.append(({"subcheck": "convreg.register", "clause": "ambiguous-not-rejected", "regex": rk, "converter": ck},
                      "%s: an existing definition really matches the new pattern text (regex accepts it, all "
                      "converters succeed); expected AmbiguousStep, got %r (added %d)" % (where, exc, grew)))
        elif exp == "added" and (exc is not None or grew != 1):
            v.append(({"subcheck": "convreg.register", "clause": "rejected-although-no-existing-definition-matches",
                       "existing": why},
                      "%s: no existing definition matches the new pattern text (%s), expected it to be added, got %r "
                      "(added %d); existing definitions vs. the text: %r"
                      % (where, "the regex of one accepts it but its converter raises on it" if why == "converter-raises"
                         else "no regex accepts it", exc, grew, [(CPOOL[a], c) for (c, a, _) in classes])))
        if exc is not None and grew:
            v.append(({"subcheck": "convreg.register", "clause": "rejected-but-registry-changed"},
                      "%s raised %s but %d definitions were added" % (where, exc, grew)))
        if grew > 0:
            ref.append((pi, fi))            # the reference follows the implementation (silent case / after a report)
        outs.append((exp, why if exp == "added" else ""))
        dg.append((pattern, exc, grew))
    reset_state()                           # module boundary: matching must not depend on the factory state
    _B["behave"].register_type(T=make_real_type(rk, ck))
    shadow = False
    for t in ("given", "when"):
        for text in CDISPATCH:
            where = "matcher %s, T = regex %s x converter %s, @given definitions %r, lookup (%s, %r)" % (
                kind, rk, ck, [(CPOOL[a], "f%d" % (b + 1)) for (a, b) in ref], t, text)
            cands = ref if t == "given" else []
            classes = [(ref_match_class(cpool_elements(epi, rk, ck), text), efi) for (epi, efi) in cands]
            winner = next(((kw, efi) for ((c, kw), efi) in classes if c == "matches"), None)
            # statement silent: a candidate in front of the winner whose regex accepts the text but whose converter
            # raises may surface as a match-with-error (run() raises, no function called) instead of the winner
            nfront = len(classes) if winner is None else [c == "matches" for ((c, _), _) in classes].index(True)
            may_error = any(c == "raises" for ((c, _), _) in classes[:nfront])
            m = reg.find_match(lookup_step(t, text))
            if m is None:
                got = None
            else:
                ran = run_match(m)
                if type(m).__name__ == "MatchWithError":
                    got = ("match-with-error", ran[0], len(ran[2]))
                elif ran[0] != "called" or len(ran[2]) != 1:
                    got = ("bad-run", ran[0], ran[1], len(ran[2]))
                else:
                    c0 = ran[2][0]
                    got = (c0[0], c0[1], tuple(sorted((k, typed(x)) for k, x in c0[2].items())))
            dg.append((t, text, got))
            if got is not None and got[0] == "match-with-error":
                shadow = shadow or may_error
                if got[1:] != ("raised", 0):
                    v.append(({"subcheck": "convreg.dispatch", "clause": "called-after-converter-error"},
                              "%s: match with a conversion error, but run() -> %r" % (where, got)))
                elif not may_error:
                    v.append(({"subcheck": "convreg.dispatch", "clause": "spurious-converter-error"},
                              "%s: reported a conversion error, but no candidate in front of the expected definition "
                              "has a raising converter for this text (%r)" % (where, [c for (c, _) in classes])))
            elif winner is None:
                if got is not None:
                    v.append(({"subcheck": "convreg.dispatch", "clause": "bound-although-nothing-matches",
                               "lookup": "registered-type" if t == "given" else "other-type"},
                              "%s -> %r, but no definition of that type matches" % (where, got)))
                elif may_error:
                    shadow = True
            elif got is None:
                v.append(({"subcheck": "convreg.dispatch", "clause": "not-bound"},
                          "%s -> nothing, expected f%d%r" % (where, winner[1] + 1, winner[0])))
            elif got[0] == "bad-run":
                v.append(({"subcheck": "convreg.dispatch", "clause": "function-not-called-once"},
                          "%s -> %r" % (where, got)))
            elif got[0] != "f%d" % (winner[1] + 1):
                v.append(({"subcheck": "convreg.dispatch", "clause": "wrong-definition"},
                          "%s -> %r, expected f%d%r" % (where, got, winner[1] + 1, winner[0])))
            elif got[1] != () or got[2] != winner[0]:
                v.append(({"subcheck": "convreg.dispatch", "clause": "wrong-arguments"},
                          "%s -> %r, expected keyword arguments %r" % (where, got, winner[0])))
    reset_state()
    return {"v": v, "dg": dg, "n": len(regs) + 2 * len(CDISPATCH),
            "nt": case if (crux or shadow) else None,
            "out": ("convreg", kind, tuple(outs), "error-shadows" if shadow else "")}


def convreg_cases(sizes):
    for n in sizes:
        for kind in ("parse", "cfparse"):
            for rk in ("tight", "nodigit", "nospace", "none"):
                for ck in ("total", "raises-on-blue", "names-only"):
                    for pats in itertools.product(range(len(CPOOL)), repeat=n):
                        # functions: f1, f2, f3 in order; a repeated pattern also once with the same function
                        variants = [tuple(range(n))]
                        if len(set(pats)) < n:
                            first = {}
                            variants.append(tuple(first.setdefault(p, i) for i, p in enumerate(pats)))
                        for fs in variants:
                            yield (kind, rk, ck, tuple(zip(pats, fs)))


# =============================================================================
# part (d): module-loading histories - sequences of load_step_modules() calls in one process
# =============================================================================
# module kinds: N = never switches; B<k> = use_step_matcher(k), one definition, use_step_matcher("parse"), one
# definition; S<k> = one definition, use_step_matcher(k), one definition, does NOT switch back
MODULE_KINDS = ("N", "Bre", "Bcfparse", "Sre", "Scfparse")
UPFRONTS = (None, ("use", "re"), ("use", "cfparse"), ("default", "re"), ("default", "cfparse"))
_ROOT = [None]


def modules_root():
    """scratch directory for the generated step modules (created by the driver before the workers are forked and
    removed at the end of run(); created on demand and removed at exit in a --replay process)"""
    if _ROOT[0] is None or not os.path.isdir(_ROOT[0]):
        base = "/dev/shm" if os.path.isdir("/dev/shm") else None
        _ROOT[0] = tempfile.mkdtemp(prefix="c11-stepmodules-", dir=base)
        atexit.register(shutil.rmtree, _ROOT[0], True)
    return _ROOT[0]


def module_source(tag, kind):
    def definition(suffix):
        name = "%s%s" % (tag, suffix)
        return ("@given(u'%s takes {n:d}')\ndef %s(context, *args, **kwargs):\n"
                "    context.calls.append(('%s', args, kwargs))\n\n" % (name, name, name))
    if kind == "N":
        return definition("a")
    k = kind[1:]
    if kind[0] == "B":
        return "use_step_matcher('%s')\n\n%suse_step_matcher('parse')\n\n%s" % (k, definition("a"), definition("b"))
    return "%suse_step_matcher('%s')\n\n%s" % (definition("a"), k, definition("b"))


def module_plan(j, kinds, project_default):
    """reference (documented protocol): every module starts with the project default -> [(function, matcher kind)]"""
    plan = []
    for i, kind in enumerate(kinds):
        tag = "m%d%d" % (j + 1, i + 1)
        if kind == "N":
            plan.append((tag + "a", project_default))
        elif kind[0] == "B":
            plan += [(tag + "a", kind[1:]), (tag + "b", "parse")]
        else:
            plan += [(tag + "a", project_default), (tag + "b", kind[1:])]
    return plan


def module_dir(j, kinds):
    """directory with the step modules of the j-th load (file names sort in module order); written atomically"""
    d = os.path.join(modules_root(), "load%d-%s" % (j + 1, "-".join(kinds)))
    if not os.path.isdir(d):
        tmp = tempfile.mkdtemp(prefix="tmp-", dir=modules_root())
        for i, kind in enumerate(kinds):
            with open(os.path.join(tmp, "steps_%d_%s.py" % (i + 1, kind)), "w") as f:
                f.write(module_source("m%d%d" % (j + 1, i + 1), kind))
        try:
            os.rename(tmp, d)
        except OSError:             # another worker was faster: same content
            shutil.rmtree(tmp, True)
    return d


def modules_case(case):
    """case = (upfront, (kinds of load 1, kinds of load 2, ...)).  All loads in ONE process state (factory and the
    global step registry are reset only at the start), observation after every load; then dispatch; then every
    later load once more alone in a fresh state (differential oracle)."""
    if not _B:
        init_worker()
    from behave import step_registry
    from behave.runner_util import load_step_modules
    upfront, loads = case
    kn = _B["kindname"]
    fac = _B["matchers"].get_step_matcher_factory()
    greg = step_registry.registry
    D = upfront[1] if upfront else "parse"

    def fresh():
        reset_state()
        greg.clear()
        if upfront:
            if upfront[0] == "use":
                _B["behave"].use_step_matcher(upfront[1])
            else:
                _B["behave"].use_default_step_matcher(upfront[1])

    def definitions():
        return [(m.func.__name__, kn.get(type(m), type(m).__name__)) for t in TYPES for m in greg.steps[t]]

    def load(j, kinds):
        have = set(n for (n, _) in definitions())
        try:
            load_step_modules([module_dir(j, kinds)])
            exc = None
        except Exception as e:          # noqa
            exc = "%s: %s" % (type(e).__name__, e)
        return exc, [d for d in definitions() if d[0] not in have], kn.get(fac.current_matcher), kn.get(fac.default_matcher)

    v, dg = [], []
    setting = "project default %s, loads %r" % (
        "parse (nothing chosen)" if not upfront else "%s (via %s)" % (
            D, "use_step_matcher" if upfront[0] == "use" else "use_default_step_matcher"), loads)
    fresh()
    contributed = []
    leak_opportunity = False
    for j, kinds in enumerate(loads):
        which = "first" if j == 0 else "later"
        where = "%s: after load_step_modules() #%d of modules %r" % (setting, j + 1, kinds)
        exc, new, cur, dflt = load(j, kinds)
        want = module_plan(j, kinds, D)
        contributed.append(new)
        dg.append((exc, new, cur, dflt))
        if j > 0 and loads[j - 1][-1][0] == "S":
            leak_opportunity = True
        if exc:
            v.append(({"subcheck": "modules.load", "clause": "load-raised", "load": which}, "%s: %s" % (where, exc)))
        if cur != D:
            v.append(({"subcheck": "modules.factory", "clause": "current-matcher-not-reset-after-load", "load": which,
                       "last_module": kinds[-1][0]},
                      "%s the current matcher is %r, expected the project default %r" % (where, cur, D)))
        if dflt != D:
            v.append(({"subcheck": "modules.factory", "clause": "default-matcher-changed-by-load", "load": which},
                      "%s the default matcher is %r, expected the project default %r" % (where, dflt, D)))
        if sorted(n for (n, _) in new) != sorted(n for (n, _) in want):
            v.append(({"subcheck": "modules.registration", "clause": "definitions-missing-or-extra", "load": which},
                      "%s registered %r, expected %r" % (where, new, want))
                     )
        else:
            got = dict(new)
            for (n, k) in want:
                if got[n] != k:
                    v.append(({"subcheck": "modules.registration", "clause": "definition-built-by-wrong-matcher",
                               "load": which, "expected": k},
                              "%s definition %s was built by matcher %r, but %r was in force at that point of its "
                              "module" % (where, n, got[n], k)))
    # -- dispatch: a parse/cfparse definition binds 'X takes 7' with n=7, a re definition binds 'X takes {n:d}'
    ctxobj = _B["ctx"]
    for j, kinds in enumerate(loads):
        for (n, k) in module_plan(j, kinds, D):
            for text, binds, kw in (("%s takes 7" % n, k != "re", (("n", "int:7"),)),
                                    ("%s takes {n:d}" % n, k == "re", ())):
                m = greg.find_match(_B["Step"]("c11.feature", 1, u"Given", "given", text))
                ctxobj.calls = []
                got = None
                if m is not None:
                    try:
                        m.run(ctxobj)
                        got = [(c[0], c[1], tuple(sorted((a, typed(b)) for a, b in c[2].items()))) for c in ctxobj.calls]
                    except Exception as e:      # noqa
                        got = "run raised %s" % type(e).__name__
                dg.append((text, got))
                want = [(n, (), kw)] if binds else None
                if got != want:
                    v.append(({"subcheck": "modules.dispatch", "clause": "binding-differs",
                               "load": "first" if j == 0 else "later", "definition_matcher": k,
                               "text": "typed-instance" if text.endswith("7") else "pattern-source"},
                              "%s: step %r -> %r, expected %r (definition %s belongs to matcher %r)"
                              % (setting, text, got, want, n, k)))
    # -- differential: a later load registers in a used process exactly what it registers in a fresh one
    for j, kinds in enumerate(loads):
        if j == 0:
            continue
        fresh()
        exc, new, cur, dflt = load(j, kinds)
        dg.append(("fresh", j, exc, new, cur, dflt))
        if new != contributed[j]:
            v.append(({"subcheck": "modules.registration", "clause": "later-load-differs-from-fresh-process"},
                      "%s: load #%d of %r registered %r in the used process, but %r when it is the first load of a "
                      "fresh process" % (setting, j + 1, kinds, contributed[j], new)))
    reset_state()
    greg.clear()
    nmod = sum(len(k) for k in loads)
    return {"v": v, "dg": dg, "n": len(loads) + max(0, len(loads) - 1),
            "nt": case if any(k != "N" for ks in loads for k in ks) else None,
            "out": ("modules", upfront[0] if upfront else "none", len(loads), nmod,
                    "leak-opportunity" if leak_opportunity else "")}


def modules_cases(max_modules):
    """all sequences of 1-3 loads of 1-3 modules with <= max_modules modules in total, smallest first"""
    shapes = [sh for n in (1, 2, 3) for sh in itertools.product((1, 2, 3), repeat=n) if sum(sh) <= max_modules]
    shapes.sort(key=lambda sh: (sum(sh), len(sh), sh))
    for sh in shapes:
        for kinds in itertools.product(MODULE_KINDS, repeat=sum(sh)):
            loads, pos = [], 0
            for n in sh:
                loads.append(tuple(kinds[pos:pos + n]))
                pos += n
            for up in UPFRONTS:
                yield (up, tuple(loads))


# =============================================================================
# part (e): regular expressions with optional / nested / alternative groups
# =============================================================================
# A pattern is a sequence of 1-3 slots.  Every slot kind gives its regex fragment and its text choices; a text choice
# lists the slot's groups in GROUP-INDEX order as (name, captured text or None, start, end) relative to the fragment -
# known by construction, the re module is not consulted by the oracle.  Keywords are lower-case letters and differ
# per slot position, values are digits / upper-case letters, so the match is unique.
RX_SLOTS = ("L", "G", "Gn", "Ow", "Own", "Od", "Odn", "Ns", "Nm", "Ne", "Nno", "Nni", "No", "A", "Ac", "An")
RX_WRAPPED = ("Ow", "Own")          # (?: kw (group))?  - the separating blank lives inside the optional part


def rx_slot(kind, i):
    """-> (regex fragment, [(text fragment, [(name, value, start, end) | (name, None, -1, -1), ...]), ...])"""
    k = "k" + "abc"[i]
    d = ("3", "41", "7")[i]
    u = ("ZZ", "Y", "XW")[i]
    n = len(k)

    def g(name, val, start):
        return (name, val, start, start + len(val))
    absent = lambda name: (name, None, -1, -1)      # noqa
    if kind == "L":
        return "w" + k, [("w" + k, [])]
    if kind == "G":
        return r"(\d+)", [(d, [g(None, d, 0)])]
    if kind == "Gn":
        return r"(?P<p%d>\d+)" % i, [(d, [g("p%d" % i, d, 0)])]
    if kind in ("Ow", "Own"):
        name = "o%d" % i if kind == "Own" else None
        grp = r"(?P<%s>\d+)" % name if name else r"(\d+)"
        return "%s %s" % (k, grp), [("%s %s" % (k, d), [g(name, d, n + 1)]), (None, [absent(name)])]
    if kind in ("Od", "Odn"):
        name = "o%d" % i if kind == "Odn" else None
        grp = r"(?P<%s>\d+)?" % name if name else r"(\d+)?"
        return k + grp, [(k + d, [g(name, d, n)]), (k, [absent(name)])]
    if kind == "Ns":
        return r"((\d+)x%s)" % k, [(d + "x" + k, [g(None, d + "x" + k, 0), g(None, d, 0)])]
    if kind == "Nm":
        return r"(%s(\d+)x)" % k, [(k + d + "x", [g(None, k + d + "x", 0), g(None, d, n)])]
    if kind == "Ne":
        return r"(x%s(\d+))" % k, [("x" + k + d, [g(None, "x" + k + d, 0), g(None, d, n + 1)])]
    if kind == "Nno":       # outer named, inner unnamed
        return r"(?P<q%d>%s(\d+)x)" % (i, k), [(k + d + "x", [g("q%d" % i, k + d + "x", 0), g(None, d, n)])]
    if kind == "Nni":       # outer unnamed, inner named
        return r"(%s(?P<q%d>\d+)x)" % (k, i), [(k + d + "x", [g(None, k + d + "x", 0), g("q%d" % i, d, n)])]
    if kind == "No":        # optional inner group
        return r"(%s(\d+)?x)" % k, [(k + d + "x", [g(None, k + d + "x", 0), g(None, d, n)]),
                                    (k + "x", [g(None, k + "x", 0), absent(None)])]
    if kind in ("A", "An"):
        n1, n2 = (("a%d" % i, "b%d" % i) if kind == "An" else (None, None))
        g1 = r"(?P<%s>\d+)" % n1 if n1 else r"(\d+)"
        g2 = r"(?P<%s>[A-Z]+)" % n2 if n2 else r"([A-Z]+)"
        return r"(?:%s%sa|%s%sb)" % (g1, k, g2, k), [(d + k + "a", [g(n1, d, 0), absent(n2)]),
                                                     (u + k + "b", [absent(n1), g(n2, u, 0)])]
    if kind == "Ac":
        return r"((\d+)%sa|([A-Z]+)%sb)" % (k, k), [
            (d + k + "a", [g(None, d + k + "a", 0), g(None, d, 0), absent(None)]),
            (u + k + "b", [g(None, u + k + "b", 0), absent(None), g(None, u, 0)])]
    raise ValueError(kind)


def rx_build(kind, slots):
    """-> (pattern, [(text, [(start, end, original, value, name), ...] in group-index order), ...])"""
    firstfix = min(i for i, sk in enumerate(slots) if sk not in RX_WRAPPED)
    frags = []
    for i, sk in enumerate(slots):
        rx, choices = rx_slot(sk, i)
        if sk in RX_WRAPPED:
            lead, trail = (" ", "") if i > firstfix else ("", " ")
            if len(slots) == 1:
                lead = trail = ""
            rx = "(?:%s%s%s)?" % (lead, rx, trail)
            choices = [((lead + t + trail) if t is not None else "",
                        [(nm, v, (st + len(lead)) if v is not None else -1, (en + len(lead)) if v is not None else -1)
                         for (nm, v, st, en) in gs]) for (t, gs) in choices]
        elif i > firstfix:
            rx = " " + rx
            choices = [(" " + t, [(nm, v, st + 1 if v is not None else -1, en + 1 if v is not None else -1)
                                  for (nm, v, st, en) in gs]) for (t, gs) in choices]
        frags.append((rx, choices))
    pattern = "".join(rx for (rx, _) in frags)
    if kind == "re0^$":
        pattern = "^" + pattern + "$"
    texts = []
    for combo in itertools.product(*[ch for (_, ch) in frags]):
        text, groups = "", []
        for (t, gs) in combo:
            for (nm, v, st, en) in gs:
                groups.append((st + len(text), en + len(text), v, typed(v), nm) if v is not None
                              else (-1, -1, None, typed(None), nm))
            text += t
        texts.append((text, tuple(groups)))
    return pattern, texts


def rxgroups_case(case):
    """case = (kind, slots) -> every text;  (kind, slots, text index) -> that text only (replay)"""
    if not _B:
        init_worker()
    kind, slots = case[0], tuple(case[1])
    only = case[2] if len(case) > 2 else None
    reset_state()
    pattern, texts = rx_build(kind, slots)
    _B["behave"].use_step_matcher(REAL_KIND[kind])
    reg = _B["StepRegistry"]()
    try:
        reg.make_decorator("given")(pattern)(f1)
        ok, err = len(reg.steps["given"]) == 1, "not registered (bad step definition)"
    except Exception as e:      # noqa
        ok, err = False, repr(e)
    reset_state()
    if not ok:
        return [{"case": case, "out": ("rxgroups", kind, "registration failed"), "dg": err,
                 "v": [({"subcheck": "regex-groups.match", "clause": "pattern-not-registrable", "kind": kind},
                        "pattern %r (%s) could not be registered: %s" % (pattern, kind, err))]}]
    results = []
    for ti, (text, want) in enumerate(texts):
        if only is not None and ti != only:
            continue
        v = []
        where = "pattern %r (%s), step text %r" % (pattern, kind, text)
        present = [k for k, g in enumerate(want) if g[2] is not None]
        absentg = [k for k, g in enumerate(want) if g[2] is None]
        if not absentg:
            shape = "all-groups-take-part"
        elif present and min(absentg) < max(present) and max(absentg) > min(present):
            shape = "absent-group-between-or-mixed"
        elif present and max(absentg) < min(present):
            shape = "absent-group-before-matched-ones"
        elif present:
            shape = "absent-group-after-matched-ones"
        else:
            shape = "only-absent-groups"
        m = reg.find_match(_B["Step"]("c11.feature", 1, u"Given", "given", text))
        obs = None
        if m is None or type(m).__name__ == "MatchWithError":
            v.append(({"subcheck": "regex-groups.match", "clause": "instance-not-bound", "kind": kind},
                      "%s: the text is an instance by construction, got %r" % (where, m)))
        else:
            got = tuple((a.start, a.end, a.original, typed(a.value), a.name) for a in m.arguments)
            ran = run_match(m)
            obs = (got, ran)
            if got != want:
                if sorted(got, key=repr) == sorted(want, key=repr):
                    clause = "arguments-not-in-group-order"
                elif [(g[3], g[4]) for g in got] == [(w[3], w[4]) for w in want]:
                    clause = "argument-span-or-original"
                else:
                    clause = "argument-values-or-names"
                v.append(({"subcheck": "regex-groups.arguments", "clause": clause, "kind": kind, "groups": shape},
                          "%s: Match.arguments = %r, expected (group-index order, span(i), None and -1 for a group "
                          "that did not take part) %r" % (where, got, want)))
            want_args = tuple(w[3] for w in want if w[4] is None)
            want_kw = dict((w[4], w[3]) for w in want if w[4] is not None)
            calls = ran[2]
            if ran[0] != "called" or len(calls) != 1 or calls[0][0] != "f1":
                v.append(({"subcheck": "regex-groups.dispatch", "clause": "function-not-called-once", "kind": kind},
                          "%s: Match.run -> %r" % (where, ran)))
            else:
                rargs = tuple(typed(x) for x in calls[0][1])
                rkw = dict((k, typed(x)) for k, x in calls[0][2].items())
                if rargs != want_args or rkw != want_kw:
                    v.append(({"subcheck": "regex-groups.dispatch", "clause": "received-arguments", "kind": kind,
                               "what": "positional" if rargs != want_args else "keyword", "groups": shape},
                              "%s: step function received args=%r kwargs=%r, expected args=%r kwargs=%r"
                              % (where, rargs, rkw, want_args, want_kw)))
        results.append({"case": (kind, slots, ti), "v": v, "dg": (text, obs),
                        "nt": (kind, slots, ti) if len(want) >= 2 else None,
                        "out": ("rxgroups", kind, shape, "unnamed>=2" if sum(1 for w in want if w[4] is None) >= 2
                                else "")})
    return results


def rxgroups_cases(lengths):
    for n in lengths:
        for kind in ("re", "re0^$", "re0"):
            for slots in itertools.product(RX_SLOTS, repeat=n):
                if all(sk in RX_WRAPPED for sk in slots):
                    continue        # a pattern of optional parts only would need texts with a leading blank
                yield (kind, slots)


# =============================================================================
# part (f): LOOKUP histories on one registry - lookups never influence each other
# =============================================================================
# registry configuration = for each of given/when/then/step: no definition | 'a bb' | 'a {x}', function f1..f4 by type
LH_PATTERNS = (None, "a bb", "a {x}")
LH_KEYWORDS = (u"Given", u"When", u"Then", u"And", u"But", u"*")
LH_STEP_TYPES = ("given", "when", "then")
LH_TEXTS = ("a bb", "a foo")
LH_ALL = tuple((kw, t, x) for x in LH_TEXTS for kw in LH_KEYWORDS for t in LH_STEP_TYPES)              # 36 lookups
LH_MID = tuple((kw, t, x) for x in LH_TEXTS for kw in (u"Given", u"And", u"*") for t in LH_STEP_TYPES)  # 18
LH_SMALL = tuple((kw, t, x) for x in LH_TEXTS for kw in (u"Given", u"And") for t in LH_STEP_TYPES)     # 12
LH_OPS = ("register-unrelated", "register-then-definition", "clear-and-register-rotated")
PRIMARY = {u"Given": "given", u"When": "when", u"Then": "then"}


def lh_definitions(config):
    return [(TYPES[ti], LH_PATTERNS[slot], ti) for ti, slot in enumerate(config) if slot]


def lh_build(defs):
    reset_state()
    reg = _B["StepRegistry"]()
    for (t, pattern, fi) in defs:
        reg.make_decorator(t)(pattern)(FUNCS[fi])
    return reg


def lh_reference(defs, step_type, text):
    """reference registry (keyword plays no part): first match in [type list ++ generic list]"""
    ref = Ref()
    for (t, pattern, fi) in defs:
        ref.lists[t].append((pattern, "parse", fi))
    r = ref.lookup(step_type, text)
    return None if r is None else ("f%d" % (r[0] + 1), r[1])


def lh_observe(reg, step):
    m = reg.find_match(step)
    if m is None:
        return None
    ran = run_match(m)
    if ran[0] != "called" or len(ran[2]) != 1:
        return ("bad-run", ran[0], ran[1], len(ran[2]))
    c0 = ran[2][0]
    return (c0[0], c0[1], tuple(sorted((k, typed(x)) for k, x in c0[2].items())))


def lh_apply_op(reg, defs, op):
    """an operation between two lookups -> the definitions a fresh registry would need to be equivalent"""
    if op == "register-unrelated":
        reg.make_decorator("given")("c d")(FUNCS[4])
        return defs + [("given", "c d", 4)]
    if op == "register-then-definition":
        existing = [d for d in defs if d[0] == "then"]
        try:
            reg.make_decorator("then")("a bb")(FUNCS[5])
            raised = False
        except _B["AmbiguousStep"]:
            raised = True
        # reference: ambiguous iff a then-definition exists (both pool patterns match the text 'a bb')
        if raised != bool(existing):
            return None
        return defs if existing else defs + [("then", "a bb", 5)]
    if op == "clear-and-register-rotated":
        reg.clear()
        rotated = [(TYPES[(TYPES.index(t) + 1) % 3] if t != "step" else "step", pattern, fi) for (t, pattern, fi) in defs]
        for (t, pattern, fi) in rotated:
            reg.make_decorator(t)(pattern)(FUNCS[fi])
        return rotated
    raise ValueError(op)


def lh_kwclass(kw, t):
    if kw in PRIMARY:
        return "primary" if PRIMARY[kw] == t else "primary-of-another-type"
    return "continuation"


def lh_run_sequence(config, seq, fresh_cache):
    """one registry lifetime: seq = (('L', keyword, step type, text) | ('O', operation), ...) -> (violations, digest)"""
    defs = lh_definitions(config)
    reg = lh_build(defs)
    v, dg = [], []
    earlier = []
    between = "nothing"
    for item in seq:
        if item[0] == "O":
            newdefs = lh_apply_op(reg, defs, item[1])
            between = item[1]
            if newdefs is None:
                v.append(({"subcheck": "lookup-history", "clause": "registration-between-lookups-differs",
                           "operation": item[1]},
                          "definitions %r, lookups %r, then %s: AmbiguousStep raised/not raised against the reference"
                          % (defs, earlier, item[1])))
                break
            defs = newdefs
            continue
        _, kw, t, text = item
        step = _B["Step"]("c11.feature", 1, kw, t, text)
        got = lh_observe(reg, step)
        dg.append(got)
        want = lh_reference(defs, t, text)
        key = (tuple(defs), kw, t, text)
        if not earlier and between == "nothing":
            fresh = got                     # the first lookup of a lifetime IS the fresh-registry result
            fresh_cache[key] = got
        else:
            fresh = fresh_cache.get(key)
            if fresh is None and key not in fresh_cache:
                fresh = fresh_cache[key] = lh_observe(lh_build(defs), step)
        ok_ref = (got is None and want is None) or (got is not None and want is not None and got[0] == want[0]
                                                    and got[1] == () and got[2] in want[1])
        if earlier and got != fresh:
            same_text = [e for e in earlier if e[3] == text]
            collision = ("same-text-other-step-type" if any(e[2] != t for e in same_text)
                         else "same-text-same-step-type" if same_text else "other-text")
            v.append(({"subcheck": "lookup-history", "clause": "lookup-depends-on-earlier-lookups",
                       "keyword": lh_kwclass(kw, t), "earlier": collision, "between": between},
                      "definitions %r; after the lookups %r%s the lookup (keyword %r, step type %r, text %r) -> %r, "
                      "but the same lookup on a fresh registry with the same definitions -> %r (reference: %r)"
                      % (defs, [e[1:] for e in earlier], "" if between == "nothing" else " and %s" % between,
                         kw, t, text, got, fresh, want)))
        elif not ok_ref:
            v.append(({"subcheck": "lookup-history", "clause": "differs-from-reference-registry",
                       "keyword": lh_kwclass(kw, t)},
                      "definitions %r: lookup (keyword %r, step type %r, text %r) -> %r, reference %r"
                      % (defs, kw, t, text, got, want)))
        earlier.append(item)
    return v, dg


LH_FEATURE = u"Feature: f\n  Scenario: s\n%s"


def lh_parsed_sequences():
    """small scenarios 'Given X / And X / Then Y': the PARSER derives the step type of And/But/* lines"""
    for n in (2, 3):
        for first in (u"Given", u"When", u"Then"):
            for rest in itertools.product(LH_KEYWORDS, repeat=n - 1):
                for texts in itertools.product(LH_TEXTS, repeat=n):
                    yield tuple(zip((first,) + rest, texts))


def lookup_history_case(case):
    """case = (config, family)  family: 'pairs' | 'triples' | 'pairs-with-op' | 'parsed' | ('seq', sequence) (replay)"""
    if not _B:
        init_worker()
    config, family = case
    config = tuple(config)
    fresh_cache = {}
    seqs = []
    if family == "pairs":
        seqs = ((("L",) + a, ("L",) + b) for a in LH_ALL for b in LH_ALL)
    elif family == "triples":
        seqs = ((("L",) + a, ("L",) + b, ("L",) + c) for a in LH_SMALL for b in LH_SMALL for c in LH_SMALL)
    elif family == "pairs-with-op":
        seqs = ((("L",) + a, ("O", op), ("L",) + b) for op in LH_OPS for a in LH_MID for b in LH_MID)
    elif family == "parsed":
        from behave.parser import parse_feature

        def parsed():
            for lines in lh_parsed_sequences():
                doc = LH_FEATURE % u"".join(u"    %s %s\n" % (kw, x) for (kw, x) in lines)
                steps = parse_feature(doc, filename="c11.feature").scenarios[0].steps
                yield tuple(("L", st.keyword, st.step_type, st.name) for st in steps)
        seqs = parsed()
    else:
        seqs = [tuple(tuple(i) for i in family[1])]
    results, nlook, nseq, dgs = [], 0, 0, []
    collide = 0
    perdesc = {}
    for seq in seqs:
        v, dg = lh_run_sequence(config, seq, fresh_cache)
        nseq += 1
        nlook += len(dg)
        dgs.append(dg)
        looks = [i for i in seq if i[0] == "L"]
        if any(a[1] == b[1] and a[3] == b[3] and a[2] != b[2] for k, a in enumerate(looks) for b in looks[k + 1:]):
            collide += 1
        for desc, msg in v:
            key = tuple(sorted(desc.items()))
            perdesc[key] = perdesc.get(key, 0) + 1
            if perdesc[key] <= 2:
                results.append({"case": (config, ("seq", seq)), "v": [(desc, msg)], "n": 0})
            else:
                results.append({"case": (config, ("seq", seq)), "v": [(desc, "(as above) " + msg[:200])], "n": 0})
    reset_state()
    fam = family if isinstance(family, str) else "seq"
    results.insert(0, {"case": case, "n": nlook, "dg": digest(dgs),
                       "nt": (config, fam) if collide and any(config[:3]) else None,
                       "st": {"lookup_histories": nseq, "lookup_histories_colliding": collide},
                       "out": ("lookup-history", fam, "typed+generic" if any(config[:3]) and config[3] else
                               "typed-only" if any(config[:3]) else "generic-only" if config[3] else "empty")})
    return results


def lookup_history_cases(families):
    for fam in families:
        for config in itertools.product((0, 1, 2), repeat=4):
            yield (config, fam)


def bfs(ctx, alpha, depth, name, dedup=True):
    """one ctx.sweep per level; returns (hashes of the canonical states up to depth-1, number of expanded states,
    hashes of the states first reached at the last level).  Canonical states are compared through their 64-bit
    hash (PYTHONHASHSEED=0 is exported by ./check, so the hash is the same in every worker)."""
    seen = {hash(Ref().canon())}
    frontier = [()]
    expanded = 0
    last_hashes = set()
    for level in range(depth):
        last = level == depth - 1
        mode = "last" if last else "expand"
        cases = [(alpha, h, mode) for h in frontier]
        kept = ctx.sweep(history_case, cases, chunk=4 if len(cases) < 400 else 16,
                         name="%s depth %d (%d states)" % (name, level + 1, len(cases)), keep=True)
        expanded += len(cases)
        nxt = []
        if last:
            for tag, hs in kept:
                last_hashes.update(hs)
        else:
            allsucc = []
            for tag, succ in kept:
                allsucc.extend(succ)
            allsucc.sort(key=lambda ch: (len(ch[1]), ch[1]))
            for canon, h in allsucc:
                if dedup:
                    if canon in seen:
                        continue
                    seen.add(canon)
                else:
                    seen.add(canon)
                nxt.append(h)
        frontier = nxt
    return seen, expanded, last_hashes


def run(ctx):
    root = modules_root()       # before the first sweep forks the workers: they inherit the path
    try:
        _run(ctx)
    finally:
        shutil.rmtree(root, True)


def _run(ctx):
    init_worker()
    # ---------------------------------------------------------------- (a) matching
    ctx.sweep(match_case, match_cases(KIND_TOKENS, (1, 2, 3)), chunk=8, name="matching: token sequences 1-3")
    if not ctx.quick:
        ctx.sweep(match_case, match_cases(KIND_TOKENS_4, (4,)), chunk=4, name="matching: token sequences 4 (reduced)")
    outs = set(x for x in ctx.outcomes if isinstance(x, tuple) and len(x) == 4)     # other outcome shapes exist
    # vacuity guards on what the ORACLE classified (so that a defect turns into a VIOLATION, not a harness error)
    kinds_inst = set(k for (k, var, oc, o) in outs if var == "instance" and oc.startswith("instance"))
    ctx.guard(kinds_inst == set(KIND_TOKENS), "every matcher kind was given instances (%s)" % sorted(kinds_inst))
    for var in ("case-literal", "case-field", "prefix-word", "prefix-glued", "suffix-word", "suffix-glued",
                "literal-replaced", "literal-extended"):
        ks = set(k for (k, v_, oc, o) in outs if v_ == var and oc == "non-instance")
        need = set(FULL_TEXT_KINDS) if var != "case-field" else {"parse", "cfparse"}
        ctx.guard(need <= ks, "negative variant %s is a non-instance at least once for %s" % (var, sorted(need)))
    ctx.guard(any(oc.startswith("instance p2") or oc.startswith("instance p3") for (_, _, oc, _) in outs),
              "instances with >= 2 anonymous arguments exercised")
    ctx.guard(any(oc.startswith("instance p1 k1") or oc.startswith("instance p1 k2") or oc.startswith("instance p2 k1")
                  for (_, _, oc, _) in outs), "instances mixing anonymous and named arguments exercised")
    ctx.guard(any(" raises" in oc for (_, _, oc, _) in outs), "instances whose converter raises exercised")
    ctx.guard(any(oc.endswith("zero-width") for (_, _, oc, _) in outs),
              "instances with a zero-width (empty optional/many0) argument exercised")
    n_match_nt = len(ctx.nt)
    ctx.guard(n_match_nt > 5000, "at least 5000 distinct non-trivial (pattern, text class) pairs (%d)" % n_match_nt)
    ctx.note("matching_executions", int(ctx.evaluations))
    # ---------------------------------------------------------------- (c) converter outcome at registration
    ctx.sweep(convreg_case, convreg_cases((1, 2, 3) if ctx.quick else (1, 2, 3, 4)), chunk=16,
              name="converter x registration: ordered pairs/triples%s, then dispatch" % ("" if ctx.quick else "/4-tuples"))
    couts = [o for o in ctx.outcomes if isinstance(o, tuple) and o and o[0] == "convreg"]
    for k in ("parse", "cfparse"):
        ctx.guard(any(o[1] == k and ("added", "converter-raises") in o[2] for o in couts),
                  "%s: a registration that is unambiguous only because the existing definition's converter raises "
                  "on the new pattern text" % k)
        ctx.guard(any(o[1] == k and any(e == "ambiguous" for (e, _) in o[2]) for o in couts),
                  "%s: a registration that is ambiguous through a custom-typed field" % k)
    ctx.guard(any(o[3] == "error-shadows" for o in couts), "lookup where a raising converter is in front exercised")
    ctx.guard(any(any(e == "silent" for (e, _) in o[2]) for o in couts) and
              any(any(e == "ignored" for (e, _) in o[2]) for o in couts), "silent and ignored registrations exercised")
    # ---------------------------------------------------------------- (e) regex groups: optional / nested / alternative
    ctx.sweep(rxgroups_case, rxgroups_cases((1, 2, 3)), chunk=16,
              name="regex groups: optional/nested/alternative, slot sequences 1-3")
    routs = [o for o in ctx.outcomes if isinstance(o, tuple) and o and o[0] == "rxgroups"]
    for k in ("re", "re0^$", "re0"):
        for shape in ("all-groups-take-part", "absent-group-before-matched-ones", "absent-group-after-matched-ones",
                      "absent-group-between-or-mixed", "only-absent-groups"):
            ctx.guard(any(o[1] == k and o[2] == shape for o in routs), "regex groups (%s): %s exercised" % (k, shape))
        ctx.guard(any(o[1] == k and o[2] == "absent-group-after-matched-ones" and o[3] == "unnamed>=2" for o in routs),
                  "regex groups (%s): absent optional group after a matched one, both unnamed" % k)
    # ---------------------------------------------------------------- (f) lookup histories on one registry
    ctx.sweep(lookup_history_case, lookup_history_cases(("pairs", "triples", "pairs-with-op", "parsed")), chunk=1,
              name="lookup histories: 2-3 find_match() calls, keyword independent of step type")
    louts = [o for o in ctx.outcomes if isinstance(o, tuple) and o and o[0] == "lookup-history"]
    for fam in ("pairs", "triples", "pairs-with-op", "parsed"):
        ctx.guard(set(o[2] for o in louts if o[1] == fam) >= {"typed+generic", "typed-only", "generic-only"},
                  "lookup histories (%s) over registries with typed, generic and both kinds of definitions" % fam)
    ctx.guard(ctx.st.get("lookup_histories_colliding", 0) > 10000,
              "lookup histories in which one (keyword, text) is looked up under two step types")
    ctx.note("lookup_histories", int(ctx.st.get("lookup_histories", 0)))
    ctx.note("lookup_histories_same_keyword_and_text_under_two_step_types", int(ctx.st.get("lookup_histories_colliding", 0)))
    # ---------------------------------------------------------------- (d) module-loading histories
    maxmod = 3 if ctx.quick else 5
    ctx.sweep(modules_case, modules_cases(maxmod), chunk=32,
              name="module loading: 1-3 load_step_modules() calls, <= %d modules" % maxmod)
    mouts = [o for o in ctx.outcomes if isinstance(o, tuple) and o and o[0] == "modules"]
    ctx.guard(set(o[1] for o in mouts) == {"none", "use", "default"}, "all ways of choosing the project default exercised")
    ctx.guard(any(o[2] == 3 for o in mouts) and any(o[4] == "leak-opportunity" for o in mouts),
              "three loads in one process and a load that follows a load whose last module does not switch back")
    bounds_modules = {"loads_per_process": 3, "modules_per_load": 3, "modules_in_total": maxmod,
                      "module_kinds": len(MODULE_KINDS), "project_default_choices": len(UPFRONTS)}
    # ---------------------------------------------------------------- (b) histories
    depth = 3 if ctx.quick else 4
    seen, expanded, last = bfs(ctx, "small", depth, "histories[42 ops]")
    ctx.st["states"] += len(seen | last)
    bounds = {"pattern_tokens": 3, "domain_values_per_field": 3, "history_depth": depth,
              "operations": len(ALPHABETS["small"]), "lookups_per_transition": len(TYPES) * len(LOOKUP_TEXTS)}
    ctx.note("history_states_expanded", expanded)
    if not ctx.quick:
        seen_f, expanded_f, last_f = bfs(ctx, "full", 3, "histories[78 ops]")
        ctx.st["states"] += len(seen_f | last_f)
        bounds["history_depth_full_alphabet"] = 3
        bounds["operations_full_alphabet"] = len(ALPHABETS["full"])
        # E2 self-check of the canonical abstraction: no deduplication, smaller depth
        before = set(ctx.vcount)
        seen_n, exp_n, last_n = bfs(ctx, "small", 3, "histories[42 ops] no-dedup", dedup=False)
        reached_n = seen_n | last_n
        ctx.guard(reached_n == seen,
                  "search without deduplication reaches exactly the canonical states of the deduplicated search "
                  "to depth 3 (%d vs %d)" % (len(reached_n), len(seen)))
        ctx.guard(set(ctx.vcount) == before, "search without deduplication finds no additional violation class")
        ctx.note("no_dedup_histories_expanded", exp_n)
    bounds["module_loading"] = bounds_modules
    ctx.bounds = bounds
    hist_outs = set(o for o in ctx.outcomes if o and o[0] == "history")
    for need in ("ignored", "ambiguous", "added", "silent", "M", "B", "D"):
        ctx.guard(any(o[1] == need for o in hist_outs), "history outcome %r exercised" % need)
    ctx.guard(any(o[3] == "competing" for o in hist_outs), "lookups with competing definitions exercised")
    ctx.guard(ctx.st["transitions"] > 10000, "at least 10000 transitions")
    ctx.note("lookup_edges_checked_as_self_loops", int(ctx.st.get("lookup_edges", 0)))
    ctx.guard(ctx.st.get("lookup_edges", 0) >= 2 * len(LOOKUPS) * ctx.st["transitions"],
              "every state reached by a transition had all its lookup edges executed on the live registry")
