# -*- coding: utf-8 -*-
"""C14 - summary conservation: every element counted once under its final status (E1)."""
import io, re, collections
from vlib import prog as P, runcases, harness
from vlib.core import digest

PROPERTY = "C14"
LEVEL = "exploration"
RULE = ("Every run of C01's enumeration (feature trees x step-outcome deviations x {default,--stop,--dry-run,--wip,--tags...}, "
        "every single hook fault, cleanup faults; two features so that --stop/abort leave never-started remainders) is executed "
        "with the real SummaryReporter registered as reporter in each of the five output formats v1, v1A, v1B, v2, v3 (one more via "
        "the behave.reporter.summary.output_format userdata) and with a SummaryCollector (the second implementation) walked over the "
        "model afterwards. Oracle: an "
        "independent census of the model after the run (features, rules, scenarios with each outline row counting once, steps "
        "incl. per-scenario background copies) - per kind and status the counts equal the census and add up to the number of "
        "elements; failing/errored listings are exactly the scenarios with failed / error-class status in run order; the "
        "numbers parsed back from every format's text equal the census. Non-trivial = distinct run whose census contains a "
        "status other than passed.")
ASSUMPTIONS = ["the text of each format is parsed with a small regex grammar written from the format documentation",
               "durations are not compared"]

FORMATS = ("v1", "v1A", "v1B", "v2", "v3")
ERRC = ("error", "hook_error", "cleanup_error", "undefined", "pending")


def census(feats):
    from behave.model import Rule, ScenarioOutline
    c = {k: collections.Counter() for k in ("feature", "rule", "scenario", "step")}
    failing, errored = [], []

    def scen(s):
        c["scenario"][s.status.name] += 1
        if s.status.name == "failed":
            failing.append(s.name)
        elif s.status.name in ERRC:
            errored.append(s.name)
        for st in s.all_steps:
            c["step"][st.status.name] += 1

    def items(cont):
        for it in cont.run_items:
            if isinstance(it, Rule):
                c["rule"][it.status.name] += 1
                items(it)
            elif isinstance(it, ScenarioOutline):
                for s in it.scenarios:
                    scen(s)
            else:
                scen(it)
    for f in feats:
        c["feature"][f.status.name] += 1
        items(f)
    return c, failing, errored


def parse_line(fmt, kind, line):
    """-> (total or None, {status: n}, passed_is_total)"""
    line = line.strip()
    counts = {}
    if fmt == "v1":
        m = re.match(r"^(\d+) %ss? passed((?:, \d+ \w+)*)$" % re.escape(kind), line)
        if not m:
            return None
        counts["passed"] = int(m.group(1))
        for n, name in re.findall(r", (\d+) (\w+)", m.group(2)):
            counts[name] = int(n)
        return None, counts
    if fmt in ("v2", "v3"):
        m = re.match(r"^(\d+) +%ss? *\((.*)\)$" % re.escape(kind), line)
        if not m:
            return None
        for name, n in re.findall(r"(\w+): (\d+)", m.group(2)):
            counts[name] = int(n)
        return int(m.group(1)), counts
    if fmt == "v1A":
        m = re.match(r"^(\d+) %ss?((?:, \d+ \w+)*)$" % re.escape(kind), line)
        if not m:
            return None
        for n, name in re.findall(r", (\d+) (\w+)", m.group(2)):
            counts[name] = int(n)
        return int(m.group(1)), counts
    if fmt == "v1B":
        m = re.match(r"^(\d+) %ss? passed((?:, \d+ \w+)*)$" % re.escape(kind), line)
        if not m:
            return None
        counts["passed"] = int(m.group(1))
        for n, name in re.findall(r", (\d+) (\w+)", m.group(2)):
            counts[name] = int(n)
        return None, counts
    return None


def check_text(v, impl, fmt, text, cen, fault):
    lines = [l for l in text.splitlines() if l.strip()]
    kinds = ["feature"] + (["rule"] if sum(cen["rule"].values()) else []) + ["scenario", "step"]
    body = [l for l in lines if re.match(r"^\s*\d+ +(feature|rule|scenario|step)", l)]
    if len(body) != len(kinds):
        v.append(({"subcheck": "format", "clause": "line-count", "impl": impl, "format": fmt},
                  "%s/%s printed %d count lines for kinds %s:\n%s" % (impl, fmt, len(body), kinds, text)))
        return
    for kind, line in zip(kinds, body):
        parsed = parse_line(fmt, kind, line)
        if parsed is None:
            v.append(({"subcheck": "format", "clause": "unparsable", "impl": impl, "format": fmt, "kind": kind},
                      "%s/%s line %r does not follow the format" % (impl, fmt, line)))
            continue
        total, counts = parsed
        n_elems = sum(cen[kind].values())
        if total is not None and total != n_elems:
            v.append(({"subcheck": "format", "clause": "total", "impl": impl, "format": fmt, "kind": kind},
                      "%s/%s prints total %d for %d %ss: %r" % (impl, fmt, total, n_elems, kind, line)))
        for name, n in counts.items():
            if n != cen[kind].get(name, 0):
                v.append(({"subcheck": "format", "clause": "count", "impl": impl, "format": fmt, "kind": kind,
                           "status": name},
                          "%s/%s prints %d %s %ss, census says %d: %r (census %s)"
                          % (impl, fmt, n, name, kind, cen[kind].get(name, 0), line, dict(cen[kind]))))
        for name, n in cen[kind].items():
            if n and name not in counts:
                v.append(({"subcheck": "format", "clause": "status-not-printed", "impl": impl, "format": fmt,
                           "kind": kind, "status": name},
                          "%s/%s does not print the %d %s %s(s): %r" % (impl, fmt, n, name, kind, line)))


def run_case(case):
    dupnames = len(case) > 5 and case[5] is True
    first = len(case) > 5 and case[5] == "collector-first"
    interrupted = len(case) > 5 and case[5] == "kbi"
    prog, cfg, faults, cleanups, hooks = case[:5]
    cfgd = dict(runcases.CFGS[cfg] if isinstance(cfg, str) else cfg)
    holder = {}
    ud_fmt = FORMATS[len(repr(case)) % 5]
    cfgd["extra"] = ["-D", "behave.reporter.summary.output_format=%s" % ud_fmt]

    def reporters(config):
        from behave.reporter.summary import SummaryReporter
        reps = []
        for cls, impl in ((SummaryReporter, "reporter"),):
            for fmt in FORMATS + ("userdata",):
                r = cls(config)
                if fmt != "userdata":
                    r.output_format = fmt
                elif r.output_format != ud_fmt:
                    holder["ud_bad"] = (impl, r.output_format)
                r.stream = io.StringIO()
                r.show_duration = False
                reps.append((impl, fmt if fmt != "userdata" else ud_fmt, r))
        if first:
            reps = []       # no reporter: the collector below is the first reader of the model after the run
        holder["reps"] = reps
        return [r for _, _, r in reps]

    def walk_first(feats_, runner_, config_):
        from behave.summary import SummaryCollector
        c0 = SummaryCollector()
        c0.visit_features(feats_) if hasattr(c0, "visit_features") else [c0.visit_feature(f) for f in feats_]
        return c0

    texts = None
    if dupnames:
        # all scenarios / outlines / rules carry the SAME title (legal; elements are told apart by their location only)
        import re as _re
        texts = []
        for fi, f in enumerate(prog):
            t = P.render(f, fi)[0]
            t = _re.sub(r"(Scenario Outline|Scenario|Rule): \S+", r"\1: Same title", t)
            t = _re.sub(r"Examples: \S+", "Examples: E", t)
            texts.append(t)
    obs = harness.run_case(prog, cfgd, faults=faults, cleanups=cleanups, hooks=hooks, reporters=reporters,
                           keep_model=True, texts=texts, after_run=walk_first if first else None)
    v = []
    if obs["escaped"]:
        v.append(({"subcheck": "run", "clause": "exception-escapes-run", "exc": obs["escaped"]},
                  "run() raised %s: %s" % (obs["escaped"], obs.get("escaped_msg"))))
        return {"v": v, "dg": obs["escaped"], "out": "escaped"}
    feats = obs["model"][0]
    childless = "('S', (), ())" in repr(prog) or "('R', (), None, ())" in repr(prog) or ", ((), ()))" in repr(prog) \
        or "((), ()),)" in repr(prog)
    if not dupnames and texts is None and not childless and not interrupted:     # childless elements: outside the roll-up statement (C03)
        # execution-side truth: the census below walks the model AFTER the run; a defect in a lazy builder would
        # falsify the model and every summary of it consistently, so the model itself is first held against the
        # reference interpreter's prediction for this run (statuses of every element and step)
        from vlib import refrun
        ref = refrun.predict(prog, cfgd, faults=faults, cleanups=cleanups, hooks=hooks)
        for d_, msg_ in refrun.compare(prog, ref, obs, what=("status", "steps")):
            d_["subcheck"] = "model-vs-reference"
            v.append((d_, "model after the run differs from the reference run: " + msg_))
            break
    cen, failing, errored = census(feats)
    fault = ""
    if "ud_bad" in holder:
        v.append(({"subcheck": "format", "clause": "userdata-format-ignored", "impl": holder["ud_bad"][0]},
                  "userdata output_format=%s gives %s" % (ud_fmt, holder["ud_bad"][1])))
    from behave.summary import SummaryCollector
    if first:
        coll = obs["after_run"]
    else:
        coll = SummaryCollector()
        coll.visit_features(feats) if hasattr(coll, "visit_features") else [coll.visit_feature(f) for f in feats]
    tables = {"walked-collector": {"feature": coll.summary_counts.features, "rule": coll.summary_counts.rules,
                                   "scenario": coll.summary_counts.scenarios, "step": coll.summary_counts.steps}}
    lists = {"walked-collector": ([s.name for s in coll.failed_scenarios], [s.name for s in coll.errored_scenarios])}
    # LIBRARY USE: delegation-based walk (documented second use of ModelVisitor): an external walker drives the collector
    from behave.model_visitor import ModelVisitor
    c2 = SummaryCollector()
    walker = ModelVisitor(visitor=c2)
    walker.visit_many(feats) if hasattr(walker, "visit_many") else [walker.visit_feature(f) for f in feats]
    tables["delegated-collector"] = {"feature": c2.summary_counts.features, "rule": c2.summary_counts.rules,
                                     "scenario": c2.summary_counts.scenarios, "step": c2.summary_counts.steps}
    lists["delegated-collector"] = ([s.name for s in c2.failed_scenarios], [s.name for s in c2.errored_scenarios])
    # one collector per feature, merged with `+=` into a grand total (the documented way to combine SummaryCounts)
    from behave.summary import SummaryCounts
    total = SummaryCounts()
    for ft in feats:
        c1 = SummaryCollector()
        c1.visit_feature(ft)
        total += c1.summary_counts
    tables["merged-collectors"] = {"feature": total.features, "rule": total.rules, "scenario": total.scenarios,
                                   "step": total.steps}
    for kind, t in tables["merged-collectors"].items():
        n_all = getattr(t, "all", None)
        n_all = n_all() if callable(n_all) else n_all
        if n_all != sum(cen[kind].values()):
            v.append(({"subcheck": "counts", "clause": "total", "impl": "merged-collectors", "kind": kind},
                      "merged collectors: %s.all = %r, the model has %d %ss" % (kind, n_all, sum(cen[kind].values()), kind)))
    if bool(total) != bool(sum(sum(c.values()) for c in cen.values())):
        v.append(({"subcheck": "counts", "clause": "truthiness", "impl": "merged-collectors"},
                  "bool(merged SummaryCounts) = %s although elements were counted" % bool(total)))
    done_tables = set()
    for impl, fmt, r in holder["reps"]:
        if impl not in done_tables:
            done_tables.add(impl)
            tables[impl] = {"feature": r.feature_summary, "rule": r.rule_summary, "scenario": r.scenario_summary,
                            "step": r.step_summary}
            lists[impl] = ([s.name for s in r.failed_scenarios], [s.name for s in r.errored_scenarios])
        check_text(v, impl, fmt, r.stream.getvalue(), cen, fault)
    for impl, tab in tables.items():
        for kind in ("feature", "rule", "scenario", "step"):
            t = tab[kind]
            got = {}
            for k, n in (t.items() if hasattr(t, "items") else []):
                name = getattr(k, "name", k)
                if name != "all" and n:
                    got[name] = got.get(name, 0) + n
            want = {k: n for k, n in cen[kind].items() if n}
            if got != want:
                v.append(({"subcheck": "counts", "clause": "per-status", "impl": impl, "kind": kind,
                           "status": "+".join(sorted(set(got) ^ set(want)) or sorted(k for k in want if got.get(k) != want[k]))},
                          "%s counts for %ss %s, census %s" % (impl, kind, got, want)))
    for impl, (f, e) in lists.items():
        if f != failing:
            v.append(({"subcheck": "listing", "clause": "failing", "impl": impl},
                      "%s lists failing scenarios %s, model says %s" % (impl, f, failing)))
        if e != errored:
            missing = [n for n in errored if n not in e]
            st = sorted(set(s.status.name for ft in feats for s in ft.walk_scenarios() if s.name in missing))
            v.append(({"subcheck": "listing", "clause": "errored", "impl": impl, "missing_status": "+".join(st)},
                      "%s lists errored scenarios %s, model says %s" % (impl, e, errored)))
    allst = set()
    for k in cen:
        allst |= set(cen[k])
    nt = digest(case) if allst != {"passed"} else None
    return {"v": v, "nt": nt, "out": tuple(sorted(allst)), "n": 1,
            "dg": (sorted((k, sorted(c.items())) for k, c in cen.items()), failing, errored)}


def cases(tier):
    quick = tier == "quick"
    for case in runcases.step_cases(tier):
        if P.size(case[0][0]) > (3 if quick else 5):
            continue        # thorough: shapes with <= 5 step positions (the full enumeration is C01's/C03's job)
        yield case
    for case in runcases.fault_cases(tier):
        if quick and (P.size(case[0][0]) > 2):
            continue
        yield case


def interrupt_cases(tier):
    """the user interrupts the run (KeyboardInterrupt) while a feature / rule / scenario / step / tag hook executes:
    the run is aborted from inside a feature; the interrupted feature and all remaining ones must still be accounted
    for (the statuses of the interrupted elements are whatever the model says afterwards: census oracle only)"""
    quick = tier == "quick"
    from vlib import refrun
    shapes = [s for s in P.shapes(tier) if P.size(s) <= (3 if quick else 5) and len(s[3]) <= 2]
    for si, shp in enumerate(shapes):
        for v in (shp, runcases.retag(shp, (), (), "t"), runcases.retag(shp, (), (0,), "t")):
            for prog in ((v, P.SECOND_FEATURE), (P.SECOND_FEATURE, v, P.SECOND_FEATURE)):
                if quick and len(prog) == 3 and si % 3:
                    continue
                hooks_ = refrun.predict(prog, {}, hooks=True).hooks
                for k, (name, ref) in enumerate(hooks_):
                    if name in ("before_all", "after_all"):
                        continue        # no summary is printed at all when the run is interrupted there
                    yield (prog, "default", {k: "kbi"}, None, True, "kbi")


def empty_container_cases(tier):
    """childless containers (legal Gherkin, and the summary must still count their siblings): a scenario without
    steps, an outline whose examples have no rows, a rule without scenarios - each followed by ordinary siblings"""
    e_s = P.S(())
    e_o = ("O", (), 1, (((), ()),))
    e_r = P.R(())
    # an outline with a heading-only examples block beside a block that has rows (before / after it)
    e_o2a = P.O2((((), ()), ((), (("pass",), ("pass",)))))
    e_o2b = P.O2((((), (("pass",), ("pass",))), ((), ())))
    full = [P.S(("pass", "pass")), P.O((("pass",), ("pass",)))]
    feats = []
    for e in (e_s, e_o):
        feats.append(P.F((e, full[0], full[1])))
        feats.append(P.F((full[0], e, full[1]), bg=("pass",)))
        feats.append(P.F((full[0], P.R((e, full[0], full[1]), bg=("pass",)))))
    for e in (e_o2a, e_o2b):
        feats.append(P.F((e, full[0])))
        feats.append(P.F((full[0], P.R((e,), bg=("pass",)))))
    feats.append(P.F((full[0], e_r, P.R((full[0], full[1])))))
    feats.append(P.F((full[0], P.R((e_s,)), P.R((e_o, full[0])))))
    for f in feats:
        for nd, pr in P.deviations((f,), 1, outcomes=("fail", "error", "undefined", "skip")):
            for cfg in ("default", "stop", "dry"):
                yield ((pr[0], P.SECOND_FEATURE), cfg, None, None, False)
                yield ((P.SECOND_FEATURE, pr[0]), cfg, None, None, False)


def dupname_cases(tier):
    """several failing / erroring scenarios with identical titles, within one feature and across two features"""
    f1 = P.F((P.S(("pass", "pass")), P.S(("pass",)), P.R((P.S(("pass",)), P.O((("pass",), ("pass",)))))))
    f2 = P.F((P.S(("pass",)), P.S(("pass", "pass"))), bg=("pass",))
    for a in (f1, f2):
        for b in (f2, f1):
            for nd, pa in P.deviations((a,), 2, outcomes=("fail", "error", "undefined"), second=("fail", "error")):
                for ob in ("pass", "fail", "error"):
                    pb = P.set_outcome((b,), P.positions((b,))[-1], ob)
                    for cfg in ("default", "stop"):
                        yield ((pa[0], pb[0]), cfg, None, None, False, True)


def collector_first_cases(tier):
    """no reporter registered: a SummaryCollector is the FIRST reader of the model after the run (outlines that the
    run never reached - after --stop, an abort, a hook error on their container, de-selection - are still unexpanded)"""
    quick = tier == "quick"
    seen = set()
    for case in runcases.step_cases(tier):
        prog = case[0]
        if "'O'" not in repr(prog) or P.size(prog[0]) > (3 if quick else 5):
            continue
        if quick and "stop" not in str(case[1]):
            continue        # quick: the configurations that leave a never-started remainder
        if not quick and (P.size(prog[0]) > 4 or not any(w in str(case[1]) for w in ("stop", "tags", "wip"))):
            continue        # thorough: every configuration that can leave an outline unexpanded, shapes <= 4 positions
        for pr in (prog, (prog[1], prog[0])):
            key = (pr, case[1])
            if key not in seen:
                seen.add(key)
                yield (pr,) + tuple(case[1:5]) + ("collector-first",)
    for case in runcases.fault_cases(tier):
        if "'O'" not in repr(case[0]) or (quick and P.size(case[0][0]) > 2):
            continue
        yield tuple(case[:5]) + ("collector-first",)


def run(ctx):
    ctx.bounds = {"runs": "C01 enumeration restricted to shapes with " + ("<=3 step positions (faults: <=2)" if ctx.quick else "<=5 step positions (all fault cases)"),
                  "implementations": 3, "formats": 5}
    ctx.sweep(run_case, cases(ctx.tier), chunk=32, name="runs x (reporter + walked collector) x 5 formats")
    ctx.sweep(run_case, empty_container_cases(ctx.tier), chunk=32, name="childless containers with siblings")
    ctx.sweep(run_case, dupname_cases(ctx.tier), chunk=32, name="identical titles on failing/erroring scenarios")
    ctx.sweep(run_case, (c for c in runcases.nonpass_fault_cases(ctx.tier) if P.size(c[0][0]) <= (2 if ctx.quick else 4)),
              chunk=32, name="one non-passing step, then a hook fault at every invocation")
    ctx.sweep(run_case, interrupt_cases(ctx.tier), chunk=32,
              name="KeyboardInterrupt inside every feature/rule/scenario/step/tag hook invocation")
    ctx.sweep(run_case, collector_first_cases(ctx.tier), chunk=32,
              name="no reporter: a collector is the first reader of the model after the run")
    ctx.guard(len(ctx.outcomes) > 20, "at least 20 distinct status mixes")
