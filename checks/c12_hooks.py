# -*- coding: utf-8 -*-
"""C12 - hooks: nested order, after-hooks always paired, hook faults contained (E3 fault-point enumeration)."""
import itertools, sys
from vlib import prog as P, runcases, refrun, harness
from vlib.core import digest

PROPERTY = "C12"
LEVEL = "fault_enumeration"
RULE = ("48 feature shapes that always contain a rule and tags on every level (feature, rule, scenario, outline, examples "
        "block), optional scenario/outline before the rule, backgrounds at none/feature/feature+rule level, all twelve hook "
        "kinds defined, followed by a second feature. For each shape and each variation {default, --stop, --tags 'not u' with "
        "one scenario de-selected} EVERY hook invocation of the fault-free run is taken as injection point (k-th hook call "
        "raises an Exception subclass / an AssertionError; once more with every hook and step reading the .status of the "
        "current feature/rule/scenario before it raises); a raising cleanup registered by the first scenario's hook, its "
        "first step or the rule's hook, combined with every hook injection point; every feature/rule/scenario/tag hook invocation in turn calling skip() on its own "
        "element (nothing raises: after-hooks stay paired, run() reports success); thorough adds all PAIRS of injection points. Oracle: run() "
        "returns, verdict failed, complete hook log equals the reference grammar (after-hooks paired), the element concerned "
        "is hook_error and a failed before-hook keeps its body from running, every element outside the concerned element's "
        "ancestry keeps the status/call log of the real fault-free run; no hooks for de-selected scenarios nor in dry-run. "
        "Non-trivial = distinct (shape, variation, injection point(s), kind).")
ASSUMPTIONS = ["KeyboardInterrupt inside hooks is outside the quantifier",
               "a container whose own tags match but none of whose scenarios is selected may or may not get its hooks (statement silent)",
               "order among the after_tag hooks of one element is not stated (compared as a multiset)"]


def shapes():
    # tag names are chosen to contain the words the hook dispatcher looks for in HOOK names ("all", "tag", "step",
    # "feature", "scenario", "rule"): a tag's text must never change which element a failing tag hook is attributed to
    # ... and characters that text-formatting operators interpret ('%', '{}'): the tag of a failing tag hook ends up in
    # the HOOK-ERROR message
    s1 = P.S(("pass",), tags=("small", "p100%"))
    s2 = P.S(("pass", "pass"), tags=("small", "stepall"))
    o1 = P.O((("pass",),), tags=("scenario_tag",), extags=("feature.x", "{0}%s"))
    o2 = P.O((("pass",), ("pass",)), tags=("scenario_tag",), extags=("feature.x",))
    su = P.S(("pass",), tags=("u",))
    pres = [(), (s1,), (o1,), (s2, o2)]
    rules = [(s1,), (o2,), (s1, o1), (o1, s2)]
    for pre, ritems, bgmode in itertools.product(pres, rules, (0, 1, 2)):
        rule = P.R(ritems + (su,), tags=("rule_all", "r%d{}"), bg=("pass",) if bgmode == 2 else None)
        yield P.F(pre + (rule,), tags=("all", "100%"), bg=("pass",) if bgmode >= 1 else None)


SECOND = P.F((P.S(("pass",)),))
VARIATIONS = {"default": {}, "stop": {"stop": True}, "tags": {"tags": "not u"},
              # user code sets the documented switch Scenario.continue_after_failed_step = True: after a step whose
              # before_step / after_step hook raised, the following steps still run (as after any failed step)
              "cafs": {"cafs": True}}

_FAULTFREE = {}


def fault_free(prog, cfgname):
    key = (prog, cfgname)
    if key not in _FAULTFREE:
        if len(_FAULTFREE) > 64:
            _FAULTFREE.clear()
        _FAULTFREE[key] = harness.run_case(prog, VARIATIONS[cfgname], hooks=True)
    return _FAULTFREE[key]


def concerned_paths(ref_entry):
    """element path concerned by a hook invocation (None for *_all)"""
    name, ref = ref_entry
    if "step" in name:
        return ref[0]
    if "tag" in name:
        return None     # resolved by the caller through ref.hook_error_elems
    return ref


def run_case(case):
    prog, cfgname, faults = case[:3]
    probe = len(case) > 3 and case[3] is True   # hooks and steps also READ feature/rule/scenario .status (caching property)
    cleanups = case[3] if len(case) > 3 and isinstance(case[3], dict) else None
    cfg = VARIATIONS[cfgname]
    obs = harness.run_case(prog, cfg, faults=faults, hooks=True, probe_status=bool(probe), cleanups=cleanups)
    ref = refrun.predict(prog, cfg, faults=faults, hooks=True, cleanups=cleanups)
    v = refrun.compare(prog, ref, obs, what=("verdict", "status", "steps", "calls", "hooks") +
                       (("cleanups",) if cleanups else ()))
    for d, msg in v:
        d.setdefault("fault", ",".join(ref.fault_sites))
        if probe:
            d["probe"] = "status-read-from-hooks"
        if cleanups:
            d["earlier"] = "raising-cleanup"
    if not obs["escaped"]:
        nest = refrun._nesting_error(obs["hooks"])
        if nest:
            v.append(({"subcheck": "hooks", "clause": "after-hook-not-paired", "fault": ",".join(ref.fault_sites)}, nest))
        if faults and ref.fault_sites and not obs["verdict"]:
            v.append(({"subcheck": "verdict", "clause": "hook-fault-not-failing", "fault": ",".join(ref.fault_sites)},
                      "a hook raised but run() reports success"))
        # differential: elements outside the concerned element's ancestry keep the fault-free result
        if faults and len(ref.fault_sites) == 1 and not cfg.get("stop") and "_all" not in ref.fault_sites[0] \
                and not cleanups:
            base = fault_free(prog, cfgname)
            conc = sorted(ref.hook_error_elems)
            if conc:
                c = conc[0]
                for path, st in base["status"].items():
                    related = path[:len(c)] == c or c[:len(path)] == path
                    if not related and obs["status"].get(path) != st:
                        v.append(({"subcheck": "containment", "clause": "unrelated-element-changed",
                                   "fault": ",".join(ref.fault_sites)},
                                  "fault at %s (element %r): unrelated element %r is %s, fault-free run says %s"
                                  % (ref.fault_sites, c, path, obs["status"].get(path), st)))
                        break
                base_calls = [x for x in base["calls"] if not (x[0][:len(c)] == c)]
                got_calls = [x for x in obs["calls"] if not (x[0][:len(c)] == c)]
                if base_calls != got_calls:
                    v.append(({"subcheck": "containment", "clause": "unrelated-calls-changed",
                               "fault": ",".join(ref.fault_sites)},
                              "fault at %s: step calls outside %r differ from the fault-free run" % (ref.fault_sites, c)))
    nt = digest(case) if ref.fault_sites else None
    return {"v": v, "nt": nt, "out": (cfgname, tuple(ref.fault_sites), obs["verdict"]),
            "dg": (obs["verdict"], obs["escaped"], obs["hooks"], sorted(obs["status"].items()), obs["calls"])}


def nohook_case(case):
    """dry-run: no hook at all; de-selected scenarios: no hooks for them"""
    prog, mode = case
    v = []
    if mode == "dry":
        obs = harness.run_case(prog, {"dry": True}, hooks=True)
        if obs["hooks"]:
            v.append(({"subcheck": "hooks", "clause": "called-in-dry-run", "hook": obs["hooks"][0][0]},
                      "dry-run called hooks: %r" % (obs["hooks"][:4],)))
    else:
        obs = harness.run_case(prog, {"tags": "not u"}, hooks=True)
        ref = refrun.predict(prog, {"tags": "not u"}, hooks=True)
        desel = [p for p, (k, i) in ref.info.items() if not ref.selected(i["tags"])]
        for name, r in obs["hooks"]:
            tgt = r[0] if "step" in name else r
            if tgt in desel:
                v.append(({"subcheck": "hooks", "clause": "called-for-deselected", "hook": name},
                          "hook %s called for de-selected scenario %r" % (name, tgt)))
                break
        v += refrun.compare(prog, ref, obs, what=("hooks", "status", "calls"))
    return {"v": v, "nt": digest(case), "out": (mode, len(obs["hooks"])), "dg": (obs["hooks"], obs["verdict"])}


def cases(tier):
    quick = tier == "quick"
    for shp in shapes():
        prog = (shp, SECOND)
        for cfgname in ("default", "stop", "tags"):
            n = runcases.hook_count(prog, VARIATIONS[cfgname])
            yield (prog, cfgname, None)
            for k in range(n):
                for kind in ("exc", "assert"):
                    yield (prog, cfgname, {k: kind})
                if cfgname == "default":
                    yield (prog, "cafs", {k: "assert" if k % 2 else "exc"})
                    yield (prog, cfgname, {k: "exc"}, True)
                    # the raised exception cannot be described (its __str__ raises): behave formats the exception
                    # inside run_hook's except clause
                    yield (prog, cfgname, {k: "undesc"})


def cleanup_then_fault_cases(tier):
    """an EARLIER element's cleanup raises (registered in a before_scenario / before_rule / before_feature hook or in
    a step, on its own layer), then every later hook invocation raises in turn: the later fault must still be
    attributed to its own element (a raising cleanup must not leave its context layer behind)"""
    quick = tier == "quick"
    for si, shp in enumerate(shapes()):
        if quick and si % 4:
            continue
        prog = (shp, SECOND)
        sites = runcases.cleanup_sites((shp,))
        # the first scenario-level site, the first step site and the rule site
        picked = []
        for want in ("before_scenario", "step", "before_rule"):
            for trig, layer in sites:
                if layer is None and (trig[1] == want if trig[0] == "hook" else trig[0] == want):
                    picked.append(trig)
                    break
        for trig in picked:
            cl = {trig: [("c0", True, None)]}
            n = runcases.hook_count(prog, VARIATIONS["default"], cleanups=cl)
            yield (prog, "default", None, cl)
            for k in range(n):
                yield (prog, "default", {k: "exc"}, cl)


def skip_case(case):
    """a hook EXCLUDES its own element at run time (feature.skip() / rule.skip() / scenario.skip(), as documented):
    nothing raises, so run() must return success; every before-hook that ran keeps its after-hook (strict nesting)"""
    prog, cfgname, k = case
    cfg = VARIATIONS[cfgname]
    obs = harness.run_case(prog, cfg, faults={k: "skip"}, hooks=True)
    v = []
    name = obs["hooks"][k][0] if k < len(obs["hooks"]) else "?"
    level = "scenario" if obs["hooks"][k][1] and isinstance(obs["hooks"][k][1], tuple) and len(obs["hooks"][k][1]) > 2 else "container"
    if obs["escaped"]:
        v.append(({"subcheck": "skip-by-hook", "clause": "exception-escapes-run", "hook": name, "exc": obs["escaped"]},
                  "hook #%d (%s) skipped its element: run() raised %s: %s" % (k, name, obs["escaped"], obs.get("escaped_msg"))))
    else:
        nest = refrun._nesting_error(obs["hooks"])
        if nest:
            v.append(({"subcheck": "skip-by-hook", "clause": "after-hook-not-paired", "hook": name}, 
                      "hook #%d (%s) skipped its element: %s" % (k, name, nest)))
        if obs["verdict"]:
            v.append(({"subcheck": "skip-by-hook", "clause": "false-red", "hook": name},
                      "hook #%d (%s) skipped its element, nothing raised, but run() reports failure" % (k, name)))
    return {"v": v, "nt": digest(case), "out": ("skip", name, obs["verdict"], len(obs["hooks"])),
            "dg": (obs["verdict"], obs["escaped"], obs["hooks"], sorted(obs["status"].items()))}


def skip_cases(tier):
    quick = tier == "quick"
    for si, shp in enumerate(shapes()):
        if quick and si % 3:
            continue
        prog = (shp, SECOND)
        base = refrun.predict(prog, VARIATIONS["default"], hooks=True).hooks
        for k, (name, ref) in enumerate(base):
            if name in ("before_all", "after_all") or "step" in name:
                continue
            yield (prog, "default", k)


def nonpass_fault_cases(tier):
    """one step deviates (fails / raises / is pending / has no definition / skips its scenario), then every hook
    invocation of THAT run raises in turn: in particular the after_step hook of the very step that failed, and the
    after_scenario / after_tag hooks of a scenario that already failed (two faults meeting on one element)"""
    quick = tier == "quick"
    for si, shp in enumerate(shapes()):
        if si % (6 if quick else 2):
            continue
        # (outcomes reached through execute_steps() are not used here: the reference does not model the step hooks of
        # nested steps; C12's absorb_cases sweep covers a sub-step under hook faults with its own oracle)
        outs = ("fail", "error", "pending", "undefined") if quick else ("fail", "error", "pending", "undefined", "skip",
                                                                      "failS", "pendingS", "failU")
        for nd, pr in P.deviations((shp,), 1, outcomes=outs):
            if not nd:
                continue
            prog = (pr[0], SECOND)
            for cfgname in (("default",) if quick else ("default", "stop")):
                n = runcases.hook_count(prog, VARIATIONS[cfgname])
                yield (prog, cfgname, None)
                for k in range(n):
                    yield (prog, cfgname, {k: "assert" if k % 2 else "exc"})
                    if not quick:
                        yield (prog, cfgname, {k: "exc" if k % 2 else "assert"})


ALL_HOOKS = ("before_all", "after_all", "before_feature", "after_feature", "before_rule", "after_rule",
             "before_scenario", "after_scenario", "before_step", "after_step", "before_tag", "after_tag")


def hook_subsets():
    """what an environment file may provide: one hook only, all but one, only the before-hooks, only the after-hooks,
    each before/after pair"""
    out = [frozenset([h]) for h in ALL_HOOKS]
    out += [frozenset(ALL_HOOKS) - {h} for h in ALL_HOOKS]
    out.append(frozenset(h for h in ALL_HOOKS if h.startswith("before_")))
    out.append(frozenset(h for h in ALL_HOOKS if h.startswith("after_")))
    for lvl in ("feature", "rule", "scenario", "step", "tag"):
        out.append(frozenset(["before_" + lvl, "after_" + lvl]))
    return out


def subset_case(case):
    """case = (prog, cfgname, faults, subset): the environment provides only the hooks in `subset`; the trace is the
    full trace restricted to them, a fault in a provided hook is handled as always"""
    prog, cfgname, faults, subset = case
    cfg = VARIATIONS[cfgname]
    names = tuple(sorted(subset))
    obs = harness.run_case(prog, cfg, faults=faults, hooks=names)
    ref = refrun.predict(prog, cfg, faults=faults, hooks=names)
    v = refrun.compare(prog, ref, obs, what=("verdict", "status", "steps", "calls", "hooks"))
    tag = "only:" + names[0] if len(names) == 1 else "without:" + sorted(set(ALL_HOOKS) - subset)[0] \
        if len(names) == len(ALL_HOOKS) - 1 else "+".join(n.replace("before_", "b_").replace("after_", "a_") for n in names)
    for d, msg in v:
        d["provided"] = tag
        d.setdefault("fault", ",".join(ref.fault_sites))
    if not obs["escaped"] and faults and ref.fault_sites and not obs["verdict"]:
        v.append(({"subcheck": "verdict", "clause": "hook-fault-not-failing", "fault": ",".join(ref.fault_sites),
                   "provided": tag}, "a hook raised but run() reports success"))
    return {"v": v, "nt": digest(case), "out": ("subset", tag, tuple(ref.fault_sites), obs["verdict"]),
            "dg": (obs["verdict"], obs["escaped"], obs["hooks"], sorted(obs["status"].items()), obs["calls"])}


def subset_cases(tier):
    quick = tier == "quick"
    subsets = hook_subsets()
    for si, shp in enumerate(shapes()):
        if si % (8 if quick else 2):
            continue
        prog = (shp, SECOND)
        for subset in subsets:
            names = tuple(sorted(subset))
            yield (prog, "default", None, subset)
            n = len(refrun.predict(prog, VARIATIONS["default"], hooks=names).hooks)
            for k in range(n):
                if quick and n > 12 and k % 2:
                    continue
                yield (prog, "default", {k: "exc"}, subset)


# ---- a hook fault whose element-level failure is absorbed on the way up -------------------------------------------
ABSORB_TEXT = u"""Feature: F
  @auto
  Scenario: A
    Given a step
    When the outer step swallows the failure of its sub-step
    Then a step

  Scenario Outline: O <x>
    Given a step
    Examples:
      | x |
      | 1 |
      | 2 |

  Scenario: Z
    Given a step
"""
ABSORB_HOOKS = ("before_all", "after_all", "before_feature", "after_feature", "before_scenario", "after_scenario",
                "before_step", "after_step", "before_tag", "after_tag")


def absorb_case(case):
    """case = (mode, k, kind): mode "retry" = every scenario is patched with the documented auto-retry (2 attempts),
    "plain" = not; the k-th hook invocation raises ONCE. A failing attempt that is retried successfully, and a
    sub-step of execute_steps() whose failure the calling step catches, both absorb the ELEMENT's failure - the run
    must fail all the same ("an exception in a hook ... makes the run fail"), nothing escapes, after_all is called."""
    mode, k, kind = case
    from behave.parser import parse_feature
    from behave.step_registry import StepRegistry
    from behave.runner import ModelRunner
    from behave.configuration import Configuration
    from behave.contrib.scenario_autoretry import patch_scenario_with_autoretry
    harness.reset_globals()
    feature = parse_feature(ABSORB_TEXT, filename="absorb.feature")
    reg = StepRegistry()

    def a_step(ctx):
        pass

    def outer(ctx):
        try:
            ctx.execute_steps(u"Given a step")
        except AssertionError:
            pass        # user code that tolerates the failure of the sub-step
    reg.add_step_definition("step", u"a step", a_step)
    reg.add_step_definition("step", u"the outer step swallows the failure of its sub-step", outer)
    if mode == "retry":
        for sc in feature.walk_scenarios():
            patch_scenario_with_autoretry(sc, max_attempts=2)
    trace, raised = [], []

    def make_hook(name):
        def hook(ctx, *args):
            i = len(trace)
            trace.append(name)
            if i == k:
                raised.append(name)
                if kind == "assert":
                    raise AssertionError("fault in %s #%d" % (name, i))
                raise RuntimeError("fault in %s #%d" % (name, i))
        return hook
    old = sys.stdout, sys.stderr
    import io as _io
    sys.stdout, sys.stderr = _io.StringIO(), _io.StringIO()
    escaped, verdict = None, None
    try:
        config = Configuration(["-f", "null"], load_config=False)    # the summary reporter binds sys.stdout here
        runner = ModelRunner(config, [feature], step_registry=reg)
        runner.hooks = {n: make_hook(n) for n in ABSORB_HOOKS}
        verdict = bool(runner.run())
    except BaseException as e:      # noqa
        escaped = type(e).__name__
    finally:
        sys.stdout, sys.stderr = old
    v = []
    site = raised[0] if raised else "-"
    if escaped:
        v.append(({"subcheck": "absorbed", "clause": "exception-escapes-run", "exc": escaped, "fault": site, "mode": mode},
                  "fault in %s (#%d, %s): run() raised %s" % (site, k, mode, escaped)))
    else:
        if raised and not verdict:
            v.append(({"subcheck": "absorbed", "clause": "hook-fault-not-failing", "fault": site, "mode": mode},
                      "fault in %s (#%d, %s): a hook raised but run() reports success; scenario statuses %s"
                      % (site, k, mode, [sc.status.name for sc in feature.walk_scenarios()])))
        if not raised and verdict:
            v.append(({"subcheck": "absorbed", "clause": "false-red", "mode": mode}, "no fault, run() reports failure"))
        if trace[-1:] != ["after_all"] and site != "before_all":
            v.append(({"subcheck": "absorbed", "clause": "after-all-not-called", "fault": site, "mode": mode},
                      "fault in %s (#%d, %s): last hook is %r" % (site, k, mode, trace[-1:])))
    return {"v": v, "nt": digest(case) if raised else None, "out": ("absorbed", mode, site, verdict, escaped),
            "dg": (verdict, escaped, tuple(trace), [sc.status.name for sc in feature.walk_scenarios()])}


def absorb_cases(tier):
    for mode in ("plain", "retry"):
        n = len(absorb_case((mode, -1, "exc"))["dg"][2])
        yield (mode, -1, "exc")
        for k in range(n):
            yield (mode, k, "exc")
            yield (mode, k, "assert")



# ---- hooks wrapped with the documented @capture decorator --------------------------------------------------------
def decorated_case(case):
    """case = (k, deco, logs): every hook of the environment is wrapped with behave.log_capture.capture
    (deco "plain" = @capture, "error" = @capture(level=ERROR), "none" = undecorated control); the k-th hook invocation
    raises, after logging a record at INFO level (logs=1) or without logging anything (logs=0). The decorator must not
    change what a raising hook means: the run fails, nothing escapes, after_all is called."""
    k, deco, logs = case
    import logging
    from behave.parser import parse_feature
    from behave.step_registry import StepRegistry
    from behave.runner import ModelRunner
    from behave.configuration import Configuration
    from behave.log_capture import capture
    harness.reset_globals()
    feature = parse_feature(ABSORB_TEXT, filename="decorated.feature")
    reg = StepRegistry()
    reg.add_step_definition("step", u"a step", lambda ctx: None)
    reg.add_step_definition("step", u"the outer step swallows the failure of its sub-step", lambda ctx: None)
    trace, raised = [], []

    def make_hook(name):
        def hook(ctx, *args):
            i = len(trace)
            trace.append(name)
            if i == k:
                raised.append(name)
                if logs:
                    logging.getLogger("c12").info("about to fail in %s", name)
                raise RuntimeError("fault in %s #%d" % (name, i))
        if deco == "plain":
            return capture(hook)
        if deco == "error":
            return capture(level=logging.ERROR)(hook)
        return hook
    old = sys.stdout, sys.stderr
    import io as _io
    root = logging.getLogger()
    saved_handlers, saved_level = root.handlers[:], root.level
    sys.stdout, sys.stderr = _io.StringIO(), _io.StringIO()
    escaped, verdict = None, None
    try:
        config = Configuration(["-f", "null"], load_config=False)
        runner = ModelRunner(config, [feature], step_registry=reg)
        runner.hooks = {n: make_hook(n) for n in ABSORB_HOOKS}
        verdict = bool(runner.run())
    except BaseException as e:      # noqa
        escaped = type(e).__name__
    finally:
        sys.stdout, sys.stderr = old
        root.handlers[:] = saved_handlers
        root.setLevel(saved_level)
    v = []
    site = raised[0] if raised else "-"
    d = {"subcheck": "decorated-hooks", "decorator": deco, "logged-before-raising": str(bool(logs)), "fault": site}
    if escaped:
        v.append((dict(d, clause="exception-escapes-run", exc=escaped), "fault in %s (#%d): run() raised %s" % (site, k, escaped)))
    else:
        if raised and not verdict:
            v.append((dict(d, clause="hook-fault-not-failing"),
                      "the %s-decorated hook %s (#%d) raised, but run() reports success" % (deco, site, k)))
        if trace[-1:] != ["after_all"] and site != "before_all":
            v.append((dict(d, clause="after-all-not-called"), "fault in %s (#%d): last hook is %r" % (site, k, trace[-1:])))
    return {"v": v, "nt": digest(case) if raised else None, "out": ("decorated", deco, logs, site, verdict, escaped),
            "dg": (verdict, escaped, tuple(trace))}


def decorated_cases(tier):
    n = len(decorated_case((-1, "none", 0))["dg"][2])
    for deco in ("none", "plain", "error"):
        for logs in (0, 1):
            for k in range(n):
                yield (k, deco, logs)



def pair_cases(tier):
    for si, shp in enumerate(shapes()):
        prog = (shp, SECOND)
        for cfgname in ("default", "stop"):
            n = runcases.hook_count(prog, VARIATIONS[cfgname])
            for k1 in range(n):
                n2 = len(refrun.predict(prog, VARIATIONS[cfgname], faults={k1: "exc"}, hooks=True).hooks)
                for k2 in range(k1 + 1, n2):
                    yield (prog, cfgname, {k1: "exc", k2: "assert" if (k1 + k2) % 2 else "exc"})


def run(ctx):
    ctx.bounds = {"shapes": 48, "injection_points": "every hook invocation of the fault-free run",
                  "fault_kinds": 2, "pairs": not ctx.quick}
    ctx.sweep(run_case, cases(ctx.tier), chunk=32, name="single hook fault at every invocation")
    ctx.sweep(nohook_case, [((s, SECOND), m) for s in shapes() for m in ("dry", "desel")], chunk=4,
              name="no hooks in dry-run / for de-selected scenarios")
    ctx.sweep(run_case, cleanup_then_fault_cases(ctx.tier), chunk=32,
              name="a raising cleanup of an earlier element, then a single hook fault at every invocation")
    ctx.sweep(skip_case, skip_cases(ctx.tier), chunk=32,
              name="a hook excludes its own element at run time (skip()) at every hook invocation")
    ctx.sweep(run_case, nonpass_fault_cases(ctx.tier), chunk=32,
              name="one non-passing step, then a single hook fault at every invocation")
    ctx.sweep(subset_case, subset_cases(ctx.tier), chunk=32,
              name="the environment provides only a subset of the hooks (single hooks, all but one, halves, pairs)")
    ctx.sweep(absorb_case, absorb_cases(ctx.tier), chunk=8,
              name="a hook fault whose element failure is absorbed (auto-retry succeeds / the caller of execute_steps catches it)")
    ctx.sweep(decorated_case, decorated_cases(ctx.tier), chunk=16,
              name="hooks wrapped with the documented @capture decorator raise (with / without a record logged before)")
    if not ctx.quick:
        ctx.sweep(run_case, pair_cases(ctx.tier), chunk=64, name="pairs of hook faults")
    sites = set()
    for k in ctx.outcomes:
        if isinstance(k, tuple) and len(k) == 3 and isinstance(k[1], tuple):
            sites.update(k[1])
    need = ["before_all@", "after_all@", "before_feature@", "after_feature@", "before_rule@", "after_rule@",
            "before_scenario@", "after_scenario@", "before_step@", "after_step@", "before_tag@feature",
            "after_tag@feature", "before_tag@rule", "after_tag@rule", "before_tag@scenario", "after_tag@scenario"]
    for s in need:
        ctx.guard(s in sites, "injection point of kind %s exercised" % s)
