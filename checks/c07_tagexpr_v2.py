# -*- coding: utf-8 -*-
"""C07 - tag expressions v2 mean their Boolean formula; printing preserves meaning.

Engine E4: every expression AST up to a bound on operand occurrences, every
rendering, and for each the COMPLETE truth table over all 256 subsets of an
8-tag universe, against an independent evaluator.
"""
import itertools
from vlib.core import digest

PROPERTY = "C07"
LEVEL = "exploration"
RULE = ("All expression ASTs over connectives not/and/or (optional 'not' on every node) with <= 3 (quick) / <= 4 "
        "(thorough) operand occurrences over a literal+wildcard operand alphabet; each rendered minimal-paren, "
        "fully-parenthesised, double-parenthesised, with @ on all/alternating operands, with doubled spaces and in "
        "list-of-terms form (plain terms, one term, terms written as '(left) op (right)'); each rendering evaluated by behave on ALL 256 subsets of the 8-tag universe and compared "
        "with an independent evaluator; str()/to_string() re-parsed must give the same table; {config.tags} "
        "substitution through Configuration.setup_tag_expression (with every process-wide protocol a previous Configuration "
        "may have left behind), the placeholder in string form, one-item list form and in LISTS of 2-3 terms (several --tags "
        "options; placeholder terms before, after and between plain terms, negated, inside 'or', twice). A case is non-trivial (and counted distinct by its "
        "AST) when its reference truth table is neither constant nor equal to the table of one bare operand.")
ASSUMPTIONS = ["tag universe of 8 tags: wildcard extent and case-sensitivity are only witnessed by the tags in it",
               "operand texts outside the alphabet (e.g. quotes, backslash escapes other than '\\(' '\\)') are not covered"]

UNIVERSE = ("a", "b", "c", "a.b", "x-1", "k=v", "ab", "A")
SUBSETS = [tuple(t for i, t in enumerate(UNIVERSE) if m >> i & 1) for m in range(256)]
SUBSET_LISTS = [list(s) for s in SUBSETS]
OPS_QUICK = ("a", "b", "a.b", "a*", "*", "[!a]", "[ab]*")
# "a*a" / "ab*b": single-star patterns whose prefix and suffix overlap inside a shorter tag ("a", "ab") - a
# startswith/endswith shortcut without a length test answers them wrongly
# "*" / "?" / "**": the pattern consisting of the wildcard alone (matches any tag - but NOT the empty tag set)
# "[ab]" / "a[b]" / "[!a]": the character class is the ONLY wildcard of the pattern (and it matches tags of the universe:
# "[ab]c" matches none of them, so a reading as literal goes unnoticed there); "[ab]*" / "a?*" / "*.[b]" / "?*": ONE
# leading or trailing star combined with the other wildcard kinds (a startswith/endswith shortcut is wrong there)
OPS_FULL = ("a", "b", "c", "a.b", "x-1", "k=v", "a*", "?b", "[ab]c", "*.b", "a*a", "ab*b", "*", "?", "**",
            "[ab]", "a[b]", "[!a]", "[ab]*", "a?*", "*.[b]", "?*")
# thorough, three operand occurrences: 15 operands (every wildcard KIND stays; near-duplicates of a kind - "[ab]c",
# "ab*b", "?", "**", "a[b]", "*.[b]", "?*" - are covered with one and two occurrences only)
OPS_3 = ("a", "b", "c", "a.b", "x-1", "k=v", "a*", "?b", "*.b", "a*a", "*", "[ab]", "[!a]", "[ab]*", "a?*")
OPS_4 = ("a", "b", "x-1", "a*")


from vlib.ref_tags import glob_match, is_wild, ref_eval   # noqa: re-exported


_FULL = (1 << 256) - 1
_MASKS = {}


def mask(ast):
    """truth table as a 256-bit integer (bit m = value on SUBSETS[m]); ref_eval only at the leaves"""
    k = ast[0]
    if k == "lit":
        m = _MASKS.get(ast[1])
        if m is None:
            m = sum(1 << i for i, s in enumerate(SUBSETS) if ref_eval(ast, s))
            _MASKS[ast[1]] = m
        return m
    if k == "not":
        return _FULL ^ mask(ast[1])
    if k == "and":
        return mask(ast[1]) & mask(ast[2])
    if k == "or":
        return mask(ast[1]) | mask(ast[2])
    if k == "true":
        return _FULL
    raise ValueError(ast)


def table(ast):
    m = mask(ast)
    return tuple(bool(m >> i & 1) for i in range(256))


# ---- AST enumeration ---------------------------------------------------------
def shapes(n):
    if n == 1:
        yield "L"
        return
    for k in range(1, n):
        for l in shapes(k):
            for r in shapes(n - k):
                yield (l, r)


def fill(shape, ops, leaves):
    """all ASTs of a given bracket shape: operators and/or, optional not per node"""
    if shape == "L":
        for o in leaves:
            yield ("lit", o)
            yield ("not", ("lit", o))
        return
    for l in fill(shape[0], ops, leaves):
        for r in fill(shape[1], ops, leaves):
            for op in ("and", "or"):
                yield (op, l, r)
                yield ("not", (op, l, r))


def asts(n, leaves):
    for sh in shapes(n):
        for a in fill(sh, None, leaves):
            yield a


# ---- renderings -------------------------------------------------------------
def r_min(ast, at=lambda o, i: o, cnt=None):
    cnt = cnt if cnt is not None else [0]
    k = ast[0]
    if k == "lit":
        cnt[0] += 1
        return at(ast[1], cnt[0])
    if k == "not":
        inner = r_min(ast[1], at, cnt)
        if ast[1][0] in ("and", "or"):
            return "not (%s)" % inner
        return "not %s" % inner
    l = r_min(ast[1], at, cnt)
    if ast[1][0] in ("and", "or") and (ast[1][0] != k and k == "and"):
        l = "(%s)" % l
    r = r_min(ast[2], at, cnt)
    if ast[2][0] in ("and", "or") and not (k == "or" and ast[2][0] == "and"):
        r = "(%s)" % r
    return "%s %s %s" % (l, k, r)


def r_full(ast):
    k = ast[0]
    if k == "lit":
        return ast[1]
    if k == "not":
        return "( not %s )" % r_full(ast[1])
    return "( %s %s %s )" % (r_full(ast[1]), k, r_full(ast[2]))


def r_dbl(ast):
    k = ast[0]
    if k == "lit":
        return "((%s))" % ast[1]
    if k == "not":
        return "not ((%s))" % r_dbl(ast[1])
    return "((%s %s %s))" % (r_dbl(ast[1]), k, r_dbl(ast[2]))


def r_sides(ast):
    """binary node: "(left) op (right)" - both sides parenthesised, no outer parentheses; padded with blanks"""
    if ast[0] in ("and", "or"):
        return " (%s) %s (%s) " % (r_min(ast[1]), ast[0], r_min(ast[2]))
    if ast[0] == "not":
        return "not (%s)" % r_min(ast[1])
    return "(%s)" % ast[1]


def conjuncts(ast):
    if ast[0] == "and":
        return conjuncts(ast[1]) + conjuncts(ast[2])
    return [ast]


def renderings(ast):
    base = r_min(ast)
    yield "min", base
    yield "full", r_full(ast)
    yield "dbl", r_dbl(ast)
    yield "at_all", r_min(ast, lambda o, i: "@" + o)
    yield "at_alt", r_min(ast, lambda o, i: ("@" + o) if i % 2 else o)
    yield "spaces", "  " + base.replace(" ", "  ") + " "
    yield "list", [r_min(c) for c in conjuncts(ast)]
    yield "list1", [base]
    # list of terms whose texts begin with "(" and end with ")" without being ONE parenthesised group
    yield "list_parens", [r_sides(c) for c in conjuncts(ast)]


# ---- the case function -----------------------------------------------------
def init_worker():
    global make_tag_expression, V2
    from behave.tag_expression import make_tag_expression
    from behave.tag_expression.builder import TagExpressionProtocol
    V2 = TagExpressionProtocol.V2


def real_table(expr):
    check = expr.check
    return tuple([bool(check(s)) for s in SUBSET_LISTS])


def check_ast(ast):
    """one AST -> all renderings, truth tables, printing round trip"""
    want = table(ast)
    v = []
    obs = []
    n = 0
    for rname, text in renderings(ast):
        n += 1
        try:
            e = make_tag_expression(text, V2)
            got = real_table(e)
        except Exception as ex:
            v.append(({"subcheck": "meaning", "clause": "parse-raises", "rendering": rname,
                       "exc": type(ex).__name__},
                      "rendering %r of %r raised %r" % (text, ast, ex)))
            obs.append((rname, "EXC", type(ex).__name__))
            continue
        obs.append((rname, got))
        if got != want:
            i = [x != y for x, y in zip(got, want)].index(True)
            v.append(({"subcheck": "meaning", "clause": "truth-table", "rendering": rname,
                       "wild": str(any(is_wild(o) for o in operands(ast)))},
                      "expression %r (rendering %s of %r): tags %r -> behave says %s, formula says %s"
                      % (text, rname, ast, SUBSETS[i], got[i], want[i])))
        if rname in ("min", "list"):
            for pname, printed in (("str", str(e)), ("to_string", e.to_string())):
                n += 1
                try:
                    got2 = real_table(make_tag_expression(printed, V2))
                except Exception as ex:
                    v.append(({"subcheck": "printing", "clause": "reparse-raises", "printer": pname,
                               "exc": type(ex).__name__},
                              "printed form %r of %r does not parse: %r" % (printed, text, ex)))
                    continue
                obs.append((pname, got2))
                if got2 != got:
                    i = [x != y for x, y in zip(got2, got)].index(True)
                    v.append(({"subcheck": "printing", "clause": "meaning-changed", "printer": pname},
                              "%s(%r) = %r: tags %r -> original %s, re-parsed %s"
                              % (pname, text, printed, SUBSETS[i], got[i], got2[i])))
    nt = None
    if len(set(want)) > 1 and not any(want == table(("lit", o)) for o in operands(ast)):
        nt = ast
    return {"v": v, "nt": nt, "out": digest(want), "dg": obs, "n": n}


def operands(ast):
    if ast[0] == "lit":
        return [ast[1]]
    out = []
    for x in ast[1:]:
        out += operands(x)
    return out


# ---- protocol histories (library use of make_tag_expression) ------------------------------------------------------
PH_TEXTS = ("a and not b", "not (a or b) and c", "a* or c", ["a or b", "not c"], "a")
PH_TAGSETS = [list(t) for n in range(4) for t in itertools.combinations(("a", "b", "c"), n)]


def protocol_history_case(case):
    """case = tuple of operations: ("use", P) | ("make", text index, P | None), P in {"V1","V2","AUTO","DEFAULT"}.
    make_tag_expression(text, protocol=P) parses with P when given (DEFAULT is an alias of AUTO_DETECT), else with what
    the last TagExpressionProtocol.use() selected (initially AUTO_DETECT); an explicit protocol= does not change the
    process-wide selection. Oracle: every make's outcome equals the same text parsed with the EFFECTIVE protocol in
    isolation (fresh selection) - in particular an EARLIER explicit-protocol call must not change how a later call
    without protocol= reads its text."""
    from behave.tag_expression import make_tag_expression as mk
    from behave.tag_expression.builder import TagExpressionProtocol as TP
    byname = {"V1": TP.V1, "V2": TP.V2, "AUTO": TP.AUTO_DETECT, "DEFAULT": TP.DEFAULT}

    def outcome(text, proto):
        try:
            e = mk(text, proto)
            return tuple(bool(e.check(ts)) for ts in PH_TAGSETS)
        except Exception as ex:     # noqa
            return "EXC:" + type(ex).__name__

    def isolated(text, proto):
        TP.use(TP.DEFAULT)
        return outcome(text, proto)
    v, obs = [], []
    try:
        # references first (each in isolation), then the history itself from a fresh selection
        refs = {}
        for op in case:
            if op[0] == "make":
                for pn in ("V1", "V2", "AUTO"):
                    refs[(op[1], pn)] = isolated(PH_TEXTS[op[1]], byname[pn])
        TP.use(TP.DEFAULT)
        selected = "AUTO"
        for k, op in enumerate(case):
            if op[0] == "use":
                TP.use(byname[op[1]])
                selected = "AUTO" if op[1] == "DEFAULT" else op[1]
            else:
                eff = selected if op[2] is None else ("AUTO" if op[2] == "DEFAULT" else op[2])
                got = outcome(PH_TEXTS[op[1]], byname[op[2]] if op[2] else None)
                obs.append(got)
                if got != refs[(op[1], eff)]:
                    v.append(({"subcheck": "protocol-history", "clause": "make-ignores-effective-protocol",
                               "explicit": str(op[2]), "selected": selected,
                               "after": "explicit-protocol-call" if any(o[0] == "make" and o[2] for o in case[:k]) else "use-only"},
                              "history %r: operation #%d gives %r; %r parsed with the effective protocol %s in isolation gives %r"
                              % (case, k, got, PH_TEXTS[op[1]], eff, refs[(op[1], eff)])))
                    break
    finally:
        TP.use(TP.DEFAULT)
    return {"v": v, "nt": digest(case), "out": ("ph", tuple(o if isinstance(o, str) else "table" for o in obs)),
            "dg": tuple(obs)}


def protocol_history_cases(tier):
    uses = [("use", p) for p in ("V1", "V2", "AUTO", "DEFAULT")]
    ntext = len(PH_TEXTS) if tier != "quick" else 3
    makes = [("make", t, p) for t in range(ntext) for p in (None, "V1", "V2", "AUTO", "DEFAULT")]
    ops = uses + makes
    for a in ops:
        for b in makes:
            yield (a, b)
    for a in uses + [m_ for m_ in makes if m_[2]]:
        for b in ops:
            for c in [m_ for m_ in makes if m_[1] == 0 or tier != "quick"]:
                yield (a, b, c)


_CFG = []


def check_config_pair(case):
    """{config.tags} substitution: config tags x command-line expression"""
    cfg_ast, cmd_template, as_list = case[:3]
    leftover = case[3] if len(case) > 3 else None
    from behave.configuration import Configuration
    from behave.tag_expression.builder import TagExpressionProtocol as TP
    # history: the process-wide default protocol left behind by an EARLIER Configuration of this process
    TP.use(TP.DEFAULT)      # public API only: the state of a fresh process (current() == DEFAULT)
    if leftover:
        TP.use(leftover)
    if not _CFG:
        _CFG.append(Configuration("", load_config=False))
    cfg = _CFG[0]
    cfg_text = r_min(cfg_ast) if cfg_ast is not None else ""
    cfg.config_tags = [cfg_text] if (as_list and cfg_text) else cfg_text
    cfg.default_tags = None
    cfg.tag_expression_protocol = V2
    cmd_ast = cmd_template
    # reference: substitute the config AST for the placeholder leaf
    def subst(a):
        if a == ("lit", "{config.tags}"):
            return cfg_ast if cfg_ast is not None else ("true",)
        if a[0] == "lit":
            return a
        return (a[0],) + tuple(subst(x) for x in a[1:])
    if cmd_ast[0] == "terms":
        # several --tags options: a LIST of terms that are and-ed; the placeholder may stand in any of them
        terms = cmd_ast[1:]
        conj = subst(terms[0])
        for t in terms[1:]:
            conj = ("and", conj, subst(t))
        want = table(conj)
        text = [r_min(t) for t in terms]
        cfg.tags = list(text)
    else:
        want = table(subst(cmd_ast))
        text = r_min(cmd_ast)
        cfg.tags = [text] if as_list else text
    v = []
    try:
        cfg.setup_tag_expression()
        got = real_table(cfg.tag_expression)
    except Exception as ex:
        if cfg_ast is None:
            # empty config tags substituted into an operator context: the statement speaks of
            # "configured default tags"; with none configured the placeholder has no meaning.
            return {"out": "empty-config", "dg": "exc", "nt": None}
        v.append(({"subcheck": "config.tags", "clause": "raises", "exc": type(ex).__name__},
                  "config tags %r, --tags %r: %r" % (cfg_text, text, ex)))
        return {"v": v, "dg": "exc", "out": "exc"}
    if got != want:
        i = [x != y for x, y in zip(got, want)].index(True)
        v.append(({"subcheck": "config.tags", "clause": "truth-table"},
                  "config tags %r, --tags %r -> tags %r: behave says %s, formula says %s"
                  % (cfg_text, text, SUBSETS[i], got[i], want[i])))
    for d, msg in v:
        d["leftover_protocol"] = leftover or "none"
    TP.use(TP.DEFAULT)      # public API only: the state of a fresh process (current() == DEFAULT)
    nt = ("cfg", case) if len(set(want)) > 1 else None
    return {"v": v, "nt": nt, "out": digest(want), "dg": got}


def check_special(case):
    v = []
    kind, text = case
    e = make_tag_expression(text, V2)
    got = real_table(e)
    if kind == "empty":
        if not all(got):
            v.append(({"subcheck": "meaning", "clause": "empty-selects-all"},
                      "empty expression %r rejects tags %r" % (text, SUBSETS[got.index(False)])))
    return {"v": v, "dg": got, "out": "empty"}


def run(ctx):
    init_worker()
    if ctx.quick:
        plan = [(1, OPS_FULL), (2, OPS_FULL), (3, OPS_QUICK)]
    else:
        plan = [(1, OPS_FULL), (2, OPS_FULL), (3, OPS_3), (4, OPS_4)]
    ctx.bounds = {"operand_occurrences": plan[-1][0], "alphabets": {str(n): list(o) for n, o in plan},
                  "truth_table_rows": 256}
    for n, leaves in plan:
        ctx.sweep(check_ast, asts(n, leaves), chunk=256, name="asts_%d_operands" % n)
    ctx.sweep(check_special, [("empty", ""), ("empty", " "), ("empty", [])], name="empty")
    small = list(asts(1, OPS_QUICK)) + list(asts(2, ("a", "b", "a*")))
    templates = [("lit", "{config.tags}"), ("not", ("lit", "{config.tags}")),
                 ("and", ("lit", "{config.tags}"), ("lit", "c")),
                 ("and", ("lit", "c"), ("not", ("lit", "{config.tags}"))),
                 ("or", ("lit", "c"), ("lit", "{config.tags}")),
                 ("and", ("not", ("lit", "c")), ("lit", "{config.tags}")),
                 ("or", ("and", ("lit", "{config.tags}"), ("lit", "c")), ("lit", "x-1"))]
    pairs = [(c, t, l, lo) for c in small + [None] for t in templates for l in (False, True)
             for lo in (None, "v1", "v2", "auto_detect")]
    ctx.sweep(check_config_pair, pairs, chunk=32, name="config.tags substitution")
    PH = ("lit", "{config.tags}")
    term_alphabet = [PH, ("not", PH), ("lit", "c"), ("not", ("lit", "c")), ("lit", "x-1"), ("or", PH, ("lit", "c")),
                     ("lit", "a*")]
    term_lists = [("terms",) + tl for n in (2, 3) for tl in itertools.product(term_alphabet, repeat=n)
                  if "{config.tags}" in repr(tl) and (n == 2 or repr(tl).count("{config.tags}") <= 2)]
    cfgs = small if not ctx.quick else list(asts(1, ("a", "b*"))) + list(asts(2, ("a", "b")))[::3]
    ctx.sweep(check_config_pair, [(c, tl, True, lo) for c in cfgs for tl in term_lists for lo in (None, "v1")],
              chunk=64, name="config.tags substitution in lists of terms (several --tags options)")
    ctx.sweep(protocol_history_case, protocol_history_cases(ctx.tier), chunk=128,
              name="protocol histories: use() / make_tag_expression(text, protocol=explicit or omitted), 2-3 operations")
    ctx.guard(len(ctx.nt) > 1000, "at least 1000 distinct non-trivial expressions")
    ctx.guard(len(ctx.outcomes) > 50, "at least 50 distinct truth tables observed")
