# -*- coding: utf-8 -*-
"""C18 - output capture isolates step output and always restores the real streams (E1 + E3).

Own driver (harness.run_case swaps sys.stdout itself): sentinel stream objects are installed as sys.stdout AND
sys.stderr before the run, a fresh StepRegistry, a Configuration built from the real command-line switches, the
real plain + pretty formatters writing into StringIOs and a recording formatter that notes the identity of
sys.stdout/sys.stderr at every match()/result() callback.
"""
from __future__ import print_function
import io, os, re, sys, logging, itertools, subprocess, tempfile, shutil
from vlib import harness
from vlib.core import digest, repo_dir

PROPERTY = "C18"
LEVEL = "exploration"
RULE = ("One feature with 1-2 scenarios of 1-3 steps. Every step function (before and after a nested execute_steps), "
        "every before_step and after_step hook (also those of the nested sub-step) emits six unique markers: print to "
        "stdout, write to stderr, logger c18 WARNING, logger c18 ERROR, logger other ERROR, logger c18.sub ERROR. Step "
        "outcomes {pass, exec (execute_steps with a printing sub-step), fail, error, kbi (KeyboardInterrupt), hb (before_step "
        "hook raises), ha (after_step hook raises), xfail (sub-step fails)} x all 8 on/off combinations of --[no-]capture, "
        "--[no-]capture-stderr, --[no-]logcapture x logging variants {user root handler, no handler (logging.lastResort), "
        "config.setup_logging() in before_all, "
        "--logging-level=ERROR, --logging-filter=c18, --logging-filter=-other, --logging-clear-handlers, all three}. "
        "The markers actually produced are logged at emission; a 30-line routing model written from the option help texts "
        "says for each marker whether it must be in the failure report, on a sentinel stream, at the user's handler or "
        "nowhere. Oracle: sentinel contents equal the pass-through markers in production order (so nothing of a captured "
        "channel leaks); error_message of the failing step holds exactly the captured markers of its scenario up to and "
        "including that step; formatter texts (plain, pretty) hold no marker of a passing scenario and no marker outside "
        "the failing reports; sys.stdout/sys.stderr ARE the sentinels at every match()/result() callback, in "
        "before/after_scenario, after_feature and after the run; root logger's non-behave handlers and level at the next "
        "scenario start / feature end equal the snapshot taken in before_scenario (which sets a distinctive level 25 and adds "
        "the user handler). "
        "Initial root logger state dimension: root level {NOTSET(0), DEBUG, WARNING, CRITICAL} set in before_scenario (seen by the "
        "scenario's capture setup, which runs after that hook) or before the run x --logging-level {unset, NOTSET, DEBUG, WARNING} "
        "x root handlers {none, one user handler}, plus --logging-clear-handlers with nothing to clear and an empty "
        "--logging-filter= (every saved/restored quantity takes its falsy value) x 8 switches. "
        "Emission dimension: every step and its hooks carry an emission profile {all six markers, nothing, stdout only, stderr only, one "
        "ERROR record, only a DEBUG record (below the default capture level), only a record of logger 'other' (filtered out under "
        "--logging-filter=-other/c18)}; step kinds setlvl / addh / rmh change the root logger's level / add a handler / remove the "
        "user's handler inside the scenario; the special scenario is first, middle, last or all of a 3-scenario run, so empty stdout, "
        "stderr and log buffers occur at every position; after every scenario no LoggingCapture of behave may sit on the root logger. "
        "Root handler dimension: 0-3 pre-existing handlers on the root logger (added before the run and/or in before_all) x "
        "--logging-clear-handlers on/off x 8 switches on 3-4 scenario programs: with log capture + clear-handlers no record emitted inside "
        "a scenario reaches any of them; with log capture off every one receives every record in order; after each scenario the "
        "handler list is IDENTICAL (same objects, same order) to the one the scenario's capture setup saw unless a step itself "
        "changed it (then per handler: as before or as the step left it); after run() it equals the list after the last scenario. "
        "Named-logger dimension: 0-3 handlers on the logger the steps log to x clear-handlers x 8 switches: with log capture + "
        "clear-handlers none of them receives a record emitted inside a scenario. "
        "Hostile-exception dimension: a step fails with an AssertionError-, StepNotImplementedError(pending)- or Exception-derived "
        "exception whose __str__ raises UnicodeDecodeError / UnicodeEncodeError (behave builds the failure message inside the capture "
        "window) x emission profiles x 8 switches, as first, middle or last scenario: an ordinary failing step (report = exactly its "
        "captured output, streams/handlers restored, the run continues with the next scenario). "
        "Library-use dimension: the user's hook function of one hook kind (before/after all, feature, tag, scenario, step) is "
        "undecorated or wrapped with the documented behave.log_capture.capture / capture(level=DEBUG|ERROR) and logs a well-formed record "
        "plus optionally one whose lazy formatting fails (args not fitting the format string; an argument whose __str__ raises); "
        "steps that log such records; default, custom and broken (unknown key) --logging-format; x 8 switches on 3-scenario programs. "
        "Oracle unchanged, plus: after a decorated hook returns or raises, no LoggingCapture it installed is on the root logger and the "
        "root level is what it was before the call. "
        "Volume dimension: a passing step emits N stdout lines, N stderr lines and N log records before the failing step, "
        "N = capacity-1, capacity, capacity+1, 2*capacity+1 where capacity is read at run time from the real LoggingCapture "
        "handler object (logging.handlers.BufferingHandler capacity, the only size constant in behave/capture.py and "
        "behave/log_capture.py; the stdout/stderr buffers are unbounded StringIOs), once counting the volume records alone and "
        "once counting ALL buffered records of the scenario, x 8 switches; same oracle on the complete marker sets plus "
        "first/last/count of each captured channel, and the next scenario's report holds none of them. "
        "Non-trivial = distinct case with at least one capture switch on and at least one executed "
        "failing step (the report is then non-empty and the restore paths after an exception are exercised).")
ASSUMPTIONS = ["scenario hooks do not print (before_scenario runs before the per-scenario buffers exist; statement is about steps and step hooks)",
               "a user-installed root handler that is kept (no --logging-clear-handlers) still receives records while log capture is on; it is not a 'real stream'",
               "with --no-logcapture and no handler configured, Python's logging.lastResort writes WARNING+ records to sys.stderr, so those markers follow the stderr channel",
               "sub-loggers of a name given to --logging-filter may or may not be captured/excluded: the option help says 'foo or foo.what.ever.sub', "
               "the project's features/logcapture.filter.feature specifies exact names only",
               "what a step of the scenario itself did to the root logger (setLevel, addHandler, removeHandler) may at scenario end be either undone "
               "(value before the scenario: behave's abandon() restores the level it saved) or left as the step set it (behave never "
               "promises to undo user changes; handlers added by a step stay): both accepted; never accepted: behave's own "
               "LoggingCapture handler still on the root logger after a scenario or after the run, or the capture level left behind",
               "duplicated markers inside a report are not flagged (statement: contains everything / nothing from other scenarios)",
               "an exception whose __str__ raises something that is NOT a UnicodeError is outside the alphabet (textutil.text() only promises to "
               "cope with undecodable text); __repr__/__format__ of exceptions are not called by the failure path",
               "how the failure to format a log record surfaces (hook error, step error, logging's handleError output on stderr, not at all) is "
               "not stated: where such a record is involved the first failing step is taken from the observed statuses and the decorator's "
               "'Captured Logging' print-out is optional; what IS demanded: nothing escapes run(), streams / root handlers / level restored, "
               "every failing step's report holds exactly its scenario's captured output, the run goes on",
               "a @capture-decorated step hook replaces behave's own scenario log capture by design (inveigle() removes any existing "
               "LoggingCapture); what happens to later log output of that scenario is outside the statement: decorated before_step/after_step "
               "hooks are enumerated with log capture off only (all other hook kinds with both)",
               "records logged by scenario/feature/run/tag hooks (outside the capture windows of steps) are not judged",
               "KeyboardInterrupt raised inside a step hook is outside the alphabet (hook errors are Exception subclasses)",
               "child-process runs (thorough) compare marker sets/orders on the real pipes, not complete byte images (tracebacks, timings)"]

PASSING = ("pass", "exec")
FAILING = ("fail", "error", "kbi", "hb", "ha", "xfail")
OUTCOMES = PASSING + FAILING
CHANS = ("O", "E", "LW", "LE", "LO", "LS")
LOGSPEC = {"LW": ("c18", logging.WARNING), "LE": ("c18", logging.ERROR), "LO": ("other", logging.ERROR),
           "VL": ("c18", logging.ERROR), "LD": ("c18", logging.DEBUG),
           "HK": ("c18", logging.ERROR),     # record logged by the user's (possibly @capture-decorated) hook function
           "LS": ("c18.sub", logging.ERROR)}
CHAN_NAME = {"O": "stdout", "E": "stderr", "LW": "logging", "LE": "logging", "LO": "logging", "LS": "logging",
             "VO": "stdout", "VE": "stderr", "VL": "logging", "LD": "logging", "HK": "logging"}
# VO/VE/VL = the i-th line / record of a "vol" step (volume dimension): <VL:s0k0v00017>
MARK = re.compile(r"<(O|E|LW|LE|LO|LS|LD|HK|VO|VE|VL):s(\d+)k(\d+)(x?)([bsta]|v\d+)>")
# volume dimension: N = mult * capacity + offset, capacity read from the real LoggingCapture handler object at run time
VOLUMES = ((1, -1), (1, 0), (1, 1), (2, 1))
USER_LEVEL = 25
STEP_LEVEL = 35         # what the 'setlvl' step sets on the root logger inside a scenario
# emission profiles ("what this step / these hooks emit"): step text "s0k0 pass qa" = step profile q, hook profile a
PROFILES = {"a": CHANS, "q": (), "o": ("O",), "e": ("E",), "l": ("LE",),
            "d": ("LD",),          # only a DEBUG record: below the default capture level
            "f": ("LO",)}          # only a record of logger 'other': filtered out by --logging-filter=-other / =c18
STATE_KINDS = ("setlvl", "addh", "rmh")     # passing steps that change the root logger inside the scenario


def base(o):
    return o.split()[0]


# failing steps whose exception calls back into user code when behave builds the failure message INSIDE the capture window:
# __str__ raises a UnicodeError (a bytes message decoded/encoded with the wrong codec); behave.textutil.text() is documented to
# cope with "exception-traceback w/ weird encoding or bytes", so these are ordinary failures
UNI_KINDS = ("ude",     # AssertionError subclass, args non-empty, __str__ raises UnicodeDecodeError
             "uee",     # AssertionError subclass, __str__ raises UnicodeEncodeError
             "pude",    # StepNotImplementedError (pending) subclass, __str__ raises UnicodeDecodeError
             "xude")    # plain Exception subclass, __str__ raises UnicodeDecodeError (message built by traceback.format_exc)


# "library use": the documented behave.log_capture.capture decorator on environment hooks, and records whose lazy formatting fails
HOOK_KINDS = ("before_all", "after_all", "before_feature", "after_feature", "before_tag", "after_tag",
              "before_scenario", "after_scenario", "before_step", "after_step")
STEP_HOOKS = ("before_step", "after_step")
REC_KINDS = ("badargs", "badstr")       # passing steps that also log a record that cannot be formatted
FORMATS = {"-": [], "custom": ["--logging-format=%(name)s/%(levelname)s/%(message)s"],
           "nokey": ["--logging-format=%(nokey)s %(message)s"]}


class BadStr(object):
    def __str__(self):
        raise RuntimeError("__str__ of a logged argument fails")


def log_bad_record(kind):
    if kind in ("args", "badargs"):
        logging.getLogger("c18").error("disk usage: %d%%", "n/a")       # TypeError when the record is formatted
    elif kind in ("str", "badstr"):
        logging.getLogger("c18").error("value: %s", BadStr())          # RuntimeError when the record is formatted


def isfail(o):
    return base(o) in FAILING or base(o) in UNI_KINDS

# logging variants: args, user handler installed in before_scenario?, effective capture level, filter
LOGVARS = {
    "handler": {"args": [], "handler": True, "level": logging.INFO, "filter": None, "clear": False},
    "nohandler": {"args": [], "handler": False, "level": logging.INFO, "filter": None, "clear": False},
    "level": {"args": ["--logging-level=ERROR"], "handler": True, "level": logging.ERROR, "filter": None, "clear": False},
    "filter+": {"args": ["--logging-filter=c18"], "handler": True, "level": logging.INFO, "filter": "c18", "clear": False},
    "filter-": {"args": ["--logging-filter=-other"], "handler": True, "level": logging.INFO, "filter": "-other", "clear": False},
    "clear": {"args": ["--logging-clear-handlers"], "handler": True, "level": logging.INFO, "filter": None, "clear": True},
    # before_all calls context.config.setup_logging() like the default before_all hook of behave.runner.Runner
    "setup_logging": {"args": [], "handler": False, "level": logging.INFO, "filter": None, "clear": False, "basic": True},
    "combo": {"args": ["--logging-level=ERROR", "--logging-filter=-other", "--logging-clear-handlers"], "handler": True,
              "level": logging.ERROR, "filter": "-other", "clear": True},
}
SWITCHES = tuple(itertools.product((True, False), repeat=3))

# "initial root logger state" dimension: variant names  rs|<where>|<root level>|<config level>|<handler 0/1>|<clear 0/1>|<filter>
#   where = hook: a before_scenario hook sets the root level / adds the user handler (what the scenario's capture setup sees:
#           Scenario.run calls run_hook("before_scenario") BEFORE runner.setup_capture());  prerun: the embedding program did so
#   every saved/restored quantity gets its falsy value: level NOTSET (0), no handler at all (empty list), empty filter string
ROOT_LEVELS = (logging.NOTSET, logging.DEBUG, logging.WARNING, logging.CRITICAL)
CONFIG_LEVELS = {"unset": ([], logging.INFO), "NOTSET": (["--logging-level=NOTSET"], logging.NOTSET),
                 "DEBUG": (["--logging-level=DEBUG"], logging.DEBUG), "WARNING": (["--logging-level=WARNING"], logging.WARNING)}


def logvar(name):
    if name in LOGVARS:
        return LOGVARS[name]
    if name.startswith("dc|"):
        # dc|<hook kind or 'none'>|<n undecorated, c @capture, d @capture(level=DEBUG), e @capture(level=ERROR)>|
        #    <record logged by that hook: ok / args / str>|<logging format: - / custom / nokey>
        _, hook, deco, rec, fmt = name.split("|")
        return {"args": list(FORMATS[fmt]), "handler": True, "level": logging.INFO, "filter": None, "clear": False,
                "dc": (hook, deco, rec), "fmt": fmt}
    if name.startswith("nl|"):
        # nl|<handlers on the NAMED logger 'c18' (the one steps log to), added in before_all>|<clear 0/1>; root has the user handler
        _, n, clear = name.split("|")
        return {"args": ["--logging-clear-handlers"] if clear == "1" else [], "handler": True, "level": logging.INFO,
                "filter": None, "clear": clear == "1", "named": int(n)}
    if name.startswith("rh|"):
        # rh|<handlers added before the run>|<handlers added in before_all>|<--logging-clear-handlers 0/1>
        _, npre, nball, clear = name.split("|")
        return {"args": ["--logging-clear-handlers"] if clear == "1" else [], "handler": False, "level": logging.INFO,
                "filter": None, "clear": clear == "1", "npre": int(npre), "nball": int(nball),
                "sinks": int(npre) + int(nball)}
    tag, where, rl, cl, h, clear, flt = name.split("|")
    assert tag == "rs"
    args, level = CONFIG_LEVELS[cl]
    args = list(args)
    if clear == "1":
        args.append("--logging-clear-handlers")
    if flt == "empty":
        args.append("--logging-filter=")        # falsy filter: "by default, everything is captured"
    return {"args": args, "handler": h == "1", "level": level, "filter": None, "clear": clear == "1",
            "root": int(rl), "where": where}


class HookFault(Exception):
    pass


# --------------------------------------------------------------------------- reference routing model
def log_captured(chan, lv):
    """True / False / None (either accepted): does the log-capture buffer keep this record (from the option help)"""
    name, level = LOGSPEC[chan]
    if level < lv["level"]:
        return False
    f = lv["filter"]
    if not f:
        return True
    verdicts = []
    for part in f.split(","):
        neg = part.startswith("-")
        base = part[1:] if neg else part
        if name == base:
            verdicts.append(("ex" if neg else "in", True))
        elif name.startswith(base + "."):
            # sub-logger: the option help says "foo or foo.what.ever.sub", features/logcapture.filter.feature
            # specifies exact names only -> the documentation contradicts itself, either is accepted
            verdicts.append(("ex" if neg else "in", None))
        else:
            verdicts.append(("ex" if neg else "in", False))
    if any(k == "ex" for k, _ in verdicts):
        hit = [m for k, m in verdicts if k == "ex"]
        if True in hit:
            return False
        if None in hit:
            return None
        return True
    hit = [m for k, m in verdicts]
    return True if True in hit else (None if None in hit else False)


def route(chan, sw, lv, env=None):
    """env = (root level a step of this scenario set before the emission | None, user handler still on root?, extra handler?)"""
    r = _route(chan, sw, lv)
    if env is None or chan not in LOGSPEC:
        return r
    override, has_user, has_extra = env
    if override is not None:
        if LOGSPEC[chan][1] < override:
            return "drop"                     # the scenario's own setLevel() gates the record before any handler
        if not sw[2]:
            r = _route(chan, sw, dict(lv, root=override))
    if not sw[2] and r == "user" and not has_user:
        # the step removed the user's handler: an added one gets it, else logging.lastResort -> sys.stderr
        if has_extra or LOGSPEC[chan][1] < logging.WARNING:
            return "drop"
        return "cap" if sw[1] else "err"
    if not sw[2] and has_extra and r != "user" and not lv.get("basic"):
        return "drop"                         # a handler exists now: logging.lastResort is out of the game
    return r


def _route(chan, sw, lv):
    """-> 'cap' (must be in the failure report), 'cap?' (may be), 'out' / 'err' (sentinel), 'user' (user's handler), 'drop'"""
    cap_out, cap_err, cap_log = sw
    if chan in ("O", "VO"):
        return "cap" if cap_out else "out"
    if chan in ("E", "VE"):
        return "cap" if cap_err else "err"
    if cap_log:
        c = log_captured(chan, lv)
        return "cap" if c else ("cap?" if c is None else "drop")
    if LOGSPEC[chan][1] < lv.get("root", USER_LEVEL):
        return "drop"                         # logging left intact: below the user's own root level
    if lv["handler"] or lv.get("sinks"):
        return "user"
    if lv.get("basic"):
        return "err"                          # logging.basicConfig(): StreamHandler bound to the original stderr
    if LOGSPEC[chan][1] < logging.WARNING:
        return "drop"                         # logging.lastResort handles WARNING and above only
    return "cap" if cap_err else "err"        # logging.lastResort -> sys.stderr


def render(scens, tags=False):
    lines = ["Feature: c18", ""]
    for si, seq in enumerate(scens):
        if tags:
            lines.append("  @t%d" % si)
        lines.append("  Scenario: S%d" % si)
        for ki, o in enumerate(seq):
            lines.append("    Given s%dk%d %s" % (si, ki, o))
        lines.append("")
    return "\n".join(lines)


def config_args(sw, lv):
    return ["--no-summary",
            "--capture" if sw[0] else "--no-capture",
            "--capture-stderr" if sw[1] else "--no-capture-stderr",
            "--logcapture" if sw[2] else "--no-logcapture"] + list(lv["args"])


def markers(text):
    return [m.group(0) for m in MARK.finditer(text or "")]


def mkey(marker):
    m = MARK.match(marker)
    return int(m.group(2)), int(m.group(3))


# --------------------------------------------------------------------------- in-process driver
class Sentinel(io.StringIO):
    def __init__(self, name):
        io.StringIO.__init__(self)
        self.sname = name


class ListHandler(logging.Handler):
    def __init__(self):
        logging.Handler.__init__(self, 0)
        self.msgs = []

    def emit(self, record):
        try:
            self.msgs.append(record.getMessage())
        except Exception:       # like the standard handlers: a record that cannot be formatted does not raise into the caller
            self.msgs.append("<unformattable record>")


class IdentRecorder(object):
    name = "c18-recorder"

    def __init__(self, note):
        self.note = note

    def uri(self, uri): pass
    def feature(self, feature): pass
    def rule(self, rule): pass
    def background(self, background): pass
    def scenario(self, scenario): pass
    def step(self, step): pass

    def match(self, match):
        self.note("match")

    def result(self, step):
        self.note("result")

    def eof(self): pass
    def close(self): pass


def emit_all(produced, sid, site, prof="a", envlog=None, env=None):
    for chan in PROFILES[prof]:
        mk = "<%s:%s%s>" % (chan, sid, site)
        produced.append(mk)
        if envlog is not None and chan in LOGSPEC:
            envlog[mk] = env
        if chan == "O":
            print(mk)
        elif chan == "E":
            sys.stderr.write(mk + "\n")
        else:
            name, level = LOGSPEC[chan]
            logging.getLogger(name).log(level, mk)


def emit_volume(produced, sid, n):
    out, err, log = sys.stdout, sys.stderr, logging.getLogger("c18")
    for i in range(n):
        a, b, c = "<VO:%sv%05d>" % (sid, i), "<VE:%sv%05d>" % (sid, i), "<VL:%sv%05d>" % (sid, i)
        produced.append(a)
        produced.append(b)
        produced.append(c)
        out.write(a + "\n")
        err.write(b + "\n")
        log.error(c)


def drive(scens, sw, lvname, vol=None):
    m = harness._imp()
    harness.reset_globals()
    from behave.log_capture import LoggingCapture
    from behave.formatter.plain import PlainFormatter
    from behave.formatter.pretty import PrettyFormatter
    lv = logvar(lvname)
    root = logging.getLogger()
    saved_handlers, saved_level = list(root.handlers), root.level
    saved_raise = logging.raiseExceptions
    for name in ("c18", "other", "c18.sub"):
        lg = logging.getLogger(name)
        lg.handlers[:] = []
        lg.setLevel(logging.NOTSET)
        lg.propagate = True
        lg.disabled = False
    root.handlers[:] = []
    root.setLevel(lv["root"] if lv.get("where") == "prerun" else logging.WARNING)
    old_out, old_err = sys.stdout, sys.stderr
    s_out, s_err = Sentinel("stdout"), Sentinel("stderr")
    user = ListHandler()
    if lv.get("where") == "prerun" and lv["handler"]:
        root.addHandler(user)
    extra = ListHandler()
    sinks = [ListHandler() for _ in range(lv.get("sinks", 0))]      # pre-existing root handlers ("rh|..." variants)
    for h in sinks[:lv.get("npre", 0)]:
        root.addHandler(h)
    named = [ListHandler() for _ in range(lv.get("named", 0))]    # handlers on the named logger 'c18' ("nl|..." variants)
    last_hs = [None]
    obs = {"produced": [], "ident": [], "snap": [], "escaped": None, "verdict": None, "env": {}}
    produced = obs["produced"]
    envlog = obs["env"]
    snap = [None]
    # what the scenario's own steps did
    st = {"override": None, "has_user": bool(lv["handler"] or sinks), "extra": False, "touched": False}

    def env():
        return (st["override"], st["has_user"], st["extra"])

    def emit(sid, site, prof):
        emit_all(produced, sid, site, prof, envlog, env())

    def parse(name):
        parts = name.split()
        prof = parts[2] if len(parts) > 2 else "aa"
        return parts[0], parts[1], prof[0], prof[1]

    def note(where):
        obs["ident"].append((where, sys.stdout is s_out, sys.stderr is s_err))

    def snapshot():
        return ([h for h in root.handlers if not isinstance(h, LoggingCapture)], root.level)

    def check_snapshot(where):
        if snap[0] is not None:
            hs, lvl = snapshot()
            want_h, want_l = snap[0]
            # accept-set, per handler (order is not compared): present as before the scenario, or as the scenario's own
            # steps left it
            left_h = [h for h in want_h if h is not user or st["has_user"]] + ([extra] if st["extra"] else [])
            cnt = lambda xs, h: sum(1 for x in xs if x is h)     # noqa
            same = len(hs) == len(want_h) and all(a is b for a, b in zip(hs, want_h))
            if st["touched"]:
                ok_h = all(cnt(hs, h) in (cnt(want_h, h), cnt(left_h, h)) for h in hs + want_h + left_h)
                how = "ok" if ok_h else "differs"
            else:
                # the scenario's steps did not touch the handlers: identical list, same objects in the same order
                ok_h = same
                how = "ok" if same else ("permuted" if len(hs) == len(want_h) and all(cnt(hs, h) == cnt(want_h, h) for h in hs + want_h)
                                         else "differs")
            n_lc = sum(1 for h in root.handlers if isinstance(h, LoggingCapture))
            names = lambda xs: ["h%d" % sinks.index(h) if h in sinks else type(h).__name__ for h in xs]     # noqa
            obs["snap"].append((where, ok_h, names(hs), names(want_h), lvl, want_l, st["override"], n_lc, how))
            last_hs[0] = hs
            snap[0] = None

    sys.stdout, sys.stderr = s_out, s_err
    try:
        config = m["Configuration"](config_args(sw, lv), load_config=False)
        reg = m["StepRegistry"]()
        dc_hook, dc_deco, dc_rec = lv.get("dc", ("none", "n", "ok"))
        feat = m["parse_feature"](render(scens, tags=dc_hook in ("before_tag", "after_tag")), filename="c18.feature")
        scen_index = {id(sc): si for si, sc in enumerate(feat.scenarios)}
        obs["deco"] = []

        # the user's own hook function of the "dc|" variants: logs one well-formed record (marker HK) and possibly one that
        # cannot be formatted; decorated with the documented behave.log_capture.capture or not
        def user_hook(ctx, *args):
            name = dc_hook
            if name in STEP_HOOKS:
                ident = args[0].name.split()[0] + name[0]
            else:
                sc = getattr(ctx, "scenario", None) if "scenario" in name or "tag" in name else None
                ident = "s%dk9%s" % (scen_index.get(id(sc), 9), name[0])
            mk = "<HK:%s>" % ident
            if mk not in envlog:
                produced.append(mk)
                envlog[mk] = env()
            logging.getLogger("c18").error(mk)
            log_bad_record(dc_rec)

        if dc_deco == "n":
            deco_hook = user_hook
        else:
            from behave.log_capture import capture as capture_decorator
            deco_hook = {"c": lambda f: capture_decorator(f), "d": lambda f: capture_decorator(level=logging.DEBUG)(f),
                         "e": lambda f: capture_decorator(level=logging.ERROR)(f)}[dc_deco](user_hook)

        def call_user_hook(name, ctx, *args):
            """called LAST in every bookkeeping hook: whatever it raises goes to behave's run_hook like a user hook's error"""
            if name != dc_hook:
                return
            before_lc = [h for h in root.handlers if isinstance(h, LoggingCapture)]
            before_level = root.level
            try:
                deco_hook(ctx, *args)
            finally:
                left = [h for h in root.handlers if isinstance(h, LoggingCapture) and not any(h is b for b in before_lc)]
                obs["deco"].append((name, len(left), before_level, root.level))

        def make_step(kind):
            def step_impl(ctx, sid, prof="aa"):
                emit(sid, "s", prof[0])
                if kind in ("exec", "xfail"):
                    ctx.execute_steps(u"Given %sx %s%s" % (sid, "pass" if kind == "exec" else "fail",
                                                           "" if prof == "aa" else " " + prof))
                    emit(sid, "t", prof[0])
                if kind == "setlvl":
                    root.setLevel(STEP_LEVEL)
                    st["override"] = STEP_LEVEL
                if kind == "addh":
                    root.addHandler(extra)
                    st["extra"] = True
                    st["touched"] = True
                if kind == "rmh":
                    root.removeHandler(user)
                    st["has_user"] = bool(sinks)
                    st["touched"] = True
                if kind == "vol":
                    # capacity of the real handler object that is capturing right now (fresh instance if none is)
                    lc = getattr(ctx, "log_capture", None) if sw[2] else None
                    cap = getattr(lc if lc is not None else LoggingCapture(config), "capacity")
                    obs["capacity"] = cap
                    obs["buffered_before"] = len(lc.buffer) if lc is not None else None
                    n = vol[0] * cap + vol[1]
                    if vol[2] and lc is not None:
                        # 'total' mode: N counts ALL records in the buffer when the failing step is judged:
                        # subtract what is there already and what the remaining sites will add (this step's
                        # after_step hook + before/step/after of the failing step = 4 sites x captured markers each)
                        per_site = sum(1 for c in ("LW", "LE", "LO", "LS") if log_captured(c, lv))
                        n -= len(lc.buffer) + 4 * per_site
                    obs["vol_n"] = n
                    emit_volume(produced, sid, n)
                if kind in REC_KINDS:
                    log_bad_record(kind)
                if kind == "fail":
                    assert False, "boom"
                if kind == "error":
                    raise RuntimeError("err")
                if kind == "kbi":
                    raise KeyboardInterrupt()
                if kind in UNI_KINDS:
                    bad_str = ((lambda self: u"\xff".encode("ascii")) if kind == "uee"
                               else (lambda self: b"\xff".decode("ascii")))
                    parent = {"ude": AssertionError, "uee": AssertionError, "pude": m["StepNotImplementedError"],
                              "xude": Exception}[kind]
                    raise type("Bad" + kind, (parent,), {"__str__": bad_str})("message in the wrong codec")
            step_impl.__name__ = "step_" + kind
            return step_impl

        for kind in OUTCOMES + ("vol",) + STATE_KINDS + UNI_KINDS + REC_KINDS:
            reg.add_step_definition("step", "{sid:w} %s" % kind, make_step(kind))
            reg.add_step_definition("step", "{sid:w} %s {prof:w}" % kind, make_step(kind))

        def before_scenario(ctx, scenario):
            check_snapshot("before_scenario")
            note("before_scenario")
            if extra in root.handlers:
                root.removeHandler(extra)
            if lv.get("where") != "prerun":
                if lv["handler"] and user not in root.handlers:
                    root.addHandler(user)
                root.setLevel(lv.get("root", USER_LEVEL))
            st.update(override=None, has_user=user in root.handlers or any(h in root.handlers for h in sinks),
                      extra=False, touched=False)
            snap[0] = snapshot()
            call_user_hook("before_scenario", ctx, scenario)

        def before_all(ctx):
            ctx.config.setup_logging()

        def before_all_rh(ctx):
            for h in sinks[lv.get("npre", 0):]:
                root.addHandler(h)
            for h in named:             # after behave's run-level capture was set up, like a real before_all hook does
                logging.getLogger("c18").addHandler(h)

        def after_scenario(ctx, scenario):
            note("after_scenario")
            call_user_hook("after_scenario", ctx, scenario)

        def after_feature(ctx, feature):
            check_snapshot("after_feature")
            note("after_feature")
            call_user_hook("after_feature", ctx, feature)

        def before_step(ctx, step):
            sid, kind, _, hp = parse(step.name)
            emit(sid, "b", hp)
            call_user_hook("before_step", ctx, step)
            if kind == "hb":
                raise HookFault("before_step hook fault")

        def after_step(ctx, step):
            sid, kind, _, hp = parse(step.name)
            emit(sid, "a", hp)
            call_user_hook("after_step", ctx, step)
            if kind == "ha":
                raise HookFault("after_step hook fault")

        def plain_hook(name):
            def hook(ctx, *args):
                call_user_hook(name, ctx, *args)
            return hook

        runner = m["ModelRunner"](config, [feat], step_registry=reg)
        runner.hooks = {"before_scenario": before_scenario, "after_scenario": after_scenario,
                        "after_feature": after_feature, "before_step": before_step, "after_step": after_step}
        if lv.get("basic"):
            runner.hooks["before_all"] = before_all
        if lv.get("nball") or named:
            runner.hooks["before_all"] = before_all_rh
        if dc_hook in HOOK_KINDS and dc_hook not in runner.hooks:
            runner.hooks[dc_hook] = plain_hook(dc_hook)
        pbuf, qbuf = io.StringIO(), io.StringIO()
        runner.formatters = [IdentRecorder(note),
                             PlainFormatter(m["StreamOpener"](stream=pbuf), config),
                             PrettyFormatter(m["StreamOpener"](stream=qbuf), config)]
        try:
            obs["verdict"] = bool(runner.run())
        except BaseException as e:      # noqa
            obs["escaped"] = type(e).__name__
        note("after_run")
        hs_now = [h for h in root.handlers if not isinstance(h, LoggingCapture)]
        obs["after_run_handlers_same"] = (last_hs[0] is None or
                                          (len(hs_now) == len(last_hs[0]) and all(a is b for a, b in zip(hs_now, last_hs[0]))))
        obs["steps"] = [[(s.status.name, s.error_message) for s in sc.steps] for sc in feat.scenarios]
        obs["scen"] = [(sc.status.name, sc.captured.output if sc.captured else u"") for sc in feat.scenarios]
        obs["plain"], obs["pretty"] = pbuf.getvalue(), qbuf.getvalue()
        obs["leftover_lc"] = sum(1 for h in root.handlers if isinstance(h, LoggingCapture))
    finally:
        sys.stdout, sys.stderr = old_out, old_err
        root.handlers[:] = saved_handlers
        root.setLevel(saved_level)
        logging.raiseExceptions = saved_raise
        logging.getLogger("c18").handlers[:] = []
    obs["sinks"] = [list(h.msgs) for h in sinks]
    obs["named"] = [list(h.msgs) for h in named]
    obs["out"], obs["err"], obs["user"] = s_out.getvalue(), s_err.getvalue(), list(user.msgs)
    return obs


# --------------------------------------------------------------------------- oracle
def judge(scens, sw, lvname, obs, v):
    lv = logvar(lvname)
    produced = obs["produced"]
    dc_hook, dc_deco, dc_rec = lv.get("dc", ("none", "n", "ok"))
    # accept-set: how a record that cannot be formatted surfaces (hook error, step error, logging's own handleError output,
    # not at all) is not stated -> the position of the first failing step is then taken from the observation
    unformattable = dc_rec != "ok" or lv.get("fmt") == "nokey" or any(base(o) in REC_KINDS for seq in scens for o in seq)

    def route_of(mk):
        chan = MARK.match(mk).group(1)
        if chan != "HK":
            return route(chan, sw, lv, obs["env"].get(mk))
        if dc_hook not in STEP_HOOKS:
            return "any"        # scenario/feature/run/tag hooks run outside the capture windows of steps: not judged
        if dc_deco == "n":
            return route(chan, sw, lv, obs["env"].get(mk))
        # @capture prints what the hook logged to sys.stdout when the hook ends ("Captured Logging:"); if the hook also
        # logged an unformattable record that print may or may not happen
        r = "cap" if sw[0] else "out"
        return r + "?" if (dc_rec != "ok" or lv.get("fmt") == "nokey") else r
    rt = {mk: route_of(mk) for mk in produced}
    chan_of = lambda mk: CHAN_NAME[MARK.match(mk).group(1)]     # noqa
    sws = "".join("1" if x else "0" for x in sw)

    # (1)+(6) sentinel streams: exactly the pass-through markers, in production order
    for sname, key in (("stdout", "out"), ("stderr", "err")):
        got = markers(obs[key])
        want = [mk for mk in produced if rt[mk] == key]
        got = [mk for mk in got if rt.get(mk) not in ("any", "out?")]
        leaked = [mk for mk in got if rt.get(mk) not in (key,)]
        if leaked:
            sites = sorted(set(MARK.match(mk).group(4) + MARK.match(mk).group(5)[0] for mk in leaked))
            v.append(({"subcheck": "isolation", "clause": "captured-output-reaches-real-stream", "stream": sname,
                       "site": "+".join(sites)},
                      "switches %s: real %s received %s which should have been captured/kept away (routes %s)"
                      % (sws, sname, leaked[:6], sorted(set(rt.get(mk) for mk in leaked), key=str))))
        clean = [mk for mk in got if rt.get(mk) == key]
        if clean != want:
            v.append(({"subcheck": "passthrough", "clause": "uncaptured-output-lost-or-reordered", "stream": sname},
                      "switches %s: real %s received %s, produced in this order: %s" % (sws, sname, clean[:12], want[:12])))
    # user handler (capture off): records pass straight through
    if not sw[2] and lv["handler"]:
        want = [mk for mk in produced if rt[mk] == "user"]
        got = [mk for msg in obs["user"] for mk in markers(msg)]
        if "dc" in lv:
            got = [mk for mk in got if rt.get(mk) == "user"]     # a @capture-decorated hook's records reach kept handlers too
        if got != want:
            v.append(({"subcheck": "passthrough", "clause": "log-records-lost-with-logcapture-off"},
                      "switches %s: user handler received %s, produced %s" % (sws, got[:12], want[:12])))

    # the documented @capture decorator leaves the root logger as it found it: its own handler is gone, the level is back
    for name, n_left, lvl_before, lvl_after in obs.get("deco", ()):
        if n_left:
            v.append(({"subcheck": "logging", "clause": "capture-decorator-handler-left-on-root"},
                      "switches %s, %s: after the @capture-decorated %s hook %d LoggingCapture handler(s) it installed still sit on "
                      "the root logger" % (sws, lvname, name, n_left)))
        if lvl_before != lvl_after:
            v.append(({"subcheck": "logging", "clause": "root-level-changed-by-hook-call"},
                      "switches %s, %s: root level %s before the %s hook, %s after it" % (sws, lvname, lvl_before, name, lvl_after)))

    # pre-existing root handlers ("rh|" variants)
    for hi, msgs in enumerate(obs.get("sinks", ())):
        got = [mk for msg in msgs for mk in markers(msg)]
        if sw[2] and lv["clear"]:
            if got:
                v.append(({"subcheck": "isolation", "clause": "cleared-root-handler-receives-records-while-log-capture-on",
                           "root_handlers": "1" if len(obs["sinks"]) == 1 else ">=2"},
                          "switches %s, %s: --logging-clear-handlers with log capture on, yet pre-existing root handler h%d "
                          "(of %d) received %d records emitted inside scenarios: %s"
                          % (sws, lvname, hi, len(obs["sinks"]), len(got), got[:6])))
        elif not sw[2]:
            want = [mk for mk in produced if rt[mk] == "user"]
            if got != want:
                v.append(({"subcheck": "passthrough", "clause": "log-records-lost-with-logcapture-off"},
                          "switches %s, %s: root handler h%d received %s, produced %s" % (sws, lvname, hi, got[:12], want[:12])))
    # handlers on the named logger the steps log to: --logging-clear-handlers "clears all other logging handlers"
    for hi, msgs in enumerate(obs.get("named", ())):
        got = [mk for msg in msgs for mk in markers(msg)]
        if sw[2] and lv["clear"] and got:
            v.append(({"subcheck": "isolation", "clause": "cleared-named-logger-handler-receives-records-while-log-capture-on",
                       "logger_handlers": "1" if len(obs["named"]) == 1 else ">=2"},
                      "switches %s, %s: --logging-clear-handlers with log capture on, yet handler #%d of %d on logger 'c18' received "
                      "%d records emitted inside scenarios: %s" % (sws, lvname, hi, len(obs["named"]), len(got), got[:6])))
    if obs.get("after_run_handlers_same") is False:
        v.append(({"subcheck": "logging", "clause": "root-handlers-changed-between-last-scenario-and-end-of-run"},
                  "switches %s, %s: the root logger's non-behave handlers after run() differ from those after the last scenario"
                  % (sws, lvname)))

    # (2) failure report of the failing step
    executed = set(mkey(mk) for mk in produced)
    union_reports = set()
    optional = set()
    reported = set()
    failpos = {}
    for si, seq in enumerate(scens):
        fk = [ki for ki, o in enumerate(seq) if isfail(o)]
        if unformattable:
            fk += [ki for ki in range(len(seq)) if obs["steps"][si][ki][0] not in ("passed", "skipped", "untested")]
        fk = min(fk) if fk else None
        failpos[si] = fk
        for ki, o in enumerate(seq):
            status, emsg = obs["steps"][si][ki]
            got = set(markers(emsg))
            if ki == fk and (si, ki) in executed:
                upto = [mk for mk in produced if mkey(mk)[0] == si and mkey(mk)[1] <= ki]
                must = set(mk for mk in upto if rt[mk] == "cap")
                may = set(mk for mk in upto if rt[mk] == "cap?")
                union_reports |= must
                optional |= may
                reported |= got & (must | may)
                missing = must - got
                extra = got - must - may
                if missing:
                    where = sorted(set(("earlier-step" if mkey(mk)[1] < ki else "this-step") for mk in missing))
                    only_with = "-"
                    if all(MARK.match(mk).group(1) in LOGSPEC for mk in missing) and (lv["filter"] or lv["level"] != logging.INFO):
                        only_with = "+".join(a.split("=")[0] for a in lv["args"] if "level" in a or "filter" in a)
                    desc = {"subcheck": "report", "clause": "captured-output-missing-from-failure-report",
                            "channel": "+".join(sorted(set(chan_of(mk) for mk in missing))),
                            "from": "+".join(where), "logging_options": only_with}
                    cap = obs.get("capacity")
                    if cap is not None:
                        # volume dimension: name the threshold class instead of the position
                        nlog = sum(1 for mk in must if CHAN_NAME[MARK.match(mk).group(1)] == "logging")
                        nmax = max(nlog, sum(1 for mk in must if MARK.match(mk).group(1) in ("O", "VO")),
                                   sum(1 for mk in must if MARK.match(mk).group(1) in ("E", "VE")))
                        desc["from"] = "-"
                        desc["volume"] = ("captured-records>=handler-capacity" if nlog >= cap and desc["channel"] == "logging"
                                          else ("lines>=handler-capacity" if nmax >= cap else "below-capacity"))
                    ordered = [mk for mk in upto if mk in missing]
                    v.append((desc,
                              "switches %s, %s: failing step s%dk%d (%s, status %s): report lacks %d of %d captured markers "
                              "(first missing %s, last missing %s; capacity %s, volume N=%s)\nerror_message: %r ... %r"
                              % (sws, lvname, si, ki, o, status, len(missing), len(must), ordered[0], ordered[-1],
                                 cap, obs.get("vol_n"), (emsg or "")[:600], (emsg or "")[-300:])))
                if extra:
                    foreign = [mk for mk in extra if mkey(mk)[0] != si]
                    v.append(({"subcheck": "report", "clause": "foreign-scenario-output-in-report" if foreign
                               else "uncaptured-or-filtered-output-in-report",
                               "channel": "+".join(sorted(set(chan_of(mk) for mk in extra)))},
                              "switches %s, %s: failing step s%dk%d (%s): report contains %s which it must not"
                              % (sws, lvname, si, ki, o, sorted(extra)[:8])))
            elif got:
                v.append(({"subcheck": "report", "clause": "output-attached-to-non-failing-step", "outcome": o},
                          "switches %s: step s%dk%d (%s, status %s) carries markers %s" % (sws, si, ki, o, status, sorted(got)[:6])))
        # scenario.captured: kept per scenario
        foreign = [mk for mk in markers(obs["scen"][si][1]) if mkey(mk)[0] != si]
        if foreign:
            v.append(({"subcheck": "report", "clause": "scenario-captured-holds-foreign-output"},
                      "switches %s: scenario S%d.captured contains %s" % (sws, si, foreign[:6])))

    # (3) formatter outputs
    passing = set(si for si, seq in enumerate(scens) if failpos.get(si) is None)
    for fname in ("plain", "pretty"):
        got = set(markers(obs[fname]))
        shown_pass = [mk for mk in got if mkey(mk)[0] in passing]
        if shown_pass:
            v.append(({"subcheck": "formatter", "clause": "passing-scenario-output-shown", "formatter": fname,
                       "channel": "+".join(sorted(set(chan_of(mk) for mk in shown_pass)))},
                      "switches %s: %s formatter shows %s of a passing scenario" % (sws, fname, sorted(shown_pass)[:6])))
        other = got - union_reports - optional - set(shown_pass)
        if other:
            v.append(({"subcheck": "formatter", "clause": "output-outside-failure-report-shown", "formatter": fname},
                      "switches %s: %s formatter shows %s which belong to no failure report" % (sws, fname, sorted(other)[:6])))
        lacking = reported - got
        if lacking:
            v.append(({"subcheck": "formatter", "clause": "failure-report-not-shown", "formatter": fname},
                      "switches %s: %s formatter lacks %s of the failure report" % (sws, fname, sorted(lacking)[:6])))

    # (4) identity of the process streams
    bad = [(w, a, b) for (w, a, b) in obs["ident"] if not (a and b)]
    if bad:
        w, a, b = bad[0]
        after = "-"
        for seq in scens:
            for o in seq:
                if isfail(o):
                    after = base(o)
                    break
            if after != "-":
                break
        v.append(({"subcheck": "restore", "clause": "real-stream-not-restored", "at": w, "first_failing": after},
                  "switches %s: at %s sys.stdout is sentinel=%s, sys.stderr is sentinel=%s (all: %s)"
                  % (sws, w, a, b, bad[:6])))
    if obs["escaped"]:
        v.append(({"subcheck": "run", "clause": "exception-escapes-run", "exc": obs["escaped"]},
                  "switches %s: run() raised %s" % (sws, obs["escaped"])))
    # the run continues with the next scenario after a failing one (only a KeyboardInterrupt aborts it)
    interrupted = False
    for si, seq in enumerate(scens):
        sts = [st_ for st_, _ in obs.get("steps", [[]] * len(scens))[si]] if obs.get("steps") else []
        if si > 0 and not interrupted and sts and sts[0] == "untested" and not (unformattable and dc_hook not in STEP_HOOKS + ("none",)):
            prev = [base(o) for o in scens[si - 1] if isfail(o)]
            v.append(({"subcheck": "run", "clause": "run-does-not-continue-after-failing-scenario",
                       "first_failing": prev[0] if prev else "-"},
                      "switches %s: scenario S%d was never started (steps %s) although nothing interrupted the run" % (sws, si, sts)))
            break
        fk = [ki for ki, o in enumerate(seq) if isfail(o)]
        if fk and base(seq[fk[0]]) == "kbi":
            interrupted = True

    # (5) root logger restored at scenario end
    for where, same_h, hs, want_h, lvl, want_l, step_level, n_lc, how in obs["snap"]:
        if n_lc:
            v.append(({"subcheck": "logging", "clause": "capture-handler-left-on-root-after-scenario"},
                      "switches %s, %s: at %s (after a scenario ended) %d LoggingCapture handler(s) of behave still sit on "
                      "the root logger" % (sws, lvname, where, n_lc)))
        if lvl == step_level and step_level is not None:
            lvl = want_l            # left as the scenario's own step set it: accepted (see ASSUMPTIONS)
        if not same_h:
            v.append(({"subcheck": "logging", "clause": "root-handlers-not-restored", "clear_handlers": str(lv["clear"]),
                       "how": how},
                      "switches %s, %s: at %s root handlers (non-behave) are %s, before the scenario %s"
                      % (sws, lvname, where, hs, want_h)))
        if lvl != want_l:
            v.append(({"subcheck": "logging", "clause": "root-level-not-restored",
                       "saved_level": "NOTSET(0)" if want_l == 0 else "non-zero"},
                      "switches %s, %s: at %s root level is %s, before the scenario %s" % (sws, lvname, where, lvl, want_l)))
    if obs.get("leftover_lc"):
        v.append(({"subcheck": "logging", "clause": "capture-handler-left-on-root-after-run"},
                  "switches %s: %d LoggingCapture handler(s) still on the root logger after the run" % (sws, obs["leftover_lc"])))
    return rt


def run_case(case):
    scens, sw, lvname = case
    obs = drive(scens, sw, lvname)
    v = []
    rt = judge(scens, sw, lvname, obs, v)
    lvd = logvar(lvname)
    if "dc" in lvd:
        # name the library-use trigger in every descriptor of these cases
        hook, deco, rec = lvd["dc"]
        unf = rec != "ok" or lvd["fmt"] == "nokey" or any(base(o) in REC_KINDS for q in scens for o in q)
        if unf and obs["escaped"] in ("TypeError", "RuntimeError", "ValueError"):
            # the formatting error of a buffered record escaped run(): missing reports, the handler left behind and the lost rest
            # of the run are its consequences -> one violation (plus whatever concerns the decorator itself)
            keep = [(d, msg) for d, msg in v if d.get("clause") in ("capture-decorator-handler-left-on-root",
                                                                      "root-level-changed-by-hook-call")]
            v[:] = [({"subcheck": "run", "clause": "exception-escapes-run", "exc": "log-record-formatting-error",
                      "capture_decorator": "-"},
                     "switches %s, %s: run() raised %s: a log record that cannot be formatted sat in a capture buffer when a "
                     "failure report was built" % ("".join("1" if x else "0" for x in sw), lvname, obs["escaped"]))] + keep
        for d, _ in v:
            d.setdefault("capture_decorator", "-" if deco == "n" else ("step-hook" if hook in STEP_HOOKS else "other-hook"))
            d["unformattable"] = "record-logged" if unf else "-"
    executed = set(mkey(mk) for mk in obs["produced"])
    failing_executed = any((si, ki) in executed for si, seq in enumerate(scens) for ki, o in enumerate(seq)
                           if isfail(o))
    nt = digest(case) if (any(sw) and failing_executed) else None
    stat = tuple(sorted(set(s for sc in obs["steps"] for s, _ in sc)))
    # vacuity bookkeeping: executed scenarios whose capture buffer of a captured channel stayed empty
    classes = set(rt.values())
    for si, (sstat, _) in enumerate(obs["scen"]):
        if sstat in ("passed", "failed", "error"):
            mine = [mk for mk in obs["produced"] if mkey(mk)[0] == si and rt[mk] in ("cap", "cap?")]
            for ci, cname in enumerate(("stdout", "stderr", "logging")):
                if sw[ci] and not any(CHAN_NAME[MARK.match(mk).group(1)] == cname for mk in mine):
                    classes.add("empty-%s-buffer@%s" % (cname, "first" if si == 0 else ("last" if si == len(scens) - 1 else "middle")))
    dg = (obs["verdict"], obs["escaped"], obs["produced"], obs["ident"],
          [(w, a, hs, l1, l2, n, how) for (w, a, hs, _, l1, l2, _, n, how) in obs["snap"]], obs.get("sinks"), obs.get("named"),
          [[(s, sorted(set(markers(e)))) for s, e in sc] for sc in obs["steps"]],
          markers(obs["out"]), markers(obs["err"]), obs["user"], sorted(set(markers(obs["plain"]))),
          sorted(set(markers(obs["pretty"]))))
    return {"v": v, "nt": nt, "out": (sw, lvname, stat, tuple(sorted(classes))), "dg": dg}


def volume_case(case):
    """volume dimension: a passing 'vol' step emits N stdout lines, N stderr lines and N log records (N bracketing the
    capacity of the real LoggingCapture handler), then a step fails; a second scenario fails too."""
    scens, sw, lvname, vol = case
    obs = drive(scens, sw, lvname, vol=vol)
    v = []
    rt = judge(scens, sw, lvname, obs, v)
    cap, n = obs.get("capacity"), obs.get("vol_n")
    if cap is None or n is None or n < 1:
        v.append(({"subcheck": "volume", "clause": "volume-step-not-executed"}, "capacity %r, N %r" % (cap, n)))
    # explicit first / last / count on the failing step's report (the judge above compares the complete sets)
    for si, seq in enumerate(scens):
        if "vol" not in seq or cap is None or not n or n < 1:
            continue
        fk = [ki for ki, o in enumerate(seq) if isfail(o)][0]
        vk = seq.index("vol")
        emsg = obs["steps"][si][fk][1] or u""
        for chan in ("VO", "VE", "VL"):
            first, last = "<%s:s%dk%dv%05d>" % (chan, si, vk, 0), "<%s:s%dk%dv%05d>" % (chan, si, vk, n - 1)
            if rt.get(first) != "cap":
                continue
            cnt = len(re.findall(r"<%s:s%dk%dv\d+>" % (chan, si, vk), emsg))
            if first not in emsg or last not in emsg or cnt != n:
                total = sum(1 for mk in obs["produced"] if mkey(mk)[0] == si and mkey(mk)[1] <= fk and rt[mk] == "cap"
                            and CHAN_NAME[MARK.match(mk).group(1)] == CHAN_NAME[chan])
                v.append(({"subcheck": "volume", "clause": "report-truncated", "channel": CHAN_NAME[chan],
                           "volume": "captured-records>=handler-capacity" if total >= cap else "below-capacity"},
                          "switches %s, %s: %d %s markers emitted (capacity %d), report holds %d, first present=%s, "
                          "last present=%s" % ("".join("1" if x else "0" for x in sw), lvname, n, CHAN_NAME[chan], cap,
                                               cnt, first in emsg, last in emsg)))
    rep_marks = [[(st, digest(sorted(set(markers(e))))) for st, e in sc] for sc in obs["steps"]]
    dg = (obs["verdict"], obs["escaped"], len(obs["produced"]), digest(obs["produced"]), obs["ident"], cap, n,
          rep_marks, digest(markers(obs["out"])), digest(markers(obs["err"])), len(obs["user"]))
    stat = tuple(sorted(set(st for sc in obs["steps"] for st, _ in sc)))
    return {"v": v, "nt": digest(case) if any(sw) else None,
            "out": ("vol", sw, lvname, vol, cap, tuple(sorted(set(rt.values())))), "dg": dg}


def volume_cases(tier):
    progs = [(("vol", "fail"), ("fail",))]
    if tier != "quick":
        progs += [(("pass", "vol", "error"), ("pass", "fail")), (("fail",), ("vol", "ha"))]
    lvs = ("handler", "nohandler") if tier == "quick" else ("handler", "nohandler", "setup_logging", "level", "clear")
    for lvname in lvs:
        for prog in progs:
            for mult, off in VOLUMES:
                for total in (0, 1):
                    # total=1: N is chosen so that ALL buffered records of the scenario (volume + regular markers)
                    # number mult*capacity+off when the failing step is reported
                    if total and len(prog[0]) != 2:
                        continue
                    for sw in SWITCHES:
                        if total and not sw[2]:
                            continue
                        yield (prog, sw, lvname, (mult, off, total))


# --------------------------------------------------------------------------- child processes (thorough)
CHILD_STEPS = r'''
import sys, logging
from behave import step
CHANS = ("O", "E", "LW", "LE", "LO", "LS")
LOGSPEC = {"LW": ("c18", 30), "LE": ("c18", 40), "LO": ("other", 40), "LS": ("c18.sub", 40)}
def emit_all(sid, site):
    for chan in CHANS:
        mk = "<%s:%s%s>" % (chan, sid, site)
        if chan == "O":
            print(mk)
        elif chan == "E":
            sys.stderr.write(mk + "\n")
        else:
            name, level = LOGSPEC[chan]
            logging.getLogger(name).log(level, mk)
    with open("produced.log", "a") as f:
        f.write("".join("<%s:%s%s>\n" % (c, sid, site) for c in CHANS))
def make_step(kind):
    def step_impl(ctx, sid):
        emit_all(sid, "s")
        if kind in ("exec", "xfail"):
            ctx.execute_steps(u"Given %sx %s" % (sid, "pass" if kind == "exec" else "fail"))
            emit_all(sid, "t")
        if kind == "fail":
            assert False, "boom"
        if kind == "error":
            raise RuntimeError("err")
        if kind == "kbi":
            raise KeyboardInterrupt()
    return step_impl
for kind in ("pass", "exec", "fail", "error", "kbi", "hb", "ha", "xfail"):
    step(u"{sid:w} %s" % kind)(make_step(kind))
'''
CHILD_ENV = r'''
import sys
sys.path.insert(0, "steps")
from c18_steps import emit_all
class HookFault(Exception):
    pass
def before_step(ctx, step):
    sid, kind = step.name.split()
    emit_all(sid, "b")
    if kind == "hb":
        raise HookFault("before_step hook fault")
def after_step(ctx, step):
    sid, kind = step.name.split()
    emit_all(sid, "a")
    if kind == "ha":
        raise HookFault("after_step hook fault")
'''


def child_case(case):
    scens, sw = case
    lv = LOGVARS["nohandler"]
    v = []
    d = tempfile.mkdtemp(prefix="c18-child-", dir="/dev/shm")
    try:
        os.makedirs(os.path.join(d, "features", "steps"))
        with open(os.path.join(d, "features", "c18.feature"), "w") as f:
            f.write(render(scens))
        with open(os.path.join(d, "features", "steps", "c18_steps.py"), "w") as f:
            f.write(CHILD_STEPS)
        with open(os.path.join(d, "features", "environment.py"), "w") as f:
            f.write(CHILD_ENV.replace('"steps"', repr(os.path.join(d, "features", "steps"))))
        env = {k: val for k, val in os.environ.items() if not k.startswith("BEHAVE") and k != "GHERKIN_COLORS"}
        env["PYTHONPATH"] = repo_dir()
        env["HOME"] = d
        env["PYTHONDONTWRITEBYTECODE"] = "1"
        args = [a for a in config_args(sw, lv) if a != "--no-summary"]
        p = subprocess.run(["/venv/bin/python", "-m", "behave", "-f", "plain", "--no-color"] + args,
                           cwd=d, env=env, stdout=subprocess.PIPE, stderr=subprocess.PIPE, stdin=subprocess.DEVNULL,
                           timeout=120)
        out, err = p.stdout.decode("utf-8", "replace"), p.stderr.decode("utf-8", "replace")
        try:
            with open(os.path.join(d, "produced.log")) as f:
                produced = [l.strip() for l in f if l.strip()]
        except IOError:
            produced = []
    finally:
        shutil.rmtree(d, ignore_errors=True)
    sws = "".join("1" if x else "0" for x in sw)
    rt = {mk: route(MARK.match(mk).group(1), sw, lv) for mk in produced}
    if not sw[2]:
        # Runner's default before_all hook calls config.setup_logging() = logging.basicConfig(): a StreamHandler bound to
        # the process's original stderr.  "--no-logcapture: logging configuration will be left intact" -> records pass
        # straight through to the real stderr; if stderr is captured, ending up in that buffer would be acceptable too.
        for mk in produced:
            if MARK.match(mk).group(1) in LOGSPEC:
                rt[mk] = "err|cap" if sw[1] else "err"
    opt = set(mk for mk in produced if rt[mk] == "err|cap")
    if not produced or "Traceback" in err and "behave" in err and not markers(out):
        v.append(({"subcheck": "child", "clause": "child-run-broken"}, "rc=%s stdout=%r stderr=%r" % (p.returncode, out[-600:], err[-600:])))
        return {"v": v, "dg": None, "out": ("child", sw, "broken")}
    must_report = set()
    for si, seq in enumerate(scens):
        fk = [ki for ki, o in enumerate(seq) if isfail(o)]
        if fk and any(mkey(mk) == (si, fk[0]) for mk in produced):
            must_report |= set(mk for mk in produced if mkey(mk)[0] == si and mkey(mk)[1] <= fk[0] and rt[mk] == "cap")
    got_out, got_err = markers(out), markers(err)
    scope = set()
    for si, seq in enumerate(scens):
        fk = [ki for ki, o in enumerate(seq) if isfail(o)]
        if fk:
            scope |= set(mk for mk in opt if mkey(mk)[0] == si and mkey(mk)[1] <= fk[0])
    lost = scope - set(got_err) - set(got_out)
    if lost:
        v.append(({"subcheck": "child", "clause": "log-records-lost-with-logcapture-off"},
                  "child, switches %s: %s neither on the stderr pipe nor in a failure report" % (sws, sorted(lost)[:8])))
    got_err = [mk for mk in got_err if mk not in opt]
    got_out = [mk for mk in got_out if mk not in opt]
    want_err = [mk for mk in produced if rt[mk] == "err"]
    if got_err != want_err:
        leaked = [mk for mk in got_err if rt.get(mk) != "err"]
        v.append(({"subcheck": "child", "clause": "captured-output-reaches-real-stream" if leaked else
                   "uncaptured-output-lost-or-reordered", "stream": "stderr"},
                  "child, switches %s: stderr pipe carries %s, expected %s" % (sws, got_err[:12], want_err[:12])))
    want_direct = [mk for mk in produced if rt[mk] == "out"]
    direct = [mk for mk in got_out if rt.get(mk) == "out"]
    if direct != want_direct:
        v.append(({"subcheck": "child", "clause": "uncaptured-output-lost-or-reordered", "stream": "stdout"},
                  "child, switches %s: stdout pipe carries %s, expected %s" % (sws, direct[:12], want_direct[:12])))
    rest = set(mk for mk in got_out if rt.get(mk) != "out")
    if rest != must_report:
        leaked = rest - must_report
        v.append(({"subcheck": "child", "clause": "captured-output-reaches-real-stream" if leaked else
                   "failure-report-incomplete", "stream": "stdout"},
                  "child, switches %s: stdout pipe shows captured markers %s, the failure reports should hold %s"
                  % (sws, sorted(rest)[:12], sorted(must_report)[:12])))
    return {"v": v, "nt": digest(case), "out": ("child", sw, p.returncode),
            "dg": (p.returncode, got_out, got_err, produced)}


CHILD_CASES = [((("pass", "exec"), ("pass", "fail")), sw) for sw in SWITCHES] + \
              [((("kbi",), ("pass",)), (True, True, True)), ((("hb",), ("fail",)), (True, True, True)),
               ((("pass", "ha"), ("error",)), (True, True, True)), ((("xfail",), ("exec", "error")), (True, False, True))]


# --------------------------------------------------------------------------- enumeration
def seqs(maxlen):
    for n in range(1, maxlen + 1):
        for s in itertools.product(OUTCOMES, repeat=n):
            yield s


def canonical(maxlen):
    """sequences whose steps after the first failing one (never executed) are all 'pass'"""
    for s in seqs(maxlen):
        fk = [i for i, o in enumerate(s) if isfail(o)]
        if not fk or all(o == "pass" for o in s[fk[0] + 1:]):
            yield s


def programs(tier):
    if tier == "quick":
        one = list(seqs(1))
        two = list(seqs(2))
        for s1 in two:
            yield (s1,)
        for s1 in one:
            yield (s1,)
        for s1 in one + two:
            for s2 in one:
                yield (s1, s2)
        for s1 in one:
            for s2 in two:
                yield (s1, s2)
    else:
        for s1 in seqs(3):
            yield (s1,)
        can = list(canonical(3))
        for s1 in can:
            for s2 in can:
                yield (s1, s2)


def cases(tier):
    lvs = ("handler", "combo") if tier == "quick" else ("handler", "nohandler", "setup_logging", "level", "filter+", "filter-", "clear", "combo")
    for lvname in lvs:
        for prog in programs(tier):
            for sw in SWITCHES:
                yield (prog, sw, lvname)


def small_cases():
    """quick only: the remaining logging variants on a reduced program set"""
    progs = [(s,) for s in seqs(1)] + [(("pass",), ("fail",)), (("fail",), ("error",)), (("exec", "ha"), ("pass", "hb")),
                                       (("kbi",), ("pass",)), (("xfail",), ("fail",))]
    for lvname in ("nohandler", "setup_logging", "level", "filter+", "filter-", "clear"):
        for prog in progs:
            for sw in SWITCHES:
                yield (prog, sw, lvname)


def rootstate_cases(tier):
    """initial root logger state x config logging level x handlers (falsy values included), all 8 switches"""
    progs = [(("pass",), ("fail",)), (("fail",), ("pass",)), (("kbi",), ("pass",)), (("exec", "ha"), ("hb",))]
    if tier != "quick":
        one = list(seqs(1))
        progs = [(a, b) for a in one for b in one] + [(a,) for a in seqs(2)]
    names = []
    for where in ("hook", "prerun"):
        for rl in ROOT_LEVELS:
            for cl in ("unset", "NOTSET", "DEBUG", "WARNING"):
                for h in "01":
                    names.append("rs|%s|%d|%s|%s|0|-" % (where, rl, cl, h))
    for where in ("hook", "prerun"):
        for rl in (logging.NOTSET, logging.WARNING):
            for h in "01":          # h=0 + clear: the list of removed handlers is empty
                names.append("rs|%s|%d|unset|%s|1|-" % (where, rl, h))
                names.append("rs|%s|%d|unset|%s|0|empty" % (where, rl, h))
                names.append("rs|%s|%d|NOTSET|%s|1|empty" % (where, rl, h))
    for lvname in names:
        for prog in progs:
            for sw in SWITCHES:
                yield (prog, sw, lvname)


def unicode_cases(tier):
    """a step fails with an exception whose __str__ raises UnicodeDecodeError / UnicodeEncodeError (AssertionError-, pending- and
    Exception-derived) x emission profiles (output before the raise) x 8 switches; first, middle, last scenario of 3"""
    quick = tier == "quick"
    profs = ("aa", "qq", "oq", "eq", "lq", "qa", "aq", "dd") if quick else \
        tuple(sorted(set(a + b for a in "aqoeldf" for b in "aq") | {"dd", "ff"}))
    lvs = ("handler", "nohandler", "combo") if quick else ("handler", "nohandler", "setup_logging", "level", "filter-", "clear", "combo",
                                                          "rs|hook|0|WARNING|1|0|-", "rh|1|2|1")
    for lvname in lvs:
        for kind in UNI_KINDS:
            for pp in profs:
                sfx = "" if pp == "aa" else " " + pp
                k = kind + sfx
                progs = [((k,), ("fail",), ("pass",)), (("pass",), ("pass" + sfx, k), ("fail",)), (("fail",), ("pass",), (k,))]
                if not quick:
                    progs += [((k,), (k,), (k,)), (("exec" + sfx, k), ("pass",)), (("setlvl" + sfx, k), ("fail",))]
                for prog in progs:
                    for sw in SWITCHES:
                        yield (prog, sw, lvname)


def decorator_cases(tier):
    """library use: behave.log_capture.capture on every hook kind x {undecorated, @capture, @capture(level=DEBUG), @capture(level=ERROR)}
    x record logged by that hook {well-formed, args that do not fit the format, an arg whose __str__ raises} x 8 switches; steps that
    log such records; custom / broken --logging-format"""
    quick = tier == "quick"
    progs = [(("pass", "fail"), ("fail",), ("pass",)),
             (("badargs", "fail"), ("pass",), ("fail",)),
             (("pass",), ("badstr",), ("fail",))]
    if not quick:
        progs += [(("exec", "badargs", "error"), ("pass", "fail")), (("badstr qq", "fail qq"), ("pass qq",), ("fail",)),
                  (("hb",), ("badargs", "ha"), ("pass",)), (("fail",), ("pass",), ("badargs", "ude"))]
    names = ["dc|none|n|ok|-"]
    for hook in HOOK_KINDS:
        # quick: the level=... forms of the decorator only on the step and scenario hooks
        for deco in ("ncde" if not quick or hook in STEP_HOOKS + ("before_scenario", "after_scenario") else "nc"):
            for rec in ("ok", "args", "str"):
                names.append("dc|%s|%s|%s|-" % (hook, deco, rec))
    for hook in (("before_step", "after_scenario", "none") if quick else HOOK_KINDS + ("none",)):
        for deco in ("n", "c"):
            for rec in ("ok", "args"):
                for fmt in ("custom", "nokey"):
                    if hook == "none" and (deco != "n" or rec != "ok"):
                        continue
                    names.append("dc|%s|%s|%s|%s" % (hook, deco, rec, fmt))
    for lvname in names:
        _, hook, deco, _, _ = lvname.split("|")
        for prog in progs:
            for sw in SWITCHES:
                if sw[2] and deco != "n" and hook in STEP_HOOKS:
                    continue        # see ASSUMPTIONS: a decorated step hook replaces behave's own scenario log capture by design
                yield (prog, sw, lvname)


def emission_cases(tier):
    """what each step / its hooks emit (incl. nothing at all, only below the capture level, only a filtered-out logger)
    and steps that change the root logger inside the scenario; the special scenario is first, middle, last or all of a
    3-scenario run, so that scenarios with an EMPTY capture buffer (per channel) are followed / preceded by others"""
    quick = tier == "quick"
    if quick:
        profs = ("qq", "oq", "eq", "lq", "dd", "ff", "qa", "aq")
        lvs = ("handler", "level", "filter-", "combo")
    else:
        profs = tuple(a + b for a in "aqoeldf" for b in "aq") + ("qd", "qf", "dd", "ff", "dq"[::-1])
        profs = tuple(sorted(set(profs) - {"aa"}))
        lvs = ("handler", "nohandler", "setup_logging", "level", "filter+", "filter-", "clear", "combo",
               "rs|hook|0|unset|1|0|-", "rs|hook|0|WARNING|0|0|empty")
    loud_f, loud_p = ("fail",), ("pass",)
    for lvname in lvs:
        for pp in profs:
            specials = [("pass " + pp,), ("fail " + pp,), ("setlvl " + pp, "pass " + pp), ("setlvl " + pp, "fail " + pp),
                        ("addh " + pp,), ("rmh " + pp,)]
            if not quick:
                specials += [("exec " + pp,), ("xfail " + pp,), ("hb " + pp,), ("ha " + pp,), ("kbi " + pp,),
                             ("pass " + pp, "error " + pp), ("addh " + pp, "rmh " + pp, "fail " + pp)]
            for x in specials:
                for prog in ((x, loud_f, loud_p), (loud_p, x, loud_f), (loud_f, loud_p, x), (x, x, x)):
                    for sw in SWITCHES:
                        yield (prog, sw, lvname)


def roothandler_cases(tier):
    """0..3 pre-existing root handlers (added before the run and/or in before_all) x --logging-clear-handlers on/off x 8
    switches on small programs with 3-4 scenarios"""
    progs = [(("pass",), ("pass",), ("fail",)), (("fail",), ("pass",), ("pass",), ("error",)), (("pass",), ("addh",), ("fail",))]
    if tier != "quick":
        progs += [(("exec", "ha"), ("hb",), ("pass", "fail"), ("pass",)), (("kbi",), ("pass",), ("pass",)),
                  (("pass qq",), ("pass",), ("fail qq",)), (("setlvl",), ("pass",), ("xfail",))]
    for npre in range(4):
        for nball in range(4 - npre):
            for clear in "01":
                for prog in progs:
                    for sw in SWITCHES:
                        yield (prog, sw, "rh|%d|%d|%s" % (npre, nball, clear))


def namedlogger_cases(tier):
    progs = [(("pass",), ("pass",), ("fail",)), (("fail",), ("exec",), ("error",))]
    for n in range(4):
        for clear in "01":
            for prog in progs:
                for sw in SWITCHES:
                    yield (prog, sw, "nl|%d|%s" % (n, clear))


def run(ctx):
    if ctx.quick:
        ctx.bounds = {"scenarios": "1-2", "steps_per_scenario": "all outcome sequences of length <= 2 (second scenario <= 1 when the first has 2, and vice versa)",
                      "outcomes": len(OUTCOMES), "switch_combinations": 8, "logging_variants": "2 on everything + 6 on 13 small programs"}
    else:
        ctx.bounds = {"scenarios": "1-2", "steps_per_scenario": "single scenario: all outcome sequences of length <= 3; two scenarios: all pairs of "
                      "sequences of length <= 3 whose never-executed tail after the first failing step is 'pass'",
                      "outcomes": len(OUTCOMES), "switch_combinations": 8, "logging_variants": 8, "child_processes": len(CHILD_CASES)}
    ctx.bounds["root_logger_state"] = {"root_level": list(ROOT_LEVELS), "config_logging_level": sorted(CONFIG_LEVELS),
                                       "handlers": ["none", "one user handler"], "set": ["before_scenario hook", "before the run"],
                                       "falsy": ["level 0", "no handler with --logging-clear-handlers", "--logging-filter= (empty)"]}
    ctx.bounds["emission_profiles"] = {"step x hooks": "8 pairs (quick) / 17 pairs (thorough) out of {all, nothing, stdout only, stderr only, "
                                       "one log record, only a DEBUG record, only a filtered-out logger}",
                                       "root_logger_changing_steps": list(STATE_KINDS), "scenarios": 3,
                                       "position_of_special_scenario": ["first", "middle", "last", "all"]}
    ctx.bounds["pre_existing_root_handlers"] = {"count": [0, 1, 2, 3], "added": ["before the run", "in before_all", "both"],
                                                "clear_handlers": [False, True], "scenarios": "3-4"}
    ctx.bounds["exception_str_raises_unicode_error"] = list(UNI_KINDS)
    ctx.bounds["capture_decorator"] = {"hooks": list(HOOK_KINDS), "decoration": ["none", "@capture", "@capture(level=DEBUG)", "@capture(level=ERROR)"],
                                       "hook_record": ["well-formed", "args do not fit the format", "arg whose __str__ raises"],
                                       "step_record_kinds": list(REC_KINDS), "logging_format": sorted(FORMATS)}
    ctx.bounds["volume_N"] = ["%d*capacity%+d" % mo for mo in VOLUMES]
    ctx.sweep(run_case, cases(ctx.tier), chunk=48, name="outcome sequences x 8 capture switches x logging variants")
    ctx.sweep(volume_case, volume_cases(ctx.tier), chunk=2, name="volume: N lines/records around the log handler capacity")
    ctx.sweep(run_case, unicode_cases(ctx.tier), chunk=48,
              name="failing step whose exception's __str__ raises a UnicodeError x emission profiles x 8 switches")
    ctx.sweep(run_case, decorator_cases(ctx.tier), chunk=48,
              name="@capture decorator on every hook kind x unformattable records from hooks and steps x logging formats")
    ctx.sweep(run_case, emission_cases(ctx.tier), chunk=48,
              name="emission profiles (silent / below level / filtered-out) and steps changing the root logger, 3 scenarios")
    ctx.sweep(run_case, roothandler_cases(ctx.tier), chunk=16,
              name="0-3 pre-existing root handlers (before the run / in before_all) x clear-handlers x 8 switches, 3-4 scenarios")
    ctx.sweep(run_case, namedlogger_cases(ctx.tier), chunk=16,
              name="0-3 handlers on the named logger the steps log to x clear-handlers x 8 switches")
    ctx.sweep(run_case, rootstate_cases(ctx.tier), chunk=48,
              name="initial root logger level {NOTSET,DEBUG,WARNING,CRITICAL} x config level x handlers {none,user}")
    if ctx.quick:
        ctx.sweep(run_case, small_cases(), chunk=16, name="remaining logging variants on small programs")
    else:
        ctx.sweep(child_case, CHILD_CASES, chunk=1, name="child processes: markers on the real pipes", replay=False)
    routes = set()
    stats = set()
    caps = set()
    vols = set()
    for k in ctx.outcomes:
        if k and k[0] == "vol":
            caps.add(k[4])
            vols.add(k[3])
            if k[1][2] and k[2] in ("handler", "nohandler"):
                routes.add("vol-logcap")
    ctx.note("log_handler_capacity_observed", sorted(c for c in caps if c is not None))
    ctx.guard(len(caps) == 1 and None not in caps and min(caps) > 1, "capacity read from the real LoggingCapture handler object")
    for mult, off in VOLUMES:
        for total in (0, 1):
            ctx.guard((mult, off, total) in vols, "volume N = %d*capacity%+d (%s) exercised" % (mult, off, "all buffered records" if total else "volume records"))
    ctx.guard("vol-logcap" in routes, "volume cases with log capture on")
    rs_seen = set()
    for k in ctx.outcomes:
        if len(k) == 4:
            routes.update(k[3])
            stats.update(k[2])
            if isinstance(k[1], str) and k[1].startswith("rs|") and k[0][2]:
                f = k[1].split("|")
                rs_seen.add((f[1], int(f[2]), f[3], f[4]))
    for where in ("hook", "prerun"):
        for rl in ROOT_LEVELS:
            for cl in ("unset", "NOTSET", "DEBUG", "WARNING"):
                ctx.guard((where, rl, cl, "0") in rs_seen and (where, rl, cl, "1") in rs_seen,
                          "log capture on with root level %d set %s, config level %s, with and without a user handler" % (rl, where, cl))
    for cname in ("stdout", "stderr", "logging"):
        for pos in ("first", "middle", "last"):
            ctx.guard("empty-%s-buffer@%s" % (cname, pos) in routes,
                      "an executed %s scenario whose %s capture buffer stayed empty" % (pos, cname))
    for r in ("cap", "out", "err", "user", "drop", "cap?"):
        ctx.guard(r in routes, "marker route %r exercised" % r)
    for s in ("passed", "failed", "error", "hook_error", "skipped", "untested"):
        ctx.guard(s in stats, "step status %s observed" % s)
    ctx.guard(len(ctx.nt) > 1000, "more than 1000 distinct non-trivial runs")
