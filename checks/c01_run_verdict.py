# -*- coding: utf-8 -*-
"""C01 - run verdict: no false green, no false red (E1 programs x outcomes x configs, E3 single hook/cleanup fault)."""
import os, sys, io, shutil, tempfile, subprocess
from vlib import prog as P, runcases, refrun, harness
from vlib.core import digest

PROPERTY = "C01"
LEVEL = "exploration"
RULE = ("Abstract feature trees (1-2 (quick) / 1-3 (thorough) items per container over scenarios, outlines with 1-2 rows / "
        "two examples blocks, rules with own background; feature background on/off) followed by a second feature; "
        "deviation bounding: every single step position x every non-pass outcome {fail,error,pending,undefined,skip,"
        "kbi,abort}, pairs of deviations on the smallest shapes; x configurations {default,--stop,--dry-run} and, with one "
        "tag (@t/@wip) placed on every element in turn, {--wip,--tags t,--tags 'not t',--stop --tags t}; plus all-pass "
        "programs with EVERY hook invocation raising (Exception / AssertionError) and a raising or non-raising cleanup "
        "registered at every layer. Each run goes through the real parser and ModelRunner; the verdict is compared with "
        "the reference interpreter (vlib/refrun.py). Non-trivial = distinct (program, config, fault) whose reference "
        "verdict is decided by exactly one mechanism, or passes although something is skipped/de-selected/pending-under-wip. "
        "A subset is re-run through behave.__main__.main() on real files and through `python -m behave` (exit code).")
ASSUMPTIONS = ["a ModelRunner object whose run was aborted is not reused (it stays aborted); reuse after every other kind of run is covered",
               "KeyboardInterrupt raised inside a hook (the run is aborted from a hook) is injected at every hook invocation of small programs and at the exit-code level: the run must not report success; the statuses of the interrupted elements are not compared",
               "a run that cannot be set up (a step module or environment.py raises on import, a feature file does not parse) counts as 'something else raises': it must not report success; which non-zero code it uses is not compared",
               "exit-code mapping is checked on a subset (one program per outcome class), not on every run"]


def classify(case, ref):
    prog, cfg, faults, cleanups, hooks = case
    reasons = []
    if ref.any_failed and not (ref.hook_failures or ref.cleanup_error_elems):
        reasons.append("step")
    if ref.aborted:
        reasons.append("abort")
    if ref.hook_failures:
        reasons.append("hook")
    if ref.cleanups_failed:
        reasons.append("root-cleanup")
    if ref.cleanup_error_elems:
        reasons.append("scope-cleanup")
    if ref.undefined_seen and not ref.any_failed:
        reasons.append("undefined-only")
    if ref.verdict:
        if len(reasons) != 1:
            return None, tuple(reasons)
        loc = ""
        if reasons[0] == "step":
            s = repr(prog[0])
            devpos = [p for p in P.positions((prog[0],))
                      if _outcome_at(prog[0], p) != "pass"]
            if len(devpos) == 1:
                path, kind, j = devpos[0]
                loc = kind + ("@rule" if len(path) > 2 or (len(path) == 2 and kind == "bg") else "")
        return "fail:" + reasons[0] + ":" + loc, tuple(reasons)
    # passing verdict: interesting when something did not simply pass
    flat = repr(prog[0])
    if any(o in flat for o in ("skip", "pending")) or ref.cfg.get("tags") or ref.cfg.get("wip") or cleanups:
        return "pass:with-nonpass-elements", ()
    return None, ()


def _outcome_at(feature, pos):
    path, kind, j = pos
    node = P.get((feature,), path)
    if kind == "bg":
        return node[2][j]
    if kind == "s":
        return node[2][j]
    b, r, c = j
    return node[3][b][1][r][c]


def run_case(case):
    ref, obs = runcases.exec_case(case)
    v = refrun.compare(case[0], ref, obs, what=("verdict",))
    cls, reasons = classify(case, ref)
    nt = (cls, digest(case)) if cls else None
    return {"v": v, "nt": nt, "out": (obs["verdict"], cls, case[1] if isinstance(case[1], str) else "cfg"),
            "dg": (obs["verdict"], obs["escaped"], sorted(obs["status"].items()))}


# ---- the run is aborted from inside a hook (KeyboardInterrupt) -----------------------------------------------
def interrupt_case(case):
    """case = (prog, cfgkey, k): the k-th hook invocation is interrupted; the run must not report success (either
    run() returns failed or the KeyboardInterrupt leaves it - before_all / after_all)"""
    prog, cfg, k = case
    obs = harness.run_case(prog, runcases.CFGS[cfg], faults={k: "kbi"}, hooks=True)
    v = []
    name = obs["hooks"][k][0] if k < len(obs["hooks"]) else "?"
    if obs["escaped"]:
        if obs["escaped"] != "KeyboardInterrupt":
            v.append(({"subcheck": "interrupt", "clause": "other-exception-escapes", "exc": obs["escaped"], "hook": name},
                      "interrupting %s #%d: run() raised %s" % (name, k, obs["escaped"])))
    elif not obs["verdict"]:
        v.append(({"subcheck": "interrupt", "clause": "false-green", "hook": name},
                  "the run was interrupted in %s #%d but run() reports success" % (name, k)))
    return {"v": v, "nt": ("kbi", digest(case)), "out": ("kbi", name, obs["verdict"], obs["escaped"]),
            "dg": (obs["verdict"], obs["escaped"], obs["hooks"], sorted(obs["status"].items()))}


def interrupt_cases(tier):
    quick = tier == "quick"
    shapes = [s_ for s_ in P.shapes(tier) if P.size(s_) <= (3 if quick else 5) and len(s_[3]) <= 2]
    for shp in shapes:
        for prog in ((shp, P.SECOND_FEATURE),):
            for cfg in (("default",) if quick else ("default", "stop")):
                for k in range(runcases.hook_count(prog, cfg)):
                    yield (prog, cfg, k)


# ---- a hook skips the rest of a partly executed feature / rule ------------------------------------------------
def partskip_case(case):
    """case = (prog, k, kind): the k-th hook invocation calls feature.skip() / rule.skip() (documented for partly
    executed entities). No prediction: the verdict must agree with what the model shows afterwards - failing iff some
    scenario ended failed / error-class (what already went wrong stays wrong; what was skipped cannot fail the run)"""
    prog, k, kind = case
    obs = harness.run_case(prog, {}, faults={k: kind}, hooks=True)
    v = []
    if obs["escaped"]:
        v.append(({"subcheck": "part-skip", "clause": "exception-escapes-run", "exc": obs["escaped"]},
                  "run() raised %s" % obs["escaped"]))
        return {"v": v, "nt": None, "out": "escaped", "dg": obs["escaped"]}
    scen = [st for path, st in obs["status"].items() if path in obs["steps"]]
    bad = [st for st in scen if st in refrun.FAILING]
    if bool(obs["verdict"]) != bool(bad):
        v.append(({"subcheck": "part-skip", "clause": "false-green" if bad else "false-red", "skipped_by": kind},
                  "%s.skip() from hook #%d: scenario statuses %s but run() reports %s"
                  % ("feature" if kind == "skipf" else "rule", k, sorted(set(scen)), "failure" if obs["verdict"] else "success")))
    return {"v": v, "nt": ("part-skip", digest(case)), "out": ("part-skip", kind, obs["verdict"], tuple(sorted(set(scen)))),
            "dg": (obs["verdict"], sorted(obs["status"].items()))}


def partskip_cases(tier):
    quick = tier == "quick"
    shapes = [s_ for s_ in P.shapes(tier) if 2 <= P.size(s_) <= (3 if quick else 5) and len(s_[3]) <= 2]
    for shp in shapes:
        for nd, pr in P.deviations((shp,), 1, outcomes=("fail", "undefined") if quick else ("fail", "error", "undefined", "pending")):
            prog = (pr[0], P.SECOND_FEATURE)
            hooks_ = refrun.predict(prog, {}, hooks=True).hooks
            for k, (name, ref) in enumerate(hooks_):
                if name in ("before_all", "after_all") or "tag" in name:
                    continue
                if quick and "step" in name:
                    continue
                for kind in ("skipf", "skipr"):
                    yield (prog, k, kind)


# ---- a hook excludes a scenario whose steps would fail ------------------------------------------------------
def hookskip_case(case):
    """the before_scenario / scenario-level before_tag hook of ONE scenario calls scenario.skip(); that scenario's first
    step would fail / raise / be undefined / pending, everything else passes: the excluded scenario is "skipping of
    other elements" - none of its step functions runs and the run reports success"""
    prog, k, spath = case
    obs = harness.run_case(prog, {}, faults={k: "skip"}, hooks=True)
    v = []
    hname = obs["hooks"][k][0] if k < len(obs["hooks"]) else "?"
    if obs["escaped"]:
        v.append(({"subcheck": "skip-by-hook", "clause": "exception-escapes-run", "exc": obs["escaped"], "hook": hname},
                  "run() raised %s: %s" % (obs["escaped"], obs.get("escaped_msg"))))
    else:
        ran = [c for c in obs["calls"] if c[0] == spath]
        if ran:
            v.append(({"subcheck": "skip-by-hook", "clause": "steps-of-excluded-scenario-run", "hook": hname},
                      "scenario %r was excluded by its %s hook, but its step functions were called: %r" % (spath, hname, ran)))
        if obs["verdict"]:
            v.append(({"subcheck": "skip-by-hook", "clause": "false-red", "hook": hname},
                      "scenario %r (the only one with a non-passing step) was excluded by its %s hook, yet run() reports "
                      "failure; statuses %r" % (spath, hname, sorted(obs["status"].items()))))
    return {"v": v, "nt": digest(case), "out": ("hookskip", hname, obs["verdict"]),
            "dg": (obs["verdict"], obs["calls"], sorted(obs["status"].items()))}


def hookskip_cases(tier):
    quick = tier == "quick"
    shapes = [s_ for s_ in P.shapes(tier) if P.size(s_) <= (3 if quick else 4) and len(s_[3]) <= 2]
    for shp in shapes:
        base = (shp, P.SECOND_FEATURE)
        allpos = P.positions((shp,))
        for k, (name, spath) in enumerate(refrun.predict(base, {}, hooks=True).hooks):
            if name != "before_scenario" or spath[0] != 0:
                continue
            first = None
            if (spath, "s", 0) in allpos:
                first = (spath, "s", 0)
            else:
                opath, ri = spath[:-1], spath[-1]
                rows = [q for q in allpos if q[0] == opath and q[1] == "o" and q[2][2] == 0]
                if ri < len(rows):
                    first = rows[ri]
            if first is None:
                continue
            for o in ("fail", "error", "undefined", "pending"):
                pr = P.set_outcome((shp,), first, o)
                yield ((pr[0], P.SECOND_FEATURE), k, spath)


# ---- one runner object used for several runs (ModelRunner.run_model(features=...)) ---------------------------
REUSE_FEATURES = {
    "pass": P.F((P.S(("pass", "pass")),)),
    "undef": P.F((P.S(("pass", "undefined")), P.S(("pass",)))),
    "fail": P.F((P.S(("fail",)), P.S(("pass",)))),
    "pending": P.F((P.O((("pending",), ("pass",))),)),
    "error": P.F((P.R((P.S(("error",)),)),)),
    "abort": P.F((P.S(("abort",)), P.S(("pass",)))),
    "skip": P.F((P.S(("skip", "pass")), P.S(("pass",)))),
}
REUSE_BAD = {"undef", "fail", "pending", "error", "abort"}


def reuse_case(case):
    """case = (cfgname, sequence of feature keys): ONE ModelRunner runs the feature sets one after the other through
    run_model(features=...); every verdict must be the verdict the same features get from a fresh runner"""
    import io, sys
    cfgname, seq = case
    m = harness._imp()
    harness.reset_globals()
    cfgd = runcases.CFGS[cfgname]

    def step_impl_factory():
        def impl(ctx, n, kind):
            if kind == "fail":
                assert False, "boom"
            if kind == "error":
                raise RuntimeError("x")
            if kind == "pending":
                raise m["StepNotImplementedError"]("p")
            if kind == "skip":
                ctx.scenario.skip()
            if kind == "abort":
                ctx.abort()
        return impl

    def new_runner():
        config = m["Configuration"](harness.config_args(cfgd) + ["--no-summary"], load_config=False)
        reg = m["StepRegistry"]()
        m["matchers"].use_step_matcher("parse")
        reg.add_step_definition("step", "step {n:d} {kind:w}", step_impl_factory())
        runner = m["ModelRunner"](config, [], step_registry=reg)
        runner.hooks = {}
        runner.formatters = []
        return runner

    def feats_of(key):
        text, meta = P.render(REUSE_FEATURES[key], 0)
        return [m["parse_feature"](text, filename="r_%s.feature" % key)]

    old = sys.stdout, sys.stderr
    sys.stdout, sys.stderr = io.StringIO(), io.StringIO()
    v, got = [], []
    try:
        shared = new_runner()
        for i, key in enumerate(seq):
            try:
                r_shared = bool(shared.run_model(features=feats_of(key)))
            except BaseException as e:      # noqa
                r_shared = "raises:" + type(e).__name__
            try:
                r_fresh = bool(new_runner().run_model(features=feats_of(key)))
            except BaseException as e:      # noqa
                r_fresh = "raises:" + type(e).__name__
            got.append((key, r_shared, r_fresh))
            want = (key in REUSE_BAD and not (cfgd.get("dry") and key != "undef")) if isinstance(r_fresh, bool) else None
            if r_shared != r_fresh:
                v.append(({"subcheck": "runner-reuse", "clause": "false-red" if r_shared is True else "false-green"
                           if r_shared is False else "raises", "earlier": "+".join(sorted(set(seq[:i]))) or "none",
                           "config": cfgname},
                          "run #%d (%s) on a runner that already ran %r reports failed=%r, a fresh runner reports %r"
                          % (i + 1, key, seq[:i], r_shared, r_fresh)))
                break
            if want is not None and r_fresh != want and not cfgd.get("dry"):
                v.append(({"subcheck": "runner-reuse", "clause": "fresh-verdict", "features": key, "config": cfgname},
                          "fresh runner on %s reports failed=%r, expected %r" % (key, r_fresh, want)))
                break
    finally:
        sys.stdout, sys.stderr = old
    return {"v": v, "nt": digest(case) if len(set(seq)) > 1 else None, "out": ("reuse", cfgname, tuple(g[1] for g in got)),
            "dg": got}


def reuse_cases(tier):
    import itertools
    keys = sorted(REUSE_FEATURES)
    for cfgname in ("default", "stop", "dry"):
        for n in ((2,) if tier == "quick" else (2, 3)):
            for seq in itertools.product(keys, repeat=n):
                if "abort" in seq[:-1]:
                    continue    # a runner whose run was aborted stays aborted (runner.aborted): reuse afterwards is not stated
                yield (cfgname, seq)


# ---- exit code of main() / python -m behave on real files -------------------------------------------
STEPS_PY = '''
from behave import step
from behave.api.pending_step import StepNotImplementedError
@step("step {n:d} pass")
def s_pass(ctx, n): pass
@step("step {n:d} fail")
def s_fail(ctx, n): assert False, "boom"
@step("step {n:d} error")
def s_error(ctx, n): raise RuntimeError("err")
@step("step {n:d} pending")
def s_pending(ctx, n): raise StepNotImplementedError("p")
@step("step {n:d} skip")
def s_skip(ctx, n): ctx.scenario.skip()
@step("step {n:d} abort")
def s_abort(ctx, n): ctx.abort()
'''
ENV_PY = '''
def %s(ctx, *args):
    raise RuntimeError("hook fault")
'''
# error paths OF error paths: the exception a hook raises cannot be described (behave formats it while handling it), or
# is a KeyboardInterrupt (run aborted from a hook: not caught by run_hook); both leave the runner as exceptions
ENV_KINDS = {
    "exc": ENV_PY,
    "strraises": '''
class Undescribable(Exception):
    def __str__(self):
        raise ValueError("cannot describe myself")
    __repr__ = __str__
def %s(ctx, *args):
    raise Undescribable("x")
''',
    "kbi": '''
def %s(ctx, *args):
    raise KeyboardInterrupt()
''',
}
# the run cannot be set up at all: something other than a step / hook / cleanup raises ("nothing else raises" is the
# condition for success)
LOAD_FAULTS = {
    "steps-import": ("features/steps/broken.py", "raise RuntimeError('broken step module')\n"),
    "steps-syntax": ("features/steps/broken.py", "def f(:\n"),
    "env-import": ("features/environment.py", "import module_that_does_not_exist_c01\n"),
    "feature-syntax": ("features/zz.feature", "Feature: Z\n  Scenario: Z1\n    Given a step\n  Bogus line here\n    | x |\n"),
}


def main_exit_case(case):
    """case = (prog, cfgkey, hookname|None, subprocess?)"""
    prog, cfg, hookname, child = case
    cfgd = runcases.CFGS[cfg]
    d = tempfile.mkdtemp(prefix="c01_", dir="/dev/shm" if os.path.isdir("/dev/shm") else None)
    cwd = os.getcwd()
    try:
        os.makedirs(os.path.join(d, "features", "steps"))
        for fi, f in enumerate(prog):
            with open(os.path.join(d, "features", "f%d.feature" % fi), "w") as fh:
                fh.write(P.render(f, fi)[0])
        with open(os.path.join(d, "features", "steps", "steps.py"), "w") as fh:
            fh.write(STEPS_PY)
        kind = "exc"
        if isinstance(hookname, tuple):
            hookname, kind = hookname
        if kind == "load":
            rel, text = LOAD_FAULTS[hookname]
            with open(os.path.join(d, rel), "w") as fh:
                fh.write(text)
        elif hookname:
            with open(os.path.join(d, "features", "environment.py"), "w") as fh:
                fh.write(ENV_KINDS[kind] % hookname)
        args = harness.config_args(cfgd) + ["-f", "null", "features"]
        faults = None
        ref = refrun.predict(prog, cfgd)
        want = 1 if (ref.verdict or hookname) else 0
        if child:
            env = dict(os.environ)
            env["HOME"] = d
            pr = subprocess.run([sys.executable, "-m", "behave"] + args, cwd=d, env=env,
                                stdout=subprocess.PIPE, stderr=subprocess.STDOUT, timeout=120)
            rc = pr.returncode
        else:
            harness.reset_globals()
            os.chdir(d)
            home = os.environ.get("HOME")
            os.environ["HOME"] = d
            old = sys.stdout, sys.stderr
            sys.stdout = io.StringIO()
            sys.stderr = io.StringIO()
            mods = set(sys.modules)
            try:
                from behave.__main__ import main
                try:
                    rc = main(args)
                except SystemExit as e:
                    rc = e.code
                except KeyboardInterrupt:
                    rc = 130        # an interpreter left by KeyboardInterrupt exits non-zero
                except Exception as e:      # noqa - an interpreter left by an uncaught exception exits 1
                    rc = 1
            finally:
                sys.stdout, sys.stderr = old
                os.chdir(cwd)
                if home is not None:
                    os.environ["HOME"] = home
                for mname in set(sys.modules) - mods:
                    if mname.startswith(("steps", "environment")):
                        del sys.modules[mname]
        v = []
        if bool(rc) != bool(want):
            v.append(({"subcheck": "exit-code", "clause": "false-green" if want else "false-red",
                       "entry": "child" if child else "main"},
                      "exit code %r, expected %s for %r under %s (hook fault: %s, kind %s)" % (rc, want, prog, cfg, hookname, kind)))
            if kind != "exc":
                v[-1][0]["fault"] = kind if kind != "load" else "load:" + hookname
        return {"v": v, "nt": ("exit", digest(case)) if want else None, "out": ("exit", rc), "dg": rc}
    finally:
        os.chdir(cwd)
        shutil.rmtree(d, ignore_errors=True)


def exit_cases(tier):
    base = P.F((P.S(("pass", "pass")), P.R((P.O((("pass",), ("pass",))),), bg=("pass",))), bg=("pass",))
    progs = [(base,)]
    for pos in P.positions((base,)):
        for o in ("fail", "error", "pending", "undefined", "skip", "abort"):
            progs.append(P.set_outcome((base,), pos, o))
    for pr in progs:
        for cfg in ("default", "dry"):
            yield (pr, cfg, None, False)
    for h in ("before_all", "after_all", "before_feature", "after_scenario", "before_step", "before_rule"):
        yield ((base,), "default", h, False)
    for h in ("before_all", "after_all", "before_feature", "before_scenario", "after_scenario", "after_step", "after_rule",
              "after_feature"):
        for kind in ("strraises", "kbi"):
            yield ((base,), "default", (h, kind), False)
    for lf in sorted(LOAD_FAULTS):
        yield ((base,), "default", (lf, "load"), False)
        yield ((base,), "dry", (lf, "load"), False)
    yield ((base,), "default", ("after_all", "kbi"), True)
    yield ((base,), "default", ("before_scenario", "strraises"), True)
    yield ((base,), "default", ("feature-syntax", "load"), True)
    kids = [progs[0], progs[1], progs[4], progs[5]]
    for pr in (kids if tier == "quick" else progs[:14]):
        yield (pr, "default", None, True)
    yield ((base,), "default", "after_feature", True)


def run(ctx):
    ctx.bounds = {"items_per_container": 2 if ctx.quick else 3, "deviations": "1 everywhere, 2 on smallest shapes",
                  "hook_faults": "every single invocation x 2 kinds", "features": 2}
    ctx.sweep(run_case, runcases.step_cases(ctx.tier), chunk=48, name="programs x outcomes x configs")
    ctx.sweep(run_case, runcases.fault_cases(ctx.tier), chunk=48, name="single hook/cleanup faults")
    ctx.sweep(run_case, (c for c in runcases.nonpass_fault_cases(ctx.tier, outcomes=("pending", "skip", "undefined", "fail"))
                         if P.size(c[0][0]) <= (2 if ctx.quick else 4)), chunk=48,
              name="one non-passing step, then a hook fault at every invocation")
    ctx.sweep(run_case, runcases.excclass_cases(ctx.tier), chunk=48,
              name="exception classes around every except clause of Step.run, with and without @wip")
    ctx.sweep(run_case, runcases.combo_cases(ctx.tier), chunk=48,
              name="combinations of --stop / --dry-run / --wip / continue_after_failed_step / --tags")
    ctx.sweep(interrupt_case, interrupt_cases(ctx.tier), chunk=32,
              name="KeyboardInterrupt inside every hook invocation (run aborted from a hook)")
    ctx.sweep(partskip_case, partskip_cases(ctx.tier), chunk=48,
              name="feature.skip() / rule.skip() from a hook of a partly executed feature: verdict agrees with the model")
    ctx.sweep(hookskip_case, hookskip_cases(ctx.tier), chunk=32,
              name="a scenario whose first step would fail is excluded by its own before hook (skip())")
    ctx.sweep(reuse_case, reuse_cases(ctx.tier), chunk=16,
              name="one ModelRunner object, several run_model(features=...) calls")
    ctx.sweep(main_exit_case, exit_cases(ctx.tier), chunk=2, name="exit code of main()/python -m behave")
    classes = set(k[0] for k in ctx.nt if k and isinstance(k, tuple))
    for need in ("fail:step:s", "fail:step:bg", "fail:step:o", "fail:step:s@rule", "fail:step:o@rule", "fail:step:bg@rule",
                 "fail:hook:", "fail:root-cleanup:", "fail:scope-cleanup:", "fail:abort:", "fail:undefined-only:",
                 "pass:with-nonpass-elements", "exit"):
        ctx.guard(need in classes, "non-triviality class %r exercised (have %s)" % (need, sorted(classes)))
