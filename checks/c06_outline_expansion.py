# -*- coding: utf-8 -*-
"""C06 - Scenario Outline expansion: one scenario per row, exact placeholder substitution.

E4 part: every outline of a bounded family (placeholder positions x examples
blocks x rows x cell values x annotation schema), once parsed from rendered
Gherkin text (row lines known to the renderer below) and once built through
the model API, expanded by the real ``ScenarioOutline.scenarios`` and compared
field by field with an independent reference expansion (simultaneous regex
substitution); template immutability, aliasing and row independence.

E2 part: breadth-first search over histories of table-API operations on a
real parsed outline (read .scenarios / add_row / add_column / remove_column /
examples.append / run) with a reference table model stepped in lock step; one
``ctx.sweep`` per depth level, the driver deduplicates canonical states.
"""
from __future__ import print_function
import io
import itertools
import re
import sys

from vlib.core import digest

PROPERTY = "C06"
LEVEL = "model_checking"
RULE = ("E4: outline template with the 6 placeholder positions {name, step name, doc-string, step-table heading, "
        "step-table cell, tag} independently switched on (text with <a> <b> and the unknown <zz>) or off (same text "
        "with plain a b zz) = 64 masks; 0-2 examples blocks of 0-2 rows (13 shapes), column order (a,b)/(b,a), block "
        "tags {none, (e1 e.2), (dir/x e+1!) = characters the tag normalisation would strip, (e<a> e<zz>) = placeholder "
        "text inside a BLOCK tag, which must stay as written}, Examples sections WITHOUT a table (slot 'tl': before all / after "
        "the first / after all blocks x keyword only / named / tagged; no scenarios; both numberings of "
        "examples.index accepted; also two start outlines of the history search, where every operation reaches a block "
        "before and a block after such a section), block name {plain 'Ex one'/empty, 'E-<a>', '<a><b>', 'N<row.id>-<zz>', '<b> of <examples.index>'} rendered per "
        "row from the block's own template, the documented special placeholders <examples.name> <examples.index> "
        "<row.index> <row.id> appended to outline name, step name and tags (slot 'special'), cell values {x, '', ue-umlaut, b (the OTHER column's name as plain "
        "text), 'x y'}, annotation schema {default, '{name} [{row.id}]', '{name}'}. Decorations of one step are COMBINED (slot 'combo': doc-string then table on the same step, table "
        "then doc-string, EMPTY doc-string + table; crossed with the DOC / THEAD / TCELL mask bits = placeholders in "
        "doc only, table heading / cell only, both) and BACKGROUND steps with doc-string + table (slot "
        "'bg': feature background for an outline under the feature; and the outline INSIDE A RULE x feature "
        "background {absent, plain, parametrised name} x rule background {absent, plain, parametrised} = all 9; "
        "inherited order feature steps, rule steps, own steps; a step with a parametrised name must be rendered per "
        "row, a step with a plain name may be untouched or rendered). "
        "The placeholder DELIMITERS as ordinary characters (slot 'delim', 6 fragments: '>' before the first '<', "
        "'<' without '>', '<<a>>', '<>', '> ... <' before the text, lone '>' and '<' around a real placeholder) in "
        "outline name, step name, doc-string, step-table heading and cell, tags and examples names; only '<col>' of an "
        "existing column is a placeholder. Deviation = a delimiter fragment, a combo, a background, a non-'x' cell, a "
        "(b,a) block, a tagged block, a templated block name, the special slot, a non-default schema. quick: all 64 masks x all shapes x <=1 deviation (block-name / special-placeholder / "
        "exotic-block-tag / rule-background deviations on the 8 masks {none, each single position, all} only), full mask "
        "x <=2 deviations (pairs with a background deviation use 5 of the 11 background layouts, pairs with a table-less section 3 of its 9 placements, pairs with a delimiter fragment 3 of the 6); thorough: all masks x <=2, full mask x <=3, and full mask x ALL value/order/tag/schema "
        "combinations on shapes with <=2 rows. Every outline is parsed from rendered text AND built through the model "
        "API; the parsed feature is also really run (quick: on the 8 masks {none, single position, all} and on every "
        "combo/background outline; thorough: always). E2: histories over a BASE alphabet {read .scenarios, run, add_row(block, 2 value patterns, list "
        "of cells), add_column(block,'c' | removed 'a'; values=None / short list + default_value), "
        "remove_column(block, a|c by name), examples.append(2 kinds)} plus VARIANT operations {add_row with a tuple / "
        "a Row object; add_column with values in {None, full list, short list, empty list, full tuple, short tuple, "
        "short generator} x default_value {not given, 'd'}; remove_column of 'b' (so that first / last / only column "
        "are all removed) and remove_column by int index first / last} from 3 start outlines (0,1,2 blocks; one "
        "block has 2 rows) whose template uses <a> <b> <c> in every position. Deviation bound: histories of base "
        "operations to depth 4 (quick) / 6 (thorough); with one variant operation to depth 3 / 4; with two to depth "
        "- / 3. Reference = the documented Table API (values shorter than the table are padded with default_value) "
        "stepped in lock step, then the reference expansion of the current tables. Deduplicated on (blocks incl. "
        "cell container type, modified flags, cached expansion, variant operations used); thorough repeats the "
        "search without deduplication within smaller bounds and demands the same canonical states. E2b failed-build "
        "histories: outlines of 1-2 blocks x 0-2 (thorough 0-3) rows x {first build, rebuild after a read} x {no "
        "edit, add_row(block), add_column(block)} x every fault site {bad annotation-schema field = first rendered "
        "row; non-text cell brought in by add_column at (block,row)}: the read must raise, the cause is repaired "
        "outside the table API, then .scenarios (read twice) must equal the expansion of a freshly parsed outline "
        "over the same tables; all of this x annotation schema {default, '{name} :: {examples.name} #{row.index}', "
        "'{name}'} x a reset (outline.reset / feature.reset / reset_model([feature])) at each position {none, after "
        "the prior read, after the failed build, after the repair}. The reset operations are also operations of the "
        "table-API history search (default schema: as variant operations; the two non-default schemas: base "
        "alphabet + resets to depth 3 quick / 4 thorough); after a reset no generated scenario/step carries a "
        "status, and every read must give the expansion under the CURRENT schema. An outline is "
        "non-trivial (counted distinct by its case) when it has >=1 row and >=1 placeholder position switched on; a "
        "history is non-trivial when it contains an edit after a read/run (the cache had to be invalidated).")
ASSUMPTIONS = [
    "cell values containing '<' or '>' are excluded (sequential vs simultaneous substitution differ only there)",
    "tag-position values are tag-safe after the documented Tag.make_name normalisation (blank -> '_'), which the oracle applies",
    "special placeholders are demanded where behave documents them (outline name, step names, tags, examples name: features/scenario_outline.parametrized.feature, docs/new_and_noteworthy_v1.2.5); none is placed in doc-strings or step tables",
    "a background whose step NAME carries a placeholder is rendered per row by the builder: demanded then is the same substitution as for outline steps (name, doc-string, table); with a plain step name the statement is silent and both the untouched and the rendered background are accepted",
    "parsed route: if the parser does not deliver a template step as written, that is reported as subcheck 'template-parse' (a parsing matter, C04 territory) and the expansion is judged against the template as parsed",
    "every generated step table (own and background steps), the template's tables after expansion and the examples tables after table-API histories are read through every read API (iteration, table[i], row.headings, row.items(), row.as_dict(), row[h], row.get(h), h in row, iter/len of a row, Table.__eq__ against a freshly built Table) and must agree with table.headings / row.cells (content; that a row shares the list OBJECT of the table is not demanded)",
    "outline tags: after substitution a tag that still holds a '<...>' group is dropped (documented); a tag holding stray '<' and '>' that form no placeholder ('>x<') may be dropped (behave's test is '<' in tag and '>' in tag) or kept in normalised form - both accepted; kept tags are normalised as documented for Tag.make_name (blank -> '_', the quoting characters < > removed)",
    "substitution is SIMULTANEOUS (a substituted value is not scanned again): '<<a>>' with a cell that is another column's name gives '<' + cell + '>'",
    "generated scenario name = annotation schema applied to the substituted outline name, row id 'B.R' (1-based block.row) and the examples name",
    "tags are compared as multisets (the statement does not order them); examples-block tags are compared by exact text",
    "placeholders whose column does not exist are 'text without placeholders': left unchanged; tags still carrying one are dropped (documented)",
    "a row added as a tuple of cells cannot be edited column-wise afterwards (AttributeError/TypeError): argument types of add_row are not documented, the outcome is accepted and not explored further",
    "E2 dedup: canonical state = examples blocks (name, tags, headings, cells, row lines, modified flag) + the cached expansion; run statuses are not part of it (no operation of the alphabet reads them); the thorough tier re-searches without dedup to depth 4 and demands the same canonical states (this self-check rejected a first abstraction that left out block name/tags/row lines)",
]

NAME, STEP, DOC, THEAD, TCELL, TAG = 1, 2, 4, 8, 16, 32
FULL = 63
VALUES = (u"x", u"", u"\xfc", u"b", u"x y")
SCHEMAS = (None, u"{name} [{row.id}]", u"{name}")
DEFAULT_SCHEMA = u"{name} -- @{row.id} {examples.name}"
# examples-block tag sets: index 0 = untagged; 1 = plain; 2 = characters that Tag.make_name would strip (legal tag
# tokens: the Gherkin tag grammar is '@' + any run of non-blank characters); 3 = '<col>' text inside a BLOCK tag, which
# must stay exactly as written (the statement substitutes placeholders in the OUTLINE's tags only; the block's tags
# are "additionally included")
BLOCK_TAGSETS = ((), (u"e1", u"e.2"), (u"dir/x", u"e+1!"), (u"e<a>", u"e<zz>"))
BLOCK_NAMES = (u"Ex one", u"")
# examples-block NAME templates (index 0 = the plain default above): column placeholders, the unknown <zz>, and the
# special placeholders - the name is rendered per row from the block's OWN template name
BLOCK_NAME_TEMPLATES = (None, u"E-<a>", u"<a><b>", u"N<row.id>-<zz>", u"<b> of <examples.index>")
# documented special placeholders (docs/new_and_noteworthy_v1.2.5, features/scenario_outline.parametrized.feature):
# substituted in the outline name, step names, tags and the examples name ("AFFECTED: scenario.name, examples.name,
# step.name", tags: "@foo.group<examples.index>"); the text added to the template when the 'special' slot is on:
SPECIAL_NAME = u" S<examples.index>-<row.index> @<row.id> [<examples.name>]"
SPECIAL_STEP = u" id=<row.id> ex=<examples.name>"
SPECIAL_TAGS = [u"g<examples.index>.<row.index>", u"n_<examples.name>", u"r<row.id>"]


# =============================================================================
# abstract outline -> template
# =============================================================================
def delim_text(t, d, tag=False):
    """the placeholder DELIMITERS as ordinary characters, before / between / after real placeholders.  Only '<col>'
    for an existing column is a placeholder; everything else is literal.
    1 '>' before the first '<'   2 '<' without a '>' after the text   3 '<<a>>'   4 '<>' (empty name)
    5 '>' and then a lone '<' before the text   6 a lone '>' before and a lone '<' after the <b> placeholder"""
    sp = u"" if tag else u" "
    if d == 1:
        return u"v" + sp + u">" + sp + t
    if d == 2:
        return t + sp + u"a<b"
    if d == 3:
        return t + sp + u"<<a>>"
    if d == 4:
        return t + sp + u"<>" + sp + u"x"
    if d == 5:
        return u"x" + sp + u">" + sp + u"y" + sp + u"<" + sp + u"z" + sp + t
    if d == 6:
        if u"<b>" in t:
            return t.replace(u"<b>", u">" + sp + u"<b>" + sp + u"<", 1)
        return u">" + sp + t + sp + u"<"
    return t


def _delimiters(tmpl, d):
    """slot 'delim': the fragment goes into the outline name, the first step name, the doc-string, one step-table
    heading, one step-table cell and every tag but the first"""
    if not d:
        return tmpl
    tmpl["name"] = delim_text(tmpl["name"], d)
    tmpl["tags"] = tmpl["tags"][:1] + [delim_text(t, d, tag=True) for t in tmpl["tags"][1:]]
    st = tmpl["steps"]
    assert st[0][1].startswith(u"a step ")
    st[0] = (st[0][0], u"a step " + delim_text(st[0][1][len(u"a step "):], d), st[0][2], st[0][3])
    st[1] = (st[1][0], st[1][1], delim_text(st[1][2], d), st[1][3])
    heads, rows = st[2][3]
    heads = [heads[0], delim_text(heads[1], d)] + heads[2:]
    rows = [[rows[0][0], delim_text(rows[0][1], d)] + rows[0][2:]] + rows[1:]
    st[2] = (st[2][0], st[2][1], st[2][2], (heads, rows))
    return tmpl


def template(mask, cols="ab", special=0, combo=0, bg=0, delim=0):
    """the outline template as plain data: name, tags, steps [(keyword, name, text|None, table|None)]"""
    def t(bit, on, off):
        return on if mask & bit else off
    if cols == "ab":
        sn, ss, st = (SPECIAL_NAME, SPECIAL_STEP, SPECIAL_TAGS) if special else (u"", u"", [])
        tmpl = {
            "name": t(NAME, u"Out <a>-<b> <zz> <a>", u"Out a-b zz a") + sn,
            "tags": t(TAG, [u"o1", u"t_<a>", u"<b>.u", u"w_<zz>", u"<a><b>"], [u"o1", u"t_a", u"b.u"]) + st,
            "steps": [
                (u"Given", t(STEP, u"a step with <a> and <b> and <zz>", u"a step with a and b and zz") + ss, None,
                 None),
                (u"When", u"a text", t(DOC, u"doc <a>\n  <b> <zz> b\n<a><a>", u"doc a\n  b zz b\naa"), None),
                (u"Then", u"a table", None,
                 (t(THEAD, [u"h<a>", u"<b>", u"k"], [u"ha", u"b", u"k"]),
                  [t(TCELL, [u"<a>", u"<b><zz>", u"a"], [u"a", u"bzz", u"a"]),
                   t(TCELL, [u"b", u"<a> <b>", u"<a>"], [u"b", u"a b", u"a"])])),
            ],
        }
        return _decorate(_delimiters(tmpl, delim), mask, combo, bg)
    return {       # E2 template: three columns, 'c' initially unknown
        "name": u"Out <a>-<b>-<c> @<row.id> <examples.name>",
        "tags": [u"o1", u"t_<a>", u"u_<c>", u"g<examples.index>.<row.index>"],
        "steps": [
            (u"Given", u"a step with <a> and <b> and <c>", None, None),
            (u"When", u"a text", u"doc <b> <c>\n  b c", None),
            (u"Then", u"a table", None, ([u"h<c>", u"k"], [[u"<a><c>", u"<b>"]])),
        ],
    }


def _decorate(tmpl, mask, combo, bg):
    """decorations of ONE step combined: combo 1 = doc-string then table on the same step, 2 = table then doc-string
    (order in the document), 3 = EMPTY doc-string + table; bg 1 = feature background whose step has a parametrised
    name + doc-string + table, bg 2 = background step with a plain name and placeholders in doc-string/table only,
    bg 3..11 = the outline inside a Rule x {feature background absent/plain/parametrised} x {rule background ...}"""
    steps = tmpl["steps"]
    doc, table = steps[1][2], steps[2][3]
    tmpl["table_first"] = ()
    if combo in (1, 2):
        steps[1] = (steps[1][0], steps[1][1], doc, ([u"c" + h for h in table[0]], [list(r) for r in table[1]]))
        if combo == 2:
            tmpl["table_first"] = (1,)
    elif combo == 3:
        steps[2] = (steps[2][0], steps[2][1], u"", table)
    if bg:
        on = lambda bit, a, b: a if mask & bit else b

        def bgstep(level, kind):        # kind 1 = plain step name, 2 = parametrised step name
            return (u"Given", (u"a background %s <a>-<b>" if kind == 2 else u"a background %s plain") % level,
                    on(DOC, u"bg %s <b>\n  <a> <zz>" % level, u"bg %s b\n  a zz" % level),
                    (on(THEAD, [u"k<a>", u"j"], [u"ka", u"j"]), [on(TCELL, [u"<b>", u"<a>b"], [u"b", u"ab"])]))
        if bg in (1, 2):                # outline directly under the feature: bg 1 = parametrised, 2 = plain
            tmpl["bg"] = [bgstep(u"feature", 2 if bg == 1 else 1)]
        else:                           # outline INSIDE A RULE x feature background x rule background (all 9)
            f, r = divmod(bg - 3, 3)    # 0 = absent, 1 = plain name, 2 = parametrised name
            tmpl["in_rule"] = True
            tmpl["bg"] = [bgstep(u"feature", f)] if f else []
            tmpl["rbg"] = [bgstep(u"rule", r)] if r else []
    return tmpl


def block_model(block, index):
    """(order, tagged, rows[, name template index]) -> dict(name, tags, headings, rows=[cells])"""
    if block[0] == "notable":             # ("notable", name, tagged): Examples keyword without a table
        return {"name": block[1], "tags": list(BLOCK_TAGSETS[int(block[2])]), "headings": [], "rows": [],
                "notable": True}
    order, tagged, rows = block[:3]
    bname = BLOCK_NAME_TEMPLATES[block[3]] if len(block) > 3 and block[3] else BLOCK_NAMES[index % 2]
    heads = [u"a", u"b"] if order == 0 else [u"b", u"a"]
    cells = [[va, vb] if order == 0 else [vb, va] for va, vb in rows]
    return {"name": bname, "tags": list(BLOCK_TAGSETS[int(tagged)]), "headings": heads,
            "rows": cells}


# =============================================================================
# renderer: template + blocks -> Gherkin text and the 1-based line of every entity
# =============================================================================
def render(tmpl, blocks):
    """-> (text, lines) lines = {"feature", "outline", "examples": [..], "rows": [[..], ..]}"""
    out = []

    def emit(s):
        out.append(s)
        return len(out)
    lines = {"examples": [], "rows": []}
    lines["feature"] = emit(u"Feature: F")
    emit(u"")

    def emit_steps(steps, table_first=()):
        for i, (kw, name, text, table) in enumerate(steps):
            emit(u"    %s %s" % (kw, name))

            def emit_doc():
                if text is not None:
                    emit(u'      """')
                    for l in (text.split(u"\n") if text else []):
                        emit(u"      " + l)
                    emit(u'      """')

            def emit_table():
                if table is not None:
                    heads, rows = table
                    for r in [heads] + rows:
                        emit(u"      | " + u" | ".join(r) + u" |")
            if i in table_first:
                emit_table()
                emit_doc()
            else:
                emit_doc()
                emit_table()
    if tmpl.get("bg"):
        emit(u"  Background:")
        emit_steps(tmpl["bg"])
        emit(u"")
    if tmpl.get("in_rule"):
        emit(u"  Rule: R")
        if tmpl.get("rbg"):
            emit(u"  Background: of the rule")
            emit_steps(tmpl["rbg"])
            emit(u"")
    emit(u"  " + u" ".join(u"@" + t for t in tmpl["tags"]))
    lines["outline"] = emit(u"  Scenario Outline: " + tmpl["name"])
    emit_steps(tmpl["steps"], tmpl.get("table_first", ()))
    for b in blocks:
        emit(u"")
        if b["tags"]:
            emit(u"    " + u" ".join(u"@" + t for t in b["tags"]))
        lines["examples"].append(emit(u"    Examples:" + (u" " + b["name"] if b["name"] else u"")))
        if b.get("notable"):
            lines["rows"].append([])        # Examples keyword without any table
            continue
        emit(u"      | " + u" | ".join(b["headings"]) + u" |")
        rl = []
        for r in b["rows"]:
            rl.append(emit(u"      | " + u" | ".join(r) + u" |"))
        lines["rows"].append(rl)
    return u"\n".join(out) + u"\n", lines


# =============================================================================
# reference expansion (written from the statement; simultaneous substitution)
# =============================================================================
_PH = re.compile(u"<([^<>]*)>")


def subst(text, row):
    return _PH.sub(lambda m: row[m.group(1)] if m.group(1) in row else m.group(0), text)


def tag_name(text):
    """documented normalisation of generated tags (Tag.make_name): white space -> '_', the quoting characters < > are
    removed (the alphabet of OUTLINE tags holds no other special character)"""
    return u"".join(u"_" if ch.isspace() else ch for ch in text if ch not in u"<>")


def ref_expand(tmpl, blocks, schema, count_tableless=True):
    """-> [dict(name, tags(sorted), steps, bi, ri)] one per (block, row) in order.
    An Examples section WITHOUT a table contributes no scenario; whether it still counts for examples.index / row.id
    is not fixed by the statement: count_tableless selects the numbering (both are accepted by the callers)"""
    schema = schema or DEFAULT_SCHEMA
    out = []
    xi = 0
    for bi, b in enumerate(blocks):
        if count_tableless or not b.get("notable"):
            xi += 1
        for ri, cells in enumerate(b["rows"]):
            row = dict(zip(b["headings"], cells))
            # special placeholders of THIS row; the examples name is rendered from the block's own template name
            sp = {u"examples.index": u"%d" % xi, u"row.index": u"%d" % (ri + 1),
                  u"row.id": u"%d.%d" % (xi, ri + 1)}
            sp.update(row)
            ex_name = subst(b["name"], sp)
            rowsp = dict(sp)
            rowsp[u"examples.name"] = ex_name
            rowsp.update(row)
            name = subst(tmpl["name"], rowsp)
            full = (schema.replace(u"{name}", u"\0").replace(u"{row.id}", u"%d.%d" % (xi, ri + 1))
                    .replace(u"{row.index}", u"%d" % (ri + 1)).replace(u"{examples.index}", u"%d" % xi)
                    .replace(u"{examples.name}", u"\1").replace(u"\0", name).replace(u"\1", ex_name))
            tags = []
            tags_opt = []
            for t in tmpl["tags"]:
                t2 = subst(t, rowsp)
                if _PH.search(t2):
                    continue            # unknown placeholder: documented to be dropped
                if u"<" in t2 and u">" in t2:
                    # stray delimiters that form no placeholder ('>x<'): behave's "still parametrised" test is
                    # '<' in tag and '>' in tag, so it drops such a tag; the documentation only speaks of unknown
                    # placeholders -> both outcomes accepted (dropped, or kept in normalised form)
                    tags_opt.append(tag_name(t2))
                    continue
                tags.append(tag_name(t2))
            tags += b["tags"]
            steps = []
            for kw, sname, text, table in tmpl["steps"]:
                tb = None
                if table is not None:
                    tb = ([subst(h, row) for h in table[0]], [[subst(c, row) for c in r] for r in table[1]])
                steps.append((kw, subst(sname, rowsp), None if text is None else subst(text, row), tb))
            # background steps of the feature: when a background step NAME is parametrised the builder renders the
            # background per row (every placeholder of the row, everywhere); otherwise the statement is silent and
            # both the untouched and the rendered background are accepted
            # inherited order: feature-background steps, then rule-background steps, then the own steps
            bg_t = list(tmpl.get("bg") or []) + list(tmpl.get("rbg") or [])
            bg_want = []
            for kw, sname, text, table in bg_t:
                tb = None
                if table is not None:
                    tb = ([subst(h, row) for h in table[0]], [[subst(c, row) for c in r] for r in table[1]])
                rendered = (kw, subst(sname, rowsp), None if text is None else subst(text, row), tb)
                allowed = [rendered]
                if not _PH.search(sname):       # plain step name: silent -> untouched is accepted as well
                    allowed.append((kw, sname, text,
                                    None if table is None else (list(table[0]), [list(r) for r in table[1]])))
                bg_want.append(allowed)
            out.append({"name": full, "tags": sorted(tags), "btags": list(b["tags"]), "steps": steps, "bi": bi,
                        "ri": ri, "bg_want": bg_want, "tags_opt": tags_opt})
    return out


# =============================================================================
# observing the real objects
# =============================================================================
def snap_steps(steps):
    out = []
    for s in steps:
        tb = None
        if s.table is not None:
            tb = ([u"%s" % h for h in s.table.headings], [[u"%s" % c for c in r.cells] for r in s.table.rows])
        out.append((u"%s" % s.keyword, u"%s" % s.name, None if s.text is None else u"%s" % s.text, tb))
    return out


def snap_scenario(s):
    return {"name": u"%s" % s.name, "tags": sorted(u"%s" % t for t in s.tags), "steps": snap_steps(s.steps),
            "line": s.line, "bg": snap_steps(s.background_steps)}


def snap_template(outline):
    """everything the statement calls 'the outline template' + the examples tables"""
    ex = []
    for e in outline.examples:
        if e.table is None:
            ex.append((u"%s" % e.name, [u"%s" % t for t in e.tags], None, None))
            continue
        ex.append((u"%s" % e.name, [u"%s" % t for t in e.tags], list(e.table.headings),
                   [(list(r.cells), r.line) for r in e.table.rows]))
    bg = None
    if outline.background is not None:
        inh = outline.background.inherited_background
        bg = (snap_steps(outline.background.steps), snap_steps(inh.steps) if inh is not None else None)
    return (u"%s" % outline.name, [u"%s" % t for t in outline.tags], snap_steps(outline.steps), ex, outline.line, bg)


def table_read_api_diff(table, share_headings=True):
    """A table must look the same through EVERY read API a step implementation may use, not only through the two
    attributes (table.headings, row.cells) the builder writes.  -> (api, detail) of the first disagreement or None"""
    from behave.model import Table
    heads = list(table.headings)
    rows = list(table.rows)
    it = [r for r in table]
    if len(it) != len(rows) or any(a is not b for a, b in zip(it, rows)):
        return "iteration", "iterating the table does not yield table.rows"
    for i, r in enumerate(rows):
        cells = list(r.cells)
        if table[i] is not r:
            return "table[i]", "table[%d] is not table.rows[%d]" % (i, i)
        if list(r.headings) != heads:
            return "row.headings", "row %d: row.headings %r, table.headings %r" % (i, list(r.headings), heads)
        # NOT demanded: that the row shares the table's headings LIST OBJECT - an implementation detail; a row holding
        # an equal copy satisfies the statement (equal content is checked above and through every read API below)
        if list(r.items()) != list(zip(heads, cells)):
            return "row.items", "row %d: items() %r, expected %r" % (i, list(r.items()), list(zip(heads, cells)))
        if list(r.as_dict().items()) != list(dict(zip(heads, cells)).items()):
            return "row.as_dict", "row %d: as_dict() %r, expected %r" % (i, dict(r.as_dict()), dict(zip(heads, cells)))
        if list(r) != cells or len(r) != len(cells):
            return "row-iteration", "row %d: iter/len %r, cells %r" % (i, list(r), cells)
        for h in heads:
            first = cells[heads.index(h)]
            if h not in r:
                return "heading-in-row", "row %d: %r in row is False" % (i, h)
            try:
                if r[h] != first:
                    return "row[heading]", "row %d: row[%r] = %r, expected %r" % (i, h, r[h], first)
            except KeyError as e:
                return "row[heading]", "row %d: row[%r] raised KeyError %s" % (i, h, e)
            if r.get(h) != first:
                return "row.get", "row %d: row.get(%r) = %r, expected %r" % (i, h, r.get(h), first)
        if u"no such heading" in r or r.get(u"no such heading") is not None:
            return "heading-in-row", "row %d knows a heading that does not exist" % i
    fresh = Table(list(heads), rows=[list(r.cells) for r in rows], line=1)
    if not (table == fresh) or (table != fresh) or not (fresh == table):
        return "Table.__eq__", "table does not compare equal to a freshly built Table(%r, %r)" % (
            heads, [list(r.cells) for r in rows])
    return None


def first_field_diff(got, want):
    """name of the first field in which an observed scenario differs from the reference one"""
    if got["name"] != want["name"]:
        return "name", got["name"], want["name"]
    if got["tags"] != want["tags"] and want.get("tags_opt"):
        extra = list(got["tags"])
        ok = True
        for t in want["tags"]:
            if t in extra:
                extra.remove(t)
            else:
                ok = False
        opt = list(want["tags_opt"])
        for t in extra:
            if t in opt:
                opt.remove(t)
            else:
                ok = False
        if ok:
            got = dict(got, tags=want["tags"])       # required tags present, the rest is from the accept-set
    if got["tags"] != want["tags"]:
        left = list(got["tags"])
        for t in want.get("btags", ()):          # are the block's tags there, exactly as written?
            if t in left:
                left.remove(t)
            else:
                return "examples-block-tags", got["tags"], want["tags"]
        return "tags", got["tags"], want["tags"]
    if len(got["steps"]) != len(want["steps"]):
        return "step-count", len(got["steps"]), len(want["steps"])
    for g, w in zip(got["steps"], want["steps"]):
        if g[0] != w[0]:
            return "step-keyword", g[0], w[0]
        if g[1] != w[1]:
            return "step-name", g[1], w[1]
        if g[2] != w[2]:
            return "doc-string", g[2], w[2]
        if (g[3] is None) != (w[3] is None):
            return "step-table", g[3], w[3]
        if g[3] is not None:
            if g[3][0] != w[3][0]:
                return "step-table-heading", g[3][0], w[3][0]
            if g[3][1] != w[3][1]:
                return "step-table-cell", g[3][1], w[3][1]
    if "bg_want" in want:
        gb = got.get("bg", [])
        if len(gb) != len(want["bg_want"]):
            return "background-step-count", gb, [a[0] for a in want["bg_want"]]
        for g, allowed in zip(gb, want["bg_want"]):
            if g not in allowed:
                return "background-step", g, allowed[0]
    return None


def compare_expansion(scenarios, want, row_lines, outline, base, what, read_api=True):
    """real generated scenarios vs reference -> violations (first difference only)"""
    v = []
    if len(scenarios) != len(want):
        v.append((dict(base, clause="scenario-count"),
                  "%s: %d scenarios generated, %d examples rows" % (what, len(scenarios), len(want))))
        return v
    for k, (s, w) in enumerate(zip(scenarios, want)):
        g = snap_scenario(s)
        d = first_field_diff(g, w)
        if d:
            v.append((dict(base, clause="substitution", field=d[0]),
                      "%s: scenario #%d (block %d row %d): %s is %r, expected %r"
                      % (what, k + 1, w["bi"] + 1, w["ri"] + 1, d[0], d[1], d[2])))
            return v
        wl = row_lines[w["bi"]][w["ri"]]
        if g["line"] != wl:
            v.append((dict(base, clause="line-is-not-the-rows-line"),
                      "%s: scenario #%d (block %d row %d) is located at line %r, its row at line %r"
                      % (what, k + 1, w["bi"] + 1, w["ri"] + 1, g["line"], wl)))
            return v
        # (the .line attribute of the included block tags is NOT demanded: the statement speaks of the tags, not of
        # their bookkeeping attributes - a clause doing so was removed as over-strict, DESIGN 9.2)
        # every generated step table (own and background steps) through every read API
        for st_ in (list(s.background_steps) + list(s.steps)) if read_api else ():
            if st_.table is not None:
                d = table_read_api_diff(st_.table)
                if d:
                    v.append((dict(base, clause="step-table-read-api", api=d[0]),
                              "%s: scenario #%d (block %d row %d), step %r: %s"
                              % (what, k + 1, w["bi"] + 1, w["ri"] + 1, u"%s" % st_.name, d[1])))
                    return v
        if s.parent is not outline:
            v.append((dict(base, clause="parent-is-not-the-outline"), "%s: scenario #%d parent is %r"
                      % (what, k + 1, s.parent)))
            return v
    return v


# =============================================================================
# real objects: parse / build through the API / run
# =============================================================================
def init_worker():
    import behave.model            # noqa: F401
    import behave.parser           # noqa: F401
    import behave.runner           # noqa: F401
    import behave.configuration    # noqa: F401


_STATE = {}


def _reset_globals(schema):
    from behave.model import ScenarioOutline, ScenarioOutlineBuilder
    from behave import matchers
    matchers.use_step_matcher("parse")
    ScenarioOutline.annotation_schema = schema or ScenarioOutlineBuilder.annotation_schema


def _restore_globals():
    from behave.model import ScenarioOutline, ScenarioOutlineBuilder
    ScenarioOutline.annotation_schema = ScenarioOutlineBuilder.annotation_schema


def parse_outline(tmpl, blocks):
    from behave.parser import parse_feature
    text, lines = render(tmpl, blocks)
    feature = parse_feature(text, filename=u"outline.feature")
    outline = feature.run_items[0]
    if tmpl.get("in_rule"):
        outline = outline.run_items[0]
    return feature, outline, lines, text


def make_examples(b, line, index):
    from behave.model import Examples, Table
    if b.get("notable"):
        return Examples(u"api.feature", line, u"Examples", b["name"], tags=list(b["tags"]), table=None)
    table = Table(list(b["headings"]), line=line + 1)
    for i, r in enumerate(b["rows"]):
        table.add_row(list(r), line + 2 + i)
    return Examples(u"api.feature", line, u"Examples", b["name"], tags=list(b["tags"]), table=table)


def build_outline(tmpl, blocks):
    """the same outline through the model API (no parser); row lines are chosen here"""
    from behave.model import ScenarioOutline, Step, Table, Text
    steps = []
    line = 4
    for kw, name, text, table in tmpl["steps"]:
        line += 1
        tb = None
        if table is not None:
            tb = Table(list(table[0]), line=line + 1)
            for i, r in enumerate(table[1]):
                tb.add_row(list(r), line + 2 + i)
        tx = Text(text, u"text/plain", line + 1) if text is not None else None
        steps.append(Step(u"api.feature", line, kw, kw.lower(), name, text=tx, table=tb))
        line += 5
    examples = []
    row_lines = []
    for i, b in enumerate(blocks):
        line += 3
        examples.append(make_examples(b, line, i))
        row_lines.append([line + 2 + k for k in range(len(b["rows"]))])
        line += 2 + len(b["rows"])
    outline = ScenarioOutline(u"api.feature", 4, u"Scenario Outline", tmpl["name"], tags=list(tmpl["tags"]),
                              steps=steps, examples=examples)
    from behave.model import Background, Feature, Rule

    def make_background(tsteps, bline):
        bsteps = []
        for kw, name, text, table in tsteps:
            tb = Table(list(table[0]), line=bline + 2)
            for i, r in enumerate(table[1]):
                tb.add_row(list(r), bline + 3 + i)
            bsteps.append(Step(u"api.feature", bline + 1, kw, kw.lower(), name,
                               text=Text(text, u"text/plain", bline + 2), table=tb))
        return Background(u"api.feature", bline, u"Background", u"", steps=bsteps)
    if tmpl.get("in_rule"):
        # the containers wire the inheritance (Feature.add_rule / Rule.add_background / add_scenario), in the order
        # the parser uses: feature background, rule, rule background, then the outline
        feature = Feature(u"api.feature", 1, u"Feature", u"F",
                          background=make_background(tmpl["bg"], 1) if tmpl.get("bg") else None)
        rule = Rule(u"api.feature", 2, u"Rule", u"R", parent=feature)
        feature.add_rule(rule)
        if tmpl.get("rbg"):
            rule.add_background(make_background(tmpl["rbg"], 2))
        rule.add_scenario(outline)
    elif tmpl.get("bg"):
        outline.background = make_background(tmpl["bg"], 1)
    return outline, row_lines


def _step_any(context, **kw):
    _STATE["calls"] = _STATE.get("calls", 0) + 1


def run_feature(feature):
    from behave.configuration import Configuration
    from behave.runner import ModelRunner
    from behave.step_registry import StepRegistry
    if "config" not in _STATE:
        cfg = Configuration("", load_config=False)
        cfg.reporters = []
        reg = StepRegistry()
        reg.add_step_definition("step", u"a step {rest}", _step_any)
        reg.add_step_definition("step", u"a text", _step_any)
        reg.add_step_definition("step", u"a table", _step_any)
        reg.add_step_definition("step", u"a background{rest}", _step_any)
        _STATE["config"], _STATE["reg"] = cfg, reg
    _STATE["calls"] = 0
    runner = ModelRunner(_STATE["config"], [feature], step_registry=_STATE["reg"])
    runner.formatters = []
    runner.hooks = {}
    old = sys.stdout, sys.stderr
    sys.stdout = sys.stderr = io.StringIO()
    try:
        failed = runner.run()
    finally:
        sys.stdout, sys.stderr = old
    return failed, _STATE["calls"]


# =============================================================================
# E4 case function
# =============================================================================
def quiet(func):
    """behave print()s "ERROR: ScenarioOutline.Examples: Has NO-TABLE syndrome" whenever an outline with a table-less
    Examples section is expanded: the case functions run with stdout/stderr swallowed"""
    import functools

    @functools.wraps(func)
    def wrapper(case):
        old = sys.stdout, sys.stderr
        sys.stdout = sys.stderr = io.StringIO()
        try:
            return func(case)
        finally:
            sys.stdout, sys.stderr = old
    return wrapper


def _merge_modes(per_mode):
    """violations seen identically (same descriptor apart from 'built') in both construction modes are one class"""
    out = []
    keyed = {}
    for mode, vs in per_mode:
        for desc, msg in vs:
            k = tuple(sorted((a, b) for a, b in desc.items() if a != "built"))
            keyed.setdefault(k, []).append((mode, desc, msg))
    for k, items in keyed.items():
        modes = sorted(set(m for m, _, _ in items))
        desc = dict(items[0][1], built="both" if len(modes) > 1 else modes[0])
        out.append((desc, items[0][2]))
    out.sort(key=lambda dm: sorted(dm[0].items()))
    return out


@quiet
def check_outline(case):
    """case = (mask, blocks, schema_id); blocks = ((order, tagged, ((va, vb), ...)), ...)"""
    mask, blocks_spec, schema_id = case[:3]
    special = case[3] if len(case) > 3 else 0
    combo = case[4] if len(case) > 4 else 0
    bg = case[5] if len(case) > 5 else 0
    do_run = case[6] if len(case) > 6 else 1
    delim = case[7] if len(case) > 7 else 0
    tl = case[8] if len(case) > 8 else 0
    schema = SCHEMAS[schema_id]
    tmpl = template(mask, special=special, combo=combo, bg=bg, delim=delim)
    nsteps = len(tmpl["steps"]) + len(tmpl.get("bg") or ()) + len(tmpl.get("rbg") or ())
    blocks = [block_model(b, i) for i, b in enumerate(blocks_spec)]
    if delim:
        for b in blocks:
            if b["name"]:
                b["name"] = delim_text(b["name"], delim)
    want_alt = None
    if tl:
        # slot 'tl': one Examples section WITHOUT a table - position {before all, after the first, after all blocks} x
        # kind {keyword only, keyword + name, tagged + named}
        pos, kind = divmod(tl - 1, 3)
        nb = {"name": (u"", u"no table", u"no table")[kind], "tags": list(BLOCK_TAGSETS[1]) if kind == 2 else [],
              "headings": [], "rows": [], "notable": True}
        blocks.insert((0, min(1, len(blocks)), len(blocks))[pos], nb)
        want_alt = ref_expand(tmpl, blocks, schema, count_tableless=False)
    want = ref_expand(tmpl, blocks, schema)
    # input class in which a row's cell, put between the template's own stray brackets ('<<a>>'), spells ANOTHER
    # column's placeholder: named in the descriptor, because sequential and simultaneous substitution differ there
    respell = delim == 3 and any(c in b["headings"] for b in blocks for r in b["rows"] for c in r)
    per_mode = []
    obs = []
    n = 0
    _reset_globals(schema)
    try:
        for mode in ("parsed", "api"):
            base = {"subcheck": "expansion", "built": mode}
            if respell:
                base["trigger"] = "cell-value-between-template-brackets-spells-a-column-placeholder"
            v = []
            per_mode.append((mode, v))
            n += 1
            try:
                if mode == "parsed":
                    feature, outline, lines, text = parse_outline(tmpl, blocks)
                    row_lines = lines["rows"]
                    want_m = want
                    parsed_steps = snap_steps(outline.steps)
                    if parsed_steps != [tuple(st) for st in tmpl["steps"]]:
                        # the PARSER did not deliver the template as written (not an expansion matter): reported
                        # under its own descriptor; the expansion is then judged against the template as parsed
                        k = [a != tuple(b) for a, b in zip(parsed_steps, tmpl["steps"])].index(True)
                        fld = ["keyword", "name", "doc-string", "table"][[x != y for x, y in
                                                                          zip(parsed_steps[k], tmpl["steps"][k])].index(True)]
                        layout = ("doc-string-after-table" if k in tmpl.get("table_first", ()) else
                                  "doc-string-before-table" if (tmpl["steps"][k][2] is not None and
                                                                tmpl["steps"][k][3] is not None) else "single-decoration")
                        v.append(({"subcheck": "template-parse", "clause": "step-not-parsed-as-written", "field": fld,
                                   "layout": layout},
                                  "template step #%d parsed as %r, written as %r" % (k + 1, parsed_steps[k],
                                                                                      tuple(tmpl["steps"][k]))))
                        want_m = ref_expand(dict(tmpl, steps=parsed_steps), blocks, schema)
                    if outline.line != lines["outline"] or [e.line for e in outline.examples] != lines["examples"]:
                        v.append((dict(base, clause="entity-lines"),
                                  "outline/examples lines %r %r, rendered at %r %r"
                                  % (outline.line, [e.line for e in outline.examples], lines["outline"],
                                     lines["examples"])))
                else:
                    outline, row_lines = build_outline(tmpl, blocks)
                    feature = None
                    want_m = want
                before = snap_template(outline)
                scenarios = list(outline.scenarios)
            except Exception as e:
                v.append((dict(base, clause="raises", exc=type(e).__name__),
                          "%s outline %r: %s: %s" % (mode, case, type(e).__name__, e)))
                obs.append((mode, "exc", type(e).__name__))
                continue
            obs.append((mode, [sorted(snap_scenario(s).items()) for s in scenarios]))
            v_exp = compare_expansion(scenarios, want_m, row_lines, outline, base, "%s outline" % mode)
            if v_exp and want_alt is not None and want_m is want and \
                    not compare_expansion(scenarios, want_alt, row_lines, outline, base, "%s outline" % mode):
                v_exp = []          # the other numbering of examples.index (table-less sections not counted)
                want_m = want_alt
            v += v_exp
            template_ok = snap_template(outline) == before
            if template_ok:
                # ... and the TEMPLATE's tables (steps, backgrounds, examples) still read consistently
                ttables = [st_.table for st_ in outline.steps if st_.table is not None]
                if outline.background is not None:
                    ttables += [st_.table for st_ in outline.background.all_steps if st_.table is not None]
                ttables += [e.table for e in outline.examples if e.table is not None]
                for tt in ttables:
                    d = table_read_api_diff(tt)
                    if d:
                        v.append((dict(base, clause="template-table-read-api", api=d[0]),
                                  "%s outline: template table %r after expansion: %s" % (mode, tt, d[1])))
                        break
            if not template_ok:
                v.append((dict(base, clause="template-changed-by-expansion"),
                          "%s outline: template before expansion %r, after %r" % (mode, before, snap_template(outline))))
            # reading again without a modification gives the same scenarios
            again = list(outline.scenarios)
            if [snap_scenario(s) for s in again] != [snap_scenario(s) for s in scenarios]:
                v.append((dict(base, clause="second-read-differs"), "%s outline: second read differs" % mode))
            if mode == "parsed" and do_run:
                failed, calls = run_feature(feature)
                n += 1
                ran = list(outline.scenarios)
                after_run = snap_template(outline)
                if template_ok and after_run != before:
                    v.append((dict(base, clause="template-changed-by-run"),
                              "template before %r, after the run %r" % (before, after_run)))
                if not v_exp:
                    v += compare_expansion(ran, want_m, row_lines, outline, dict(base, clause_when="after-run"),
                                           "parsed outline after a run", read_api=False)
                st = [s.status.name for s in ran]
                if failed or any(x != "passed" for x in st) or calls != nsteps * len(want):
                    v.append((dict(base, clause="run-of-generated-scenarios"),
                              "run failed=%r, statuses %r, %d step calls for %d rows" % (failed, st, calls, len(want))))
                obs.append(("run", failed, st, calls))
            elif mode == "api":
                # rows never influence each other: the one-row outline gives the same scenario content
                # (differential, reported only where the comparison with the reference found nothing)
                for k, w in enumerate(want):
                    b = blocks[w["bi"]]
                    single = dict(b, rows=[b["rows"][w["ri"]]])
                    o1, _ = build_outline(tmpl, [single])
                    n += 1
                    one = list(o1.scenarios)
                    if v_exp or k >= len(scenarios) or special:     # special placeholders depend on the row's position
                        break
                    if len(one) != 1:
                        v.append((dict(base, clause="row-independence", field="count"),
                                  "one-row outline gives %d scenarios" % len(one)))
                        break
                    g1, gk = snap_scenario(one[0]), snap_scenario(scenarios[k])
                    if g1["steps"] != gk["steps"] or g1["tags"] != gk["tags"] or \
                            (schema_id == 2 and g1["name"] != gk["name"]):
                        v.append((dict(base, clause="row-independence", field="content"),
                                  "row %d.%d expanded alone gives %r, inside the full table %r"
                                  % (w["bi"] + 1, w["ri"] + 1, g1, gk)))
                        break
                # aliasing: scribbling on one generated scenario touches neither the others nor the template
                if scenarios and template_ok:
                    others = [snap_scenario(s) for s in scenarios[1:]]
                    s0 = scenarios[0]
                    for st_ in s0.steps:
                        st_.name = u"SCRIBBLE"
                        if st_.table is not None:
                            st_.table.headings[0] = u"SCRIBBLE"
                            for r in st_.table.rows:
                                r.cells[0] = u"SCRIBBLE"
                    s0.tags.append(u"SCRIBBLE")
                    if snap_template(outline) != before:
                        v.append((dict(base, clause="generated-scenario-shares-state-with-template"),
                                  "editing generated scenario #1 changed the template: %r" % (snap_template(outline),)))
                    elif [snap_scenario(s) for s in scenarios[1:]] != others:
                        v.append((dict(base, clause="generated-scenarios-share-state"),
                                  "editing generated scenario #1 changed another generated scenario"))
    finally:
        _restore_globals()
    nrows = len(want)
    nt = case if (nrows and mask) else None
    out = digest([(w["name"], w["tags"], w["steps"]) for w in want])
    return {"v": _merge_modes(per_mode), "nt": nt, "out": out, "dg": obs, "n": n}


# =============================================================================
# E4 enumeration
# =============================================================================
SHAPES = [()] + [(r,) for r in range(3)] + [(r1, r2) for r1 in range(3) for r2 in range(3)]
SHAPES.sort(key=lambda s: (sum(s), len(s), s))


def slots(shape):
    """deviation slots of a shape: [(slot, options)]"""
    out = []
    for bi, nr in enumerate(shape):
        out.append((("order", bi), (1,)))
        out.append((("tagged", bi), (1, 2, 3)))
        out.append((("bname", bi), (1, 2, 3, 4)))
        for ri in range(nr):
            for ci in range(2):
                out.append((("cell", bi, ri, ci), VALUES[1:]))
    out.append((("schema",), (1, 2)))
    out.append((("special",), (1,)))
    out.append((("combo",), (1, 2, 3)))
    out.append((("bg",), (1, 2) + tuple(range(3, 12))))
    out.append((("delim",), (1, 2, 3, 4, 5, 6)))
    out.append((("tl",), tuple(range(1, 10))))
    return out


def apply_devs(shape, devs):
    blocks = [[0, 0, [[VALUES[0], VALUES[0]] for _ in range(nr)], 0] for nr in shape]
    schema = special = combo = bg = delim = tl = 0
    for slot, val in devs:
        if slot[0] == "order":
            blocks[slot[1]][0] = val
        elif slot[0] == "tagged":
            blocks[slot[1]][1] = val
        elif slot[0] == "cell":
            blocks[slot[1]][2][slot[2]][slot[3]] = val
        elif slot[0] == "bname":
            blocks[slot[1]][3] = val
        elif slot[0] == "special":
            special = val
        elif slot[0] == "combo":
            combo = val
        elif slot[0] == "bg":
            bg = val
        elif slot[0] == "delim":
            delim = val
        elif slot[0] == "tl":
            tl = val
        else:
            schema = val
    return tuple((o, t, tuple(tuple(r) for r in rows), bn) for o, t, rows, bn in blocks), schema, special, combo, bg, delim, tl


BG_FEW = (1, 2, 5, 9, 10)      # feature bg parametrised / plain; in a rule: (absent, param), (param, absent), (param, plain)


def deviations(shape, k, few_bg=False):
    """all assignments with exactly k deviating slots"""
    sl = slots(shape)
    if few_bg:
        sl = [(slot, tuple(o for o in opts if o in BG_FEW) if slot == ("bg",) else
               tuple(o for o in opts if o in (1, 5, 9)) if slot == ("tl",) else
               tuple(o for o in opts if o in (1, 3, 6)) if slot == ("delim",) else opts) for slot, opts in sl]
    for combo in itertools.combinations(range(len(sl)), k):
        for vals in itertools.product(*[sl[i][1] for i in combo]):
            yield [(sl[i][0], v) for i, v in zip(combo, vals)]


FEW_MASKS = (0, NAME, STEP, DOC, THEAD, TCELL, TAG, FULL)


def _mask_independent(devs):
    """deviations whose effect does not depend on which template positions carry column placeholders"""
    return any(slot[0] in ("bname", "special", "delim", "tl") or (slot[0] == "tagged" and val > 1) or (slot[0] == "bg" and val > 2)
               for slot, val in devs)


def outline_cases(masks, maxdev, mindev=0, few_masks_for_independent=False, few_bg=False, run_all=True):
    for k in range(mindev, maxdev + 1):
        for shape in SHAPES:
            for devs in deviations(shape, k, few_bg):
                blocks, schema, special, combo, bg, delim, tl = apply_devs(shape, devs)
                use = masks
                if few_masks_for_independent and _mask_independent(devs):
                    use = [m for m in masks if m in FEW_MASKS]
                for mask in use:
                    # the real run of the parsed feature (template unchanged by running, generated scenarios pass):
                    # on every outline (thorough) / on the 8 FEW_MASKS and every combo/background outline (quick)
                    yield (mask, blocks, schema, special, combo, bg,
                           1 if (run_all or mask in FEW_MASKS or combo or bg) else 0, delim, tl)


def exhaustive_value_cases(mask, max_rows):
    for shape in SHAPES:
        if not 0 < sum(shape) <= max_rows:
            continue
        ncell = 2 * sum(shape)
        for vals in itertools.product(VALUES, repeat=ncell):
            for orders in itertools.product((0, 1), repeat=len(shape)):
                for tagged in itertools.product((0, 1, 2, 3) if len(shape) == 1 else (0, 3), repeat=len(shape)):
                    for bn in ((0, 1) if len(shape) == 1 else (0,)):
                        it = iter(vals)
                        blocks = tuple((orders[bi], tagged[bi], tuple((next(it), next(it)) for _ in range(nr)), bn)
                                       for bi, nr in enumerate(shape))
                        for schema in range(3):
                            yield (mask, blocks, schema, bn)


# =============================================================================
# E2: table-edit histories
# =============================================================================
STARTS = (
    (),                                                       # outline without examples
    ((0, 0, ((u"x", u"\xfc"),)),),                             # one block (a,b), one row
    ((0, 3, ((u"x", u"b"), (u"", u"x y")), 1), (1, 2, ())),       # two blocks (tags e<a> e<zz> / dir/x e+1!), second (b,a), empty
    # Examples sections WITHOUT a table: operations reach a block before and a block after one; and one comes first
    ((0, 0, ((u"x", u"\xfc"),)), ("notable", u"no table", 1), (1, 0, ((u"b", u"x"), (u"x y", u"")))),
    (("notable", u"", 0), (0, 0, ((u"x", u"b"),))),
)
ROW_PATTERNS = ({u"a": u"x", u"b": u"x", u"c": u"x"}, {u"a": u"\xfc", u"b": u"b", u"c": u"x y"})
APPEND_KINDS = (([u"a", u"b"], [[u"x", u"\xfc"]]), ([u"b", u"a"], []))
MAX_BLOCKS = 2


ADD_COL_KINDS = ("none", "list_full", "list_short", "list_empty", "tuple_full", "tuple_short", "gen_short")
ADD_ROW_KINDS = ("list", "tuple", "row")
BASE_ADD_COL = (("none", 0), ("list_short", 1))


# annotation schemas of the history searches: default, one using {examples.name}/{row.index}, one without any row
# placeholder (all rows of an outline then share one name)
H_SCHEMAS = (None, u"{name} :: {examples.name} #{row.index}", u"{name}")
RESET_KINDS = ("outline", "feature", "model")


def is_variant(op, reset_is_base=False):
    """operations outside the base alphabet; a history may hold only a bounded number of them (deviation bound).
    The reset operations are variants in the default-schema search and base operations in the (shallower)
    non-default-schema searches, which in turn exclude the other variants"""
    k = op[0]
    if k == "reset":
        return not reset_is_base
    if k == "add_row":
        return op[3] != "list"
    if k == "add_col":
        return (op[3], op[4]) not in BASE_ADD_COL
    if k == "rm_col":
        return op[2] == u"b"
    return k == "rm_col_idx"


def applicable_ops(model):
    ops = [("read",), ("run",)] + [("reset", kind) for kind in RESET_KINDS]
    for bi, b in enumerate(model):
        if b.get("notable"):
            continue                        # no table, no table API
        for pat in range(len(ROW_PATTERNS)):
            for kind in ADD_ROW_KINDS:
                ops.append(("add_row", bi, pat, kind))
        for name in (u"c", u"a"):
            if name not in b["headings"]:
                for vk in ADD_COL_KINDS:
                    for dflt in (0, 1):
                        ops.append(("add_col", bi, name, vk, dflt))
        for name in (u"a", u"c", u"b"):
            if name in b["headings"]:
                ops.append(("rm_col", bi, name))          # first / last / only column, by name
        if b["headings"]:
            ops.append(("rm_col_idx", bi, "first"))       # ... and by index
            if len(b["headings"]) > 1:
                ops.append(("rm_col_idx", bi, "last"))
    if len([b for b in model if not b.get("notable")]) < MAX_BLOCKS:
        for kind in range(len(APPEND_KINDS)):
            ops.append(("append", kind))
    return ops


def add_col_values(kind, nrows):
    """the `values` argument of Table.add_column (None = not given) and, for the model, the values it stands for"""
    full = [u"q%d" % (i + 1) for i in range(nrows)]
    if kind == "none":
        return None, []
    if kind == "list_full":
        return list(full), full
    if kind == "list_short":
        return [u"q1"], [u"q1"]
    if kind == "list_empty":
        return [], []
    if kind == "tuple_full":
        return tuple(full), full
    if kind == "tuple_short":
        return (u"q1",), [u"q1"]
    if kind == "gen_short":
        return (x for x in [u"q1"]), [u"q1"]
    raise ValueError(kind)


def model_apply(model, op):
    """reference model of the examples tables (documented Table API): list of dict(name, tags, headings, rows)"""
    k = op[0]
    if k in ("read", "run", "reset"):
        return
    if k == "add_row":
        b = model[op[1]]
        b["rows"].append([ROW_PATTERNS[op[2]][h] for h in b["headings"]])
        if op[3] == "tuple":
            b["tuple_row"] = True
    elif k == "add_col":
        # "values are extended with default_value if the values list is smaller than the number of table rows"
        b = model[op[1]]
        _, vals = add_col_values(op[3], len(b["rows"]))
        default = u"d" if op[4] else u""
        b["headings"].append(op[2])
        for i, r in enumerate(b["rows"]):
            r.append(vals[i] if i < len(vals) else default)
    elif k in ("rm_col", "rm_col_idx"):
        b = model[op[1]]
        if k == "rm_col":
            i = b["headings"].index(op[2])
        else:
            i = 0 if op[2] == "first" else len(b["headings"]) - 1
        del b["headings"][i]
        for r in b["rows"]:
            del r[i]
    elif k == "append":
        heads, rows = APPEND_KINDS[op[1]]
        model.append({"name": u"added", "tags": [u"e9", u"x/<b>"], "headings": list(heads),
                      "rows": [list(r) for r in rows]})


def real_apply(feature, outline, model_before, op):
    from behave.model import Row
    k = op[0]
    if k == "read":
        return list(outline.scenarios)
    if k == "run":
        return run_feature(feature)
    if k == "reset":
        if op[1] == "outline":
            outline.reset()
        elif op[1] == "feature":
            feature.reset()
        else:
            from behave.model import reset_model
            reset_model([feature])
        return
    if k == "add_row":
        t = outline.examples[op[1]].table
        cells = [ROW_PATTERNS[op[2]][h] for h in model_before[op[1]]["headings"]]
        if op[3] == "tuple":
            t.add_row(tuple(cells))
        elif op[3] == "row":
            t.add_row(Row(list(model_before[op[1]]["headings"]), cells))
        else:
            t.add_row(cells)
    elif k == "add_col":
        t = outline.examples[op[1]].table
        values, _ = add_col_values(op[3], len(model_before[op[1]]["rows"]))
        kw = {}
        if values is not None:
            kw["values"] = values
        if op[4]:
            kw["default_value"] = u"d"
        t.add_column(op[2], **kw)
    elif k == "rm_col":
        outline.examples[op[1]].table.remove_column(op[2])
    elif k == "rm_col_idx":
        n = len(model_before[op[1]]["headings"])
        outline.examples[op[1]].table.remove_column(0 if op[2] == "first" else n - 1)
    elif k == "append":
        heads, rows = APPEND_KINDS[op[1]]
        line = 100 + 10 * len(outline.examples)
        outline.examples.append(make_examples({"name": u"added", "tags": [u"e9", u"x/<b>"], "headings": heads,
                                               "rows": rows}, line, len(outline.examples)))


def canonical(outline):
    tables = tuple((e.name, tuple(e.tags), None) if e.table is None else
                   (e.name, tuple(e.tags), tuple(e.table.headings),
                    tuple((type(r.cells).__name__, tuple(r.cells), r.line) for r in e.table.rows), e.table.line,
                    bool(e.table.modified))
                   for e in outline.examples)
    cache = tuple((s.name, tuple(s.tags), digest(snap_steps(s.steps)), s.line) for s in outline._scenarios)
    return digest((tables, cache))


def _op_class(op):
    """trigger class of an operation for descriptors: the call form, not the concrete block/values"""
    if op[0] == "add_col":
        return "add_column(values=%s)" % op[3]       # type and length class of `values`; default_value is not part
    if op[0] == "add_row":
        return "add_row(%s)" % op[3]
    if op[0] == "rm_col_idx":
        return "remove_column(int)"
    if op[0] == "rm_col":
        return "remove_column(name)"
    if op[0] == "reset":
        return "reset"          # outline.reset / feature.reset / reset_model: one operation class
    return op[0]


@quiet
def check_history(case):
    """case = (start_id, ops[, schema_id]); replays the history on a freshly parsed outline, then judges the final
    state under the CURRENT annotation schema"""
    start, ops = case[:2]
    schema = H_SCHEMAS[case[2]] if len(case) > 2 else None
    tmpl = template(FULL, cols="abc")
    model = [block_model(b, i) for i, b in enumerate(STARTS[start])]
    _reset_globals(schema)
    v = []
    base = {"subcheck": "history"}
    try:
        feature, outline, lines, text = parse_outline(tmpl, model)
        tmpl_before = snap_template(outline)[:3]
        last = ops[-1][0] if ops else "start"
        stale_possible = False
        seen_read = False
        try:
            for i, op in enumerate(ops):
                before = [dict(b, headings=list(b["headings"]), rows=list(b["rows"])) for b in model]
                real_apply(feature, outline, before, op)
                model_apply(model, op)
                if op[0] in ("read", "run"):
                    seen_read = True
                elif seen_read:
                    stale_possible = True
        except Exception as e:
            if op[0] in ("add_col", "rm_col", "rm_col_idx") and model[op[1]].get("tuple_row"):
                # a row added as a TUPLE of cells cannot be edited column-wise; neither the statement nor the API
                # documentation says which argument types add_row takes, so this outcome is accepted (no successors)
                return {"v": [], "dg": ("tuple-row", type(e).__name__), "out": "column-edit-after-tuple-row-raises",
                        "keep": (case, None, ())}
            v.append((dict(base, clause="operation-raises", op=_op_class(op), exc=type(e).__name__),
                      "history %r: %r raised %s: %s" % (ops, op, type(e).__name__, e)))
            return {"v": v, "dg": ("exc", type(e).__name__), "out": "exc", "keep": (case, None, ())}
        canon = canonical(outline)            # before the judging read below (which is not part of the history)
        if ops and ops[-1][0] == "reset":
            # after a reset nothing that was generated before carries a run status any more
            stale = [(u"%s" % sc.name, sc.status.name) for sc in outline._scenarios if sc.status.name != "untested"]
            stale += [(u"%s" % st_.name, st_.status.name) for sc in outline._scenarios for st_ in sc.all_steps
                      if st_.status.name != "untested"]
            if stale:
                v.append((dict(base, clause="status-after-reset", op=_op_class(ops[-1])),
                          "history %r: after the reset these generated scenarios/steps still carry a status: %r"
                          % (ops, stale[:4])))
        # tables as the API left them vs the reference table model
        real_tables = [([], []) if e.table is None else
                       (list(e.table.headings), [list(r.cells) for r in e.table.rows]) for e in outline.examples]
        want_tables = [(b["headings"], b["rows"]) for b in model]
        if real_tables != want_tables:
            # the table API itself left something else than documented: one descriptor (the operation's call form);
            # the state is not explored further (every extension would only repeat this finding under other names)
            v.append((dict(base, clause="table-api", op=_op_class(ops[-1]) if ops else "start"),
                      "history %r: tables are %r, reference model (documented Table API) says %r"
                      % (ops, real_tables, want_tables)))
            return {"v": v, "dg": ("tables", real_tables), "out": "table-api-mismatch", "keep": (case, None, ()),
                    "st": {"transitions": 1 if ops else 0, "traces": 1}}
        for bi, e in enumerate(outline.examples):        # the examples tables through every read API
            d = None if e.table is None or any(not isinstance(r.cells, list) for r in e.table.rows) else table_read_api_diff(e.table)
            if d:
                v.append((dict(base, clause="examples-table-read-api", api=d[0],
                               op=_op_class(ops[-1]) if ops else "start"),
                          "history %r: examples table %d: %s" % (ops, bi + 1, d[1])))
                return {"v": v, "dg": ("tables-api", d[0]), "out": "examples-table-read-api",
                        "keep": (case, None, ()), "st": {"transitions": 1 if ops else 0, "traces": 1}}
        row_lines = [[] if e.table is None else [r.line for r in e.table.rows] for e in outline.examples]
        for bi, rl in enumerate(lines["rows"]):          # parsed rows keep the rendered line
            if row_lines[bi][:len(rl)] != rl:
                v.append((dict(base, clause="parsed-row-lines"), "rows of block %d at %r, rendered at %r"
                          % (bi + 1, row_lines[bi], rl)))
        want = ref_expand(tmpl, model, schema)
        try:
            scenarios = list(outline.scenarios)
        except Exception as e:
            v.append((dict(base, clause="scenarios-raises", after=last, exc=type(e).__name__),
                      "history %r: reading .scenarios raised %s: %s" % (ops, type(e).__name__, e)))
            return {"v": v, "dg": ("exc", type(e).__name__), "out": "exc", "keep": (case, canon, ())}
        edits = [_op_class(op) for op in ops if op[0] not in ("read", "run")]
        hist_base = dict(base, last_edit=edits[-1] if edits else "none")
        if schema is not None:
            hist_base["schema"] = "non-default"
        v_exp = compare_expansion(scenarios, want, row_lines, outline, base, "history %r" % (ops,))
        if v_exp and any(b.get("notable") for b in model):
            want2 = ref_expand(tmpl, model, schema, count_tableless=False)
            if not compare_expansion(scenarios, want2, row_lines, outline, base, "history %r" % (ops,)):
                v_exp = []          # the other numbering of examples.index (table-less sections not counted)
        if v_exp:
            # is this the expansion itself (a freshly built outline over the same tables is wrong in the same way)
            # or the history (stale cache, table API)?  One defect -> one descriptor.
            fresh, fresh_lines = build_outline(tmpl, model)
            v_fresh = compare_expansion(list(fresh.scenarios), want, fresh_lines, fresh,
                                        {"subcheck": "expansion", "built": "both"}, "fresh outline over the tables "
                                        "reached by history %r" % (ops,))
            if v_fresh:
                v += v_fresh
            else:
                d, msg = v_exp[0]
                v.append((dict(hist_base, clause="expansion-is-not-that-of-the-current-tables"),
                          msg + " [a freshly built outline over the same tables expands correctly]"))
        if snap_template(outline)[:3] != tmpl_before:
            v.append(({"subcheck": "expansion", "built": "both", "clause": "template-changed-by-expansion"},
                      "history %r: template %r, was %r" % (ops, snap_template(outline)[:3], tmpl_before)))
    finally:
        _restore_globals()
    obs = [sorted(snap_scenario(s).items()) for s in scenarios]
    return {"v": v, "dg": (canon, obs), "out": digest(obs),
            "nt": case if stale_possible else None,
            "st": {"transitions": 1 if ops else 0, "traces": 1},
            "keep": (case, canon, tuple(applicable_ops(model)))}


# =============================================================================
# E2b: failed-build histories (a (re)build that raises part-way, repaired outside the table API)
# =============================================================================
BAD_SCHEMA = u"{name} -- @{row.nr} {examples.name}"        # unknown field -> AttributeError while naming a row
FB_ROWS = ((u"x", u"\xfc"), (u"b", u"x y"), (u"", u"x"))


def failed_build_cases(max_rows):
    """(shape, prior_read, pre_edit, fault): small outlines x {first build, rebuild after add_row / add_column} x
    every fault site.  fault = ("schema",) - raises at the first row that is rendered - or ("cell", block, row) - a
    non-text cell brought in through Table.add_column at exactly that row"""
    shapes = [(r,) for r in range(1, max_rows + 1)]
    shapes += [(r1, r2) for r1 in range(0, max_rows + 1) for r2 in range(0, max_rows + 1) if r1 + r2]
    for shape in shapes:
        nb = len(shape)
        pre_edits = [None] + [("add_row", j) for j in range(nb)] + [("add_col", j) for j in range(nb)]
        for prior_read in (False, True):
            for pre in pre_edits:
                if not (prior_read and pre is None):        # nothing modified -> no rebuild -> no fault
                    yield (shape, prior_read, pre, ("schema",))
                if pre is not None and pre[0] == "add_col":
                    continue                                 # the cell fault is itself an add_column
                for k in range(nb):
                    nrows = shape[k] + (1 if pre == ("add_row", k) else 0)
                    for r in range(nrows):
                        yield (shape, prior_read, pre, ("cell", k, r))


RESET_POSITIONS = (None, "after-prior-read", "after-failed-build", "after-repair")


def failed_build_cases_with_resets(max_rows):
    """... x annotation schema {default, 2 non-default} x a reset (outline / feature / reset_model) at every position"""
    for base in failed_build_cases(max_rows):
        for sid in range(len(H_SCHEMAS)):
            for pi, pos in enumerate(RESET_POSITIONS):
                if pos == "after-prior-read" and not base[1]:
                    continue
                yield base + (sid, pos, RESET_KINDS[(pi + sid) % 3])


@quiet
def check_failed_build(case):
    shape, prior_read, pre, fault = case[:4]
    sid, reset_pos, reset_kind = case[4:] if len(case) > 4 else (0, None, None)
    cur_schema = H_SCHEMAS[sid]

    reset_exc = []

    def maybe_reset(pos, feature, outline):
        if pos == reset_pos:
            try:
                real_apply(feature, outline, None, ("reset", reset_kind))
            except Exception as e:          # a reset clears run information; it is not a build and must not fail
                reset_exc.append("%s: %s" % (type(e).__name__, e))
    tmpl = template(FULL, cols="abc")
    model = [{"name": [u"E-<a>", u"Two"][bi], "tags": [[u"e1"], []][bi], "headings": [[u"a", u"b"], [u"b", u"a"]][bi],
              "rows": [list(FB_ROWS[ri]) for ri in range(n)]} for bi, n in enumerate(shape)]
    phase = "rebuild" if prior_read else "first-build"
    base = {"subcheck": "failed-build", "phase": phase}
    what = "outline %r, %s%s, fault %r%s%s" % (shape, phase, " after %s(block %d)" % pre if pre else "", fault,
                                                ", schema #%d" % sid if sid else "",
                                                ", reset(%s) %s" % (reset_kind, reset_pos) if reset_pos else "")
    v = []
    _reset_globals(cur_schema)
    try:
        feature, outline, lines, text = parse_outline(tmpl, model)
        if prior_read:
            list(outline.scenarios)
            maybe_reset("after-prior-read", feature, outline)
        if pre is not None:
            t = outline.examples[pre[1]].table
            if pre[0] == "add_row":
                cells = [ROW_PATTERNS[1][h] for h in model[pre[1]]["headings"]]
                t.add_row(list(cells))
                model[pre[1]]["rows"].append(list(cells))
            else:
                t.add_column(u"c", default_value=u"d")
                model[pre[1]]["headings"].append(u"c")
                for r in model[pre[1]]["rows"]:
                    r.append(u"d")
        # ---- inject the fault
        if fault[0] == "schema":
            outline.annotation_schema = BAD_SCHEMA
        else:
            _, k, r = fault
            n = len(model[k]["rows"])
            outline.examples[k].table.add_column(u"c", values=[42 if i == r else u"q%d" % i for i in range(n)])
            model[k]["headings"].append(u"c")
            for i, row in enumerate(model[k]["rows"]):
                row.append(u"fixed" if i == r else u"q%d" % i)
        raised = None
        try:
            list(outline.scenarios)
        except Exception as e:
            raised = type(e).__name__
        maybe_reset("after-failed-build", feature, outline)
        # ---- repair the cause OUTSIDE the table API (no new modified flag)
        if fault[0] == "schema":
            outline.annotation_schema = cur_schema or DEFAULT_SCHEMA
        else:
            outline.examples[fault[1]].table.rows[fault[2]].cells[-1] = u"fixed"
        maybe_reset("after-repair", feature, outline)
        # ---- the oracle: a freshly parsed outline over the same (repaired) tables
        ffeature, fresh, flines, ftext = parse_outline(tmpl, model)
        want = [(g["name"], g["tags"], g["steps"]) for g in map(snap_scenario, fresh.scenarios)]
        try:
            got = [(g["name"], g["tags"], g["steps"]) for g in map(snap_scenario, outline.scenarios)]
            again = [(g["name"], g["tags"], g["steps"]) for g in map(snap_scenario, outline.scenarios)]
        except Exception as e:
            v.append((dict(base, clause="read-after-repair-raises", exc=type(e).__name__),
                      "%s: build raised %s, cause repaired, reading .scenarios raised %s: %s"
                      % (what, raised, type(e).__name__, e)))
            return {"v": v, "dg": ("exc", raised, type(e).__name__), "out": ("fb", "exc"), "n": 3}
        if reset_exc:
            v.append((dict(base, clause="reset-raises", position=reset_pos),
                      "%s: the reset raised %s" % (what, reset_exc[0])))
        if raised is not None and got != want:
            k = len(got)
            for i, (g, w) in enumerate(zip(got, want)):
                if g != w:
                    k = i
                    break
            v.append((dict(base, clause="expansion-after-repaired-build-failure-differs-from-fresh-outline"),
                      "%s: the (re)build raised %s; after repairing the cause outside the table API .scenarios has %d "
                      "scenarios, a freshly parsed outline over the same tables has %d; first difference at #%d: %r "
                      "vs %r" % (what, raised, len(got), len(want), k + 1, got[k] if k < len(got) else None,
                                 want[k] if k < len(want) else None)))
        elif raised is None and got != want:
            v.append((dict(base, clause="expansion-differs-from-fresh-outline", fault="did-not-raise"),
                      "%s: no exception, but .scenarios differs from a freshly parsed outline" % what))
        elif again != got:
            v.append((dict(base, clause="second-read-after-repair-differs"), "%s: second read differs" % what))
    finally:
        _restore_globals()
    return {"v": v, "dg": (raised, got), "out": ("fb", raised, len(got)), "n": 3,
            "nt": ("fb", case) if raised is not None else None,
            "st": {"transitions": 2 + bool(prior_read) + bool(pre), "traces": 1}}


def allowed(history_ops, bounds, reset_is_base=False):
    """deviation bound of the history search: bounds = {number of variant operations: maximal history length}"""
    nvar = sum(1 for op in history_ops if is_variant(op, reset_is_base))
    return nvar in bounds and len(history_ops) <= bounds[nvar], nvar


def bfs(ctx, bounds, dedup, label, schema_id=0, starts=None):
    """one sweep per depth level; a state is (canonical digest, number of variant operations used so far) - the
    second component is the remaining deviation budget, which also determines the futures explored"""
    depth = max(bounds.values())
    rb = schema_id != 0
    frontier = [(s, (), schema_id) for s in (range(len(STARTS)) if starts is None else starts)]
    seen = {}
    per_depth = []
    for d in range(depth + 1):
        kept = ctx.sweep(check_history, frontier, chunk=32, keep=True, name="%s depth %d" % (label, d))
        kept.sort(key=lambda k: (k[0][0], len(k[0][1]), repr(k[0][1])))
        nxt = []
        new = 0
        for case, canon, ops in kept:
            if canon is None:
                continue
            key = (canon, allowed(case[1], bounds, rb)[1])
            if key in seen:
                if dedup:
                    continue
            else:
                seen[key] = case
                new += 1
            for op in ops:
                h = case[1] + (op,)
                if allowed(h, bounds, rb)[0]:
                    nxt.append((case[0], h, schema_id))
        per_depth.append({"depth": d, "histories": len(frontier), "new_states": new})
        frontier = nxt
    return seen, per_depth


def run(ctx):
    init_worker()
    if ctx.quick:
        plan = [("all masks, <=1 deviation", outline_cases(range(64), 1, 0, True, False, False)),
                ("full mask, 2 deviations", outline_cases((FULL,), 2, 2, False, True, True))]
        bounds, nd_bounds = {0: 4, 1: 3}, None
    else:
        plan = [("all masks, <=2 deviations", outline_cases(range(64), 2)),
                ("full mask, 3 deviations", outline_cases((FULL,), 3, 3)),
                ("full mask, all values on <=2 rows", exhaustive_value_cases(FULL, 2))]
        bounds, nd_bounds = {0: 6, 1: 4, 2: 3}, {0: 4, 1: 3, 2: 2}
    ctx.bounds = {"placeholder_position_masks": 64, "shapes": len(SHAPES), "values": list(VALUES),
                  "deviations": [p[0] for p in plan],
                  "history_depth_by_number_of_variant_operations": {str(k): v for k, v in bounds.items()},
                  "history_depth_without_dedup": nd_bounds and {str(k): v for k, v in nd_bounds.items()},
                  "history_depth_non_default_schemas": 3 if ctx.quick else 4,
                  "start_outlines": len(STARTS)}
    for name, cases in plan:
        ctx.sweep(check_outline, cases, chunk=64, name=name)
    n_outlines = len(ctx.nt)
    fb_cases = list(failed_build_cases_with_resets(2 if ctx.quick else 3))
    ctx.sweep(check_failed_build, fb_cases, chunk=16, name="failed-build histories")
    n_fb = len(ctx.nt) - n_outlines
    ctx.guard(n_fb >= 0.9 * len(fb_cases), "the injected faults make the (re)build raise (%d of %d)"
              % (n_fb, len(fb_cases)))
    n_outlines = len(ctx.nt)
    # the three original start outlines to the full bounds; the two start outlines with a table-less Examples section
    # (three blocks, hence a wider alphabet) one level less deep in the quick tier
    seen, per_depth = bfs(ctx, bounds, True, "histories", 0, (0, 1, 2))
    tl_bounds = dict((k, v - 1) for k, v in bounds.items()) if ctx.quick else bounds
    seen_tl, per_tl = bfs(ctx, tl_bounds, True, "histories, table-less section", 0, (3, 4))
    ctx.note("bfs_levels_tableless_starts", per_tl)
    nstates = len(seen) + len(seen_tl)
    # the same search under the two non-default annotation schemas: base alphabet + the three reset operations
    sdepth = 3 if ctx.quick else 4
    for sid in (1, 2):
        seen_s, per_s = bfs(ctx, {0: sdepth}, True, "histories, schema %d" % sid, sid)
        nstates += len(seen_s)
        ctx.note("bfs_levels_schema_%d" % sid, per_s)
    ctx.st.update({"states": nstates})
    ctx.note("bfs_levels", per_depth)
    ctx.note("max_depth", max(bounds.values()))
    ctx.note("frontier_exhausted", False)
    if nd_bounds is not None:
        seen2, per2 = bfs(ctx, nd_bounds, False, "histories without dedup", 0, (0, 1, 2))
        ctx.note("bfs_levels_without_dedup", per2)
        # states reachable within the smaller bounds: the deduplicating search must have found exactly the same
        reach = set(k for k, case in seen.items() if k[1] in nd_bounds and len(case[1]) <= nd_bounds[k[1]])
        ctx.guard(set(seen2) == reach,
                  "dedup abstraction: the search without deduplication reaches the same canonical states within %r "
                  "(%d vs %d)" % (nd_bounds, len(seen2), len(reach)))
    ctx.guard(n_outlines > (5000 if ctx.quick else 100000), "enough distinct non-trivial outlines (%d)" % n_outlines)
    ctx.guard(len(seen) > 500, "enough canonical states in the history search (%d)" % len(seen))
    ctx.guard(len(ctx.nt) - n_outlines > 1000, "enough histories with an edit after a read/run")
