# -*- coding: utf-8 -*-
"""C16 - JUnit reports: well-formed XML, counters that match the test cases (E1 + E4).

Four sweeps, one oracle (check_reports):

1. runs      the C01 run enumeration (vlib.runcases: shapes x outcome deviations x configurations, every single hook
             fault, cleanups at every layer) x show_skipped on/off, executed by the shared harness with the real
             Configuration built from `--junit --junit-directory <dir>`;
2. hostile   hand-written feature texts with ten text slots (feature / scenario / step name, tag - these travel through
             the real Gherkin parser - assertion, exception and hook-exception message, captured stdout / stderr, log
             record) x fifteen hostile atoms, every (slot, atom) single on every hostile shape, pairs on a small one;
3. switches  all 128 combinations of the seven behave.reporter.junit.* userdata booleans on three shapes;
4. addressed feature files on disk run by the real Runner x the ways of naming them on the command line.

The oracle reads every TESTS-*.xml with expat (xml.dom.minidom; never ElementTree, whose serializer the reporter
patches) and compares it with the model after the run.
"""
from __future__ import print_function
import io, os, sys, copy, glob, shutil, logging, tempfile, itertools
from xml.dom import minidom
from xml.parsers.expat import ExpatError
from vlib import prog as P, runcases, harness
from vlib.core import digest

PROPERTY = "C16"
LEVEL = "exploration"
RULE = ("Runs: the runs of C01's enumeration (feature trees x step-outcome deviations x {default,--stop,--dry-run,--wip,"
        "--tags...}, every single hook fault, raising and non-raising cleanups at every layer; two features so that "
        "never-started remainders are reported too; shape bound per tier in bound_completed), each with the JUnit "
        "reporter enabled through the real Configuration (--junit --junit-directory, --show-skipped / --no-skipped "
        "alternating) plus a second JUnitReporter on a copy of that Configuration with show_skipped flipped, so every "
        "run is reported with show_skipped on and off. Hostile text: ten slots {feature name, scenario name, step name, "
        "tag, assertion message, exception message, hook exception message, captured stdout, captured stderr, log "
        "record} x fifteen atoms {<, &, \", ]]>, ]]]]>>, U+0001, ESC[31m, ESC[1;31m, U+007F, U+0085, U+FFFE, U+1F600, "
        "e-acute, CR, TAB}: every (slot, atom) single on seven hostile shapes (mixed outcomes; outline + rule + "
        "backgrounds + doc-string/table; one raising hook of every scenario-level kind; raising cleanups; raising "
        "before_feature / after_feature / before_all) x show_skipped on/off, every pair of (slot, atom) on a small shape "
        "(quick: one atom per class). Composite atoms (the reporter's rewriting passes composed: ']]>' split at either "
        "inner position by ESC[<n>m / ESC[<n>A, by a C0 control, U+FFFE or a lone ESC; ']]&' ESC[0m 'gt;'; an ANSI escape "
        "split by a control character or by another escape; & < \" next to removed text: 18 atoms) x ten slots, single, on "
        "the hostile shapes (quick: the two shapes that hold all slots). Switches: all 128 combinations of the seven behave.reporter.junit.* userdata "
        "booleans on three shapes x show_skipped on/off. Addressing: three real feature files in a scratch directory "
        "(features/a.feature, features/sub/b.feature, other/c.feature) run by the real Runner (setup_paths sets "
        "config.base_dir, real feature collection) x 17 ways of naming them on the command line (none, directory, "
        "directories, trailing slash, explicit files in two orders, one file, file:LINE, directory + file, ./file, "
        "absolute files / directories) x 2 outcome variants x show_skipped on/off: every reported feature has exactly "
        "one document of its own and the class-name part of testsuite@name / testcase@classname is neither empty nor "
        "'None'. Process locale: 27 hostile programs (all-ASCII control; each slot singly and all ten slots at once with "
        "e-acute and U+1F600) executed in child interpreters started with an ASCII locale (LC_ALL=C, PYTHONUTF8=0, "
        "PYTHONCOERCECLOCALE=0; verified in the child) and with a UTF-8 locale as control: the oracle is applied to the "
        "bytes of the reports (expat assumes UTF-8 without declaration) and the non-ASCII text must be in the parsed "
        "documents. Configuration changed after construction: config.show_skipped flipped on the config object after the "
        "reporter was built (before the run / in before_all through context.config / before the first / between two "
        "features) x initial value x 2 shapes, three features the last of which is entirely skipped: every document "
        "reflects the value held when its feature was reported. Oracle (per reported feature): the TESTS-*.xml file exists "
        "(unless the feature is skipped and hidden) and parses with expat; its testcase entries are the feature's "
        "scenarios in order (outline rows included, skipped ones iff shown) with the final status of the Scenario object "
        "that was executed (recorded by a formatter during the run; a post-run model that holds other objects/statuses "
        "is reported as model-after-run-differs-from-execution) and the "
        "matching child class (none / failure / error / skipped); tests, failures, errors, skipped attributes equal the "
        "numbers of testcase / failure / error / skipped entries; every failed or errored scenario's failure/error entry "
        "names the first non-passing step or the raising hook; nothing escapes run(). Non-trivial = distinct run whose "
        "reports hold a failure, error or skipped entry, or that carries a hostile atom.")
ASSUMPTIONS = [
    "an option that the reporter consults on the Configuration object (show_skipped) counts with the value the object "
    "holds when a feature is reported (the statement says 'skipped ones when shown'; the unchanged reporter reads it live "
    "through a property); the behave.reporter.junit.* userdata switches and junit_directory are only exercised with "
    "values fixed before construction (the statement does not say when they are read)",
    "ModelRunner (unlike Runner) does not set config.base_dir, which JUnitReporter.make_feature_filename needs: the check "
    "sets config.base_dir = cwd, so the report of feature file fN.feature is TESTS-fN.xml",
    "XML 1.0 forbids some characters outright: hostile names are compared modulo the atom (stable prefix) unless the atom "
    "is XML-legal printable text, and message/stdout contents are not compared at all (well-formedness, not round trip)",
    "atoms on which str.splitlines() breaks (CR, U+0085) are not placed in slots that travel through the Gherkin parser, "
    "TAB is not placed inside a tag (whitespace ends a tag)",
    "an untested scenario (never-started remainder) may be reported with or without a skipped entry; a skipped scenario "
    "may additionally carry a failure entry for an undefined step (the statement is silent on both)",
    "a scenario that errored only through a raising cleanup must carry an error entry, but nothing is demanded of its text "
    "(the statement speaks of steps and hooks)",
    "durations, timestamp and hostname are not compared",
]

SHM = "/dev/shm"
SWITCHES = ("show_hostname", "show_multiline", "show_scenarios", "show_tags", "show_timings", "show_timestamp",
            "show_skipped_always")
ERRC = ("error", "hook_error", "cleanup_error", "undefined", "pending")

# ------------------------------------------------------------------ hostile alphabet
ATOMS = (
    ("lt", u"<", "xml-meta"),
    ("amp", u"&", "xml-meta"),
    ("quot", u"\"", "xml-meta"),
    ("cdend", u"]]>", "cdata-end"),
    ("cdend2", u"]]]]>>", "cdata-end"),
    ("soh", u"\x01", "c0-control"),
    ("ansi", u"\x1b[31m", "ansi-escape"),
    ("ansi2", u"\x1b[1;31m", "ansi-escape"),
    ("del", u"\x7f", "del"),
    ("nel", u"\x85", "c1-control"),
    ("fffe", u"\ufffe", "noncharacter"),
    ("astral", u"\U0001F600", "astral"),
    ("eacute", u"\xe9", "non-ascii"),
    ("cr", u"\r", "line-break"),
    ("tab", u"\t", "tab"),
)
# Composite atoms: every rewriting pass of the reporter (ANSI strip_escapes: ESC[<n>m / ESC[<n>A; invalid-character
# filter; ']]>' escape; the attribute escaping of ElementTree) composed with the others - text whose treatment by one
# pass creates (or would create, in another order of the passes) the token that another pass is looking for.
ESC = u"\x1b"
COMPOSITES = (
    ("cd_m1", u"]" + ESC + u"[31m]>", "split-cdata-end:ansi"),
    ("cd_m2", u"]]" + ESC + u"[0m>", "split-cdata-end:ansi"),
    ("cd_A1", u"]" + ESC + u"[1A]>", "split-cdata-end:ansi"),
    ("cd_A2", u"]]" + ESC + u"[2A>", "split-cdata-end:ansi"),
    ("cd_mm", u"]" + ESC + u"[1m]" + ESC + u"[0m>", "split-cdata-end:ansi"),
    ("cd_c1", u"]\x01]>", "split-cdata-end:control"),
    ("cd_c2", u"]]\x01>", "split-cdata-end:control"),
    ("cd_n2", u"]]\ufffe>", "split-cdata-end:control"),
    ("cd_e2", u"]]" + ESC + u">", "split-cdata-end:control"),
    ("cd_gt", u"]]&" + ESC + u"[0mgt;", "split-cdata-end:ansi"),
    ("ansi_c1", ESC + u"\x01[31m", "split-ansi:control"),
    ("ansi_c2", ESC + u"[3\x011m", "split-ansi:control"),
    ("ansi_in", ESC + u"[" + ESC + u"[0m31m", "split-ansi:ansi"),
    ("amp_m", u"&" + ESC + u"[0mlt;", "meta-next-to-removed"),
    ("amp_c", u"&\x01amp;", "meta-next-to-removed"),
    ("ref_m", u"&#" + ESC + u"[0m1;", "meta-next-to-removed"),
    ("lt_m", u"<" + ESC + u"[0m!--", "meta-next-to-removed"),
    ("quot_m", u"\"" + ESC + u"[0m>", "meta-next-to-removed"),
)
QUICK_COMPOSITE_SHAPES = ("mixed", "hooks")
ATOM = {a[0]: a for a in ATOMS + COMPOSITES}
QUICK_PAIR_ATOMS = ("lt", "cdend", "soh", "ansi2", "fffe", "astral")
ROUNDTRIP_CLASSES = ("xml-meta", "cdata-end", "astral", "non-ascii")
SLOTS = ("feature-name", "scenario-name", "step-name", "tag", "assertion-message", "exception-message",
         "hook-message", "stdout", "stderr", "log-record")
PARSER_SLOTS = SLOTS[:4]


def slot_atom_ok(slot, aid):
    if slot in PARSER_SLOTS and aid in ("cr", "nel"):
        return False            # str.splitlines() breaks there: would change the document's structure
    if slot == "tag" and aid == "tab":
        return False            # whitespace ends a tag
    return True


# ------------------------------------------------------------------ hostile shapes (own small renderer: templates)
# %F% feature-name atom, %S% scenario-name atom, %P% step-name atom, %T% tag atom
H_MIXED = u"""@ft%T%x
Feature: Feat a%F%b
  @st%T%x @second
  Scenario: Pass a%S%b
    Given step 1 pass a%P%b
  Scenario: Fail a%S%b
    Given step 2 pass a%P%b
    When step 3 fail a%P%b
    Then step 4 pass
  Scenario: Err a%S%b
    Given step 5 error a%P%b
  Scenario: Undef a%S%b
    Given nodef 6 a%P%b
  Scenario: Pend a%S%b
    Given step 7 pending a%P%b
  @skipme
  Scenario: Skip a%S%b
    Given step 8 pass a%P%b
  Scenario: SkipInStep a%S%b
    Given step 9 skip a%P%b
    Then nodef 10 a%P%b
"""
H_OUTLINE = u"""Feature: Feat a%F%b
  Background:
    Given step 1 pass a%P%b
  @ot%T%x
  Scenario Outline: Out a%S%b
    Given step 2 <o> a%P%b
    Examples: NoRowsYet a%S%b
      | o |
    @et%T%x
    Examples: E a%S%b
      | o |
      | pass |
      | fail |
    @skipme
    Examples: Hidden a%S%b
      | o |
      | pass |
    Examples: More
      | o |
      | error |
    Examples: NoRows a%S%b
      | o |
  Rule: R a%S%b
    Background:
      Given step 3 pass
    @rt%T%x
    Scenario: InRule a%S%b
      Given step 4 fail a%P%b
        \"\"\"
        doc a%P%b
        \"\"\"
    Scenario: Table a%S%b
      Given step 5 error a%P%b
        | col a%P%b |
        | val a%P%b |
"""
H_HOOKS = u"""Feature: Feat a%F%b
  Scenario: HookBS a%S%b
    Given step 1 pass a%P%b
  Scenario: HookAS a%S%b
    Given step 2 pass a%P%b
  Scenario: HookBStep a%S%b
    Given step 3 pass a%P%b
  Scenario: HookAStep a%S%b
    Given step 4 pass a%P%b
    Then step 5 pass
  @boombefore%T%x
  Scenario: HookBT a%S%b
    Given step 6 pass a%P%b
  @boomafter%T%x
  Scenario: HookAT a%S%b
    Given step 7 pass a%P%b
  Scenario: FailAndHookAS a%S%b
    Given step 9 fail a%P%b
  Scenario: Last a%S%b
    Given step 10 pass a%P%b
"""
H_CLEANUP = u"""Feature: Feat a%F%b
  Scenario: First a%S%b
    Given step 1 pass a%P%b
  Scenario: Cleanup a%S%b
    Given step 2 cleanup a%P%b
  Scenario: FailAndCleanup a%S%b
    Given step 3 cleanup a%P%b
    Then step 4 fail a%P%b
  Scenario: Last a%S%b
    Given step 5 pass a%P%b
"""
H_FEATHOOK = u"""@ft%T%x
Feature: Feat a%F%b
  Scenario: One a%S%b
    Given step 1 pass a%P%b
  Scenario Outline: Two a%S%b
    Given step 2 <o> a%P%b
    Examples:
      | o |
      | pass |
      | fail |
"""
H_SMALL = u"""@t%T%x
Feature: Feat a%F%b
  Scenario: FailAndHookAS a%S%b
    Given step 1 fail a%P%b
  Scenario: Err a%S%b
    Given step 2 error a%P%b
"""
# shape id -> (template, tag expression or None, feature-level hook fault or None)
HSHAPES = {
    "mixed": (H_MIXED, "not skipme", None),
    "outline": (H_OUTLINE, "not skipme", None),
    "hooks": (H_HOOKS, None, None),
    "cleanup": (H_CLEANUP, None, None),
    "before_feature": (H_FEATHOOK, None, "before_feature"),
    "after_feature": (H_FEATHOOK, None, "after_feature"),
    "before_all": (H_FEATHOOK, None, "before_all"),
    "small": (H_SMALL, None, None),
}
SINGLE_SHAPES = ("mixed", "outline", "hooks", "cleanup", "before_feature", "after_feature", "before_all")
SWITCH_SHAPES = ("mixed", "outline", "hooks")
SWITCH_ASSIGN = (("feature-name", "amp"), ("scenario-name", "lt"), ("step-name", "cdend"), ("tag", "quot"),
                 ("assertion-message", "cdend2"), ("exception-message", "eacute"), ("hook-message", "astral"),
                 ("stdout", "cdend"), ("stderr", "amp"), ("log-record", "lt"))
HOOK_NAMES = ("before_all", "after_all", "before_feature", "after_feature", "before_rule", "after_rule",
              "before_scenario", "after_scenario", "before_step", "after_step", "before_tag", "after_tag")


def render_hostile(shape, assign):
    """own small renderer: template with the four parser-slot atoms substituted"""
    a = {s: ATOM[aid][1] for s, aid in assign}
    text = HSHAPES[shape][0]
    for tok, slot in (("%F%", "feature-name"), ("%S%", "scenario-name"), ("%P%", "step-name"), ("%T%", "tag")):
        text = text.replace(tok, a.get(slot, u""))
    return text


class HostileHookError(Exception):
    pass


def run_text(texts, args, assign=(), feat_hook=None, flip=None):
    """Local variant of harness.run_case for given feature texts: real Configuration, real parser, real ModelRunner,
    fresh StepRegistry; step functions / hooks place the message- and output-slot atoms.
    Scenario names select hook faults (Hook<XX> prefix), tags boombefore*/boomafter* make the tag hooks raise.
    -> (escaped, features, config, raised hook names)"""
    m = harness._imp()
    harness.reset_globals()
    a = {s: ATOM[aid][1] for s, aid in assign}

    def mark(slot, word):
        return u"%s a%sb" % (word, a.get(slot, u""))

    root = logging.getLogger()
    saved_handlers, saved_level = list(root.handlers), root.level
    old_out, old_err = sys.stdout, sys.stderr
    sys.stdout, sys.stderr = io.StringIO(), io.StringIO()
    escaped, feats, config, raised = None, [], None, []
    rec = ExecRecorder()
    try:
        config = m["Configuration"](list(args), load_config=False)
        config.base_dir = os.getcwd()
        # flip = (when, option, value): the option is changed ON THE CONFIG OBJECT after the reporters were constructed
        # by the Configuration: when = "constructed" (before the run) | "before_all" (through context.config) |
        # ("before_feature", k) (between feature k-1 and feature k)
        if flip and flip[0] == "constructed":
            setattr(config, flip[1], flip[2])
        reg = m["StepRegistry"]()

        def make_step(kind):
            def step_impl(ctx, n, tail=None):
                print(mark("stdout", u"out %d" % n))
                sys.stderr.write(mark("stderr", u"errout %d" % n) + u"\n")
                logging.getLogger("c16").warning(mark("log-record", u"logged %d" % n))
                if kind == "fail":
                    assert False, mark("assertion-message", u"boom %d" % n)
                if kind == "error":
                    raise RuntimeError(mark("exception-message", u"err %d" % n))
                if kind == "pending":
                    raise m["StepNotImplementedError"](mark("exception-message", u"pending %d" % n))
                if kind == "skip":
                    ctx.scenario.skip()
                if kind == "cleanup":
                    def cleanup_c16():
                        raise RuntimeError(mark("exception-message", u"cleanup %d" % n))
                    ctx.add_cleanup(cleanup_c16)
            step_impl.__name__ = "step_" + kind
            return step_impl

        for kind in ("pass", "fail", "error", "pending", "skip", "cleanup"):
            f = make_step(kind)
            reg.add_step_definition("step", "step {n:d} %s" % kind, f)
            reg.add_step_definition("step", "step {n:d} %s {tail}" % kind, f)
        feats = [m["parse_feature"](t, filename="f%d.feature" % fi) for fi, t in enumerate(texts)]
        runner = m["ModelRunner"](config, feats, step_registry=reg)

        def boom(name):
            raised.append(name)
            raise HostileHookError(mark("hook-message", u"hookfault %s" % name))

        def make_hook(name):
            def hook(ctx, *args):
                print(mark("stdout", u"hookout %s" % name))
                if flip and ((name == "before_all" and flip[0] == "before_all") or
                             (name == "before_feature" and flip[0] == ("before_feature", [id(x) for x in feats].index(id(args[0]))))):
                    setattr(ctx.config, flip[1], flip[2])
                if name == feat_hook:
                    boom(name)
                if name in ("before_scenario", "after_scenario"):
                    sname = args[0].name
                    if (name == "before_scenario" and sname.startswith("HookBS ")) or \
                       (name == "after_scenario" and (sname.startswith("HookAS ") or sname.startswith("FailAndHookAS "))):
                        boom(name)
                elif name in ("before_step", "after_step"):
                    sname = ctx.scenario.name
                    if (name == "before_step" and sname.startswith("HookBStep ")) or \
                       (name == "after_step" and sname.startswith("HookAStep ") and " 4 " in args[0].name):
                        boom(name)
                elif name in ("before_tag", "after_tag"):
                    tag = str(args[0])
                    if (name == "before_tag" and tag.startswith("boombefore")) or \
                       (name == "after_tag" and tag.startswith("boomafter")):
                        boom(name)
            hook.__name__ = name
            return hook
        runner.hooks = {n: make_hook(n) for n in HOOK_NAMES}
        runner.formatters = [rec]
        try:
            runner.run()
        except BaseException as e:      # noqa - property: nothing escapes run()
            escaped = (type(e).__name__, str(e)[:200])
    finally:
        sys.stdout, sys.stderr = old_out, old_err
        root.handlers[:] = saved_handlers
        root.setLevel(saved_level)
    return escaped, feats, config, raised, rec


# ------------------------------------------------------------------ execution-time truth
class ExecRecorder(object):
    """formatter (duck-typed) that keeps the Scenario objects the runner actually executed / announced, in order.
    Their final status is the execution-time truth: walking the model after the run may meet other objects
    (ScenarioOutline.scenarios can rebuild its row scenarios) than the ones that ran."""
    name = "c16.exec"

    def __init__(self):
        self.scenarios = []
        self._uri = None

    def uri(self, uri):
        self._uri = uri

    def scenario(self, scenario):
        self.scenarios.append(scenario)

    def feature(self, feature):
        pass
    rule = background = step = match = result = feature

    def eof(self):
        pass
    close = eof


def scenario_key(s):
    return (s.location.filename, s.location.line, s.name)


def step_statuses(s):
    return tuple(x.status.name for x in s.all_steps)


def execution_truth(v, feats, rec, info):
    """info["truth"] = {feature index: the feature's scenarios with every executed one taken from the recorder};
    a post-run model whose scenario differs from the executed one is reported with its own clause"""
    executed = {}
    for s in rec.scenarios:
        executed[scenario_key(s)] = s          # a re-run (not in this check) would keep the last execution
    truth, used = {}, set()
    for fi, feature in enumerate(feats):
        lst = []
        for s in expected_scenarios(feature):
            e = executed.get(scenario_key(s))
            if e is None:
                lst.append(s)           # never announced: not selected / never started - nothing was executed
                continue
            used.add(scenario_key(s))
            if e is not s and (e.status.name != s.status.name or step_statuses(e) != step_statuses(s)):
                v.append(({"subcheck": "model", "clause": "model-after-run-differs-from-execution",
                           "executed": e.status.name, "after_run": s.status.name},
                          "scenario %r (%s:%s) finished %s %s when it was executed, but the model walked after the run "
                          "holds another object with %s %s" % (e.name, s.location.filename, s.location.line,
                                                               e.status.name, step_statuses(e), s.status.name,
                                                               step_statuses(s))))
            lst.append(e)
        truth[fi] = lst
    lost = [k for k in executed if k not in used]
    if lost:
        v.append(({"subcheck": "model", "clause": "model-after-run-differs-from-execution",
                   "executed": "+".join(sorted(set(executed[k].status.name for k in lost))), "after_run": "absent"},
                  "executed scenarios %s are not in the model walked after the run" % (lost,)))
    info["truth"] = truth
    info["n_executed"] = len(executed)


# ------------------------------------------------------------------ the oracle
def expected_scenarios(feature):
    """the feature's scenarios in document order, outline rows included"""
    from behave.model import Rule, ScenarioOutline
    out = []

    def items(cont):
        for it in cont.run_items:
            if isinstance(it, Rule):
                items(it)
            elif isinstance(it, ScenarioOutline):
                out.extend(it.scenarios)
            else:
                out.append(it)
    items(feature)
    return out


def node_text(el):
    return u"".join(n.data for n in el.childNodes if n.nodeType in (n.TEXT_NODE, n.CDATA_SECTION_NODE))


def all_text(el):
    """every attribute value and every text/CDATA node below el, as parsed by expat"""
    parts = []

    def walk(n):
        if n.nodeType == n.ELEMENT_NODE:
            parts.extend(n.attributes.item(i).value for i in range(n.attributes.length))
            for c in n.childNodes:
                walk(c)
        elif n.nodeType in (n.TEXT_NODE, n.CDATA_SECTION_NODE):
            parts.append(n.data)
    walk(el)
    return u"\n".join(parts)


def children(el, tag=None):
    return [n for n in el.childNodes if n.nodeType == n.ELEMENT_NODE and (tag is None or n.tagName == tag)]


def name_key(name, hostile):
    """identity of a scenario name modulo the hostile atom: first word (+ the outline row id)"""
    if not hostile:
        return name
    words = name.split(u" ")
    key = words[0]
    if u" -- @" in name:
        key += u" " + name.split(u" -- @", 1)[1].split(u" ")[0]
    return key


SCENARIO_HOOKS = ("before_scenario", "after_scenario", "before_tag", "after_tag")


def responsible(scenario, raised_hooks, hostile):
    """-> list of alternative needles one of which the failure/error entry must contain; [] = nothing demanded
    (the first non-passing step, the step hook that raised for it, the scenario-level hook that raised)"""
    alts = []
    for step in scenario.all_steps:
        st = step.status.name
        if st in ("failed",) + ERRC:
            alts.append(step.name.rsplit(u" a", 1)[0] if hostile else step.name)
            if st == "hook_error":
                alts += ["before_step", "after_step"]
            break
    if scenario.status.name == "hook_error":
        alts += [h for h in raised_hooks if h in SCENARIO_HOOKS] or list(SCENARIO_HOOKS)
    return alts


def trigger_class(info):
    if info.get("trigger"):
        return info["trigger"]
    return "hostile-text" if info.get("atoms") else "plain"


def check_reports(v, feats, outdir, shown_at, info, filemap=None):
    """compare every report in outdir with the model; appends violations to v; -> structural summary (for dg/out)
    filemap: {feature index: report file name} when the names are discovered (discover_reports) instead of known"""
    hostile = bool(info.get("hostile"))
    raised_hooks = info.get("raised", ())
    summary = []
    files = sorted(os.path.basename(p) for p in glob.glob(os.path.join(outdir, "*")))
    expected_files = []
    for fi, feature in enumerate(feats):
        fname = "TESTS-f%d.xml" % fi if filemap is None else filemap.get(fi, "(no document)")
        # shown_at: bool, or {feature index: value of "skipped are shown" WHEN that feature was reported}
        shown = shown_at[fi] if isinstance(shown_at, dict) else shown_at
        fstatus = feature.status.name
        present = fname in files
        if not present:
            if not (fstatus == "skipped" and not shown) and not info.get("escaped"):
                desc = {"subcheck": "report", "clause": "missing", "feature_status": fstatus, "shown": str(bool(shown))}
                if info.get("config_changed"):
                    desc["config_changed"] = info["config_changed"]
                if info.get("addressing"):      # files on disk: the trigger class is how this feature was addressed
                    desc = {"subcheck": "report", "clause": "missing", "addressing": info["addr_of"].get(fi, "?")}
                v.append((desc,
                          "no %s for feature %r (%s) with status %s (show_skipped=%s); files: %s"
                          % ("document" if filemap is not None else fname, feature.name, feature.filename, fstatus,
                             shown, files)))
            summary.append((fname, "absent"))
            continue
        expected_files.append(fname)
        with open(os.path.join(outdir, fname), "rb") as f:
            raw = f.read()
        try:
            doc = minidom.parseString(raw)
        except (ExpatError, ValueError, UnicodeError) as e:
            where, attr = locate_ill_formed(raw, e)
            if "unclosed token" in str(e) or "no element found" in str(e):
                where = "truncated-document"
            slot, aclass = blame(raw, e, attr, info)
            desc = {"subcheck": "xml", "clause": "ill-formed", "slot": slot, "atom_class": aclass,
                    "where": where, "attr": attr}
            if info.get("encoding"):
                desc["encoding"] = info["encoding"]
            v.append((desc,
                      "%s does not parse with expat: %s; offending region: %s" % (fname, e, where_text(raw, e))))
            summary.append((fname, "ill-formed"))
            continue
        suite = doc.documentElement
        info.setdefault("doc_text", []).append(all_text(suite))
        if suite.tagName != "testsuite":
            v.append(({"subcheck": "xml", "clause": "root-element", "got": suite.tagName},
                      "%s root element is %s" % (fname, suite.tagName)))
            continue
        cases = children(suite, "testcase")
        all_scenarios = info["truth"][fi] if "truth" in info else expected_scenarios(feature)
        want = [s for s in all_scenarios if s.status.name != "skipped" or shown]
        # -- test cases == the feature's scenarios, each with its final status
        got_ids = [(name_key(c.getAttribute("name"), hostile), c.getAttribute("status")) for c in cases]
        want_ids = [(name_key(s.name, hostile), s.status.name) for s in want]
        if got_ids != want_ids:
            gs, ws = [g[0] for g in got_ids], [w[0] for w in want_ids]
            if gs == ws:
                g1, w1 = next((g, w) for g, w in zip(got_ids, want_ids) if g != w)
                v.append(({"subcheck": "testcases", "clause": "status-attribute", "expected": w1[1], "got": g1[1]},
                          "%s testcase status attributes %s, the executed scenarios finished %s"
                          % (fname, got_ids, want_ids)))
            else:
                extra = [g for g in got_ids if g[0] not in ws]
                missing = [w for w in want_ids if w[0] not in gs]
                desc = {"subcheck": "testcases", "clause": "set", "shown": str(bool(shown)),
                        "extra_status": "+".join(sorted(set(g[1] for g in extra))),
                        "missing_status": "+".join(sorted(set(w[1] for w in missing)))}
                if info.get("config_changed"):
                    desc["config_changed"] = info["config_changed"]
                v.append((desc,
                          "%s lists testcases %s, the feature's scenarios%s are %s"
                          % (fname, got_ids, "" if shown else " (skipped hidden)", want_ids)))
        elif hostile and info.get("roundtrip"):
            for c, s in zip(cases, want):
                if c.getAttribute("name") != s.name:
                    cls = [ATOM[a][2] for sl, a in info.get("atoms", ()) if sl == "scenario-name"]
                    v.append(({"subcheck": "testcases", "clause": "name-altered", "atom_class": "+".join(cls) or "none"},
                              "%s testcase name %r for scenario %r" % (fname, c.getAttribute("name"), s.name)))
                    break
        # -- child class per test case
        n_fail = n_err = n_skip = 0
        classes = []
        for c in cases:
            kids = [k.tagName for k in children(c)]
            has_f, has_e, has_s = "failure" in kids, "error" in kids, "skipped" in kids
            n_fail += has_f
            n_err += has_e
            n_skip += has_s
            classes.append((c.getAttribute("status"), has_f, has_e, has_s))
        if got_ids == want_ids:
            for c, s, cl in zip(cases, want, classes):
                st = s.status.name
                _, has_f, has_e, has_s = cl
                kind = "".join(k for k, b in (("F", has_f), ("E", has_e), ("S", has_s)) if b) or "-"
                if s.status.is_passed():
                    ok = kind == "-"
                elif st == "failed":
                    ok = kind == "F"
                elif st in ERRC:
                    ok = kind == "E"
                else:
                    # skipped (shown) -> skipped entry; untested: the statement is silent (with or without skipped
                    # entry); an undefined/pending step that was discovered may be reported as additional failure
                    undefined_step = any(x.status.name in ("undefined", "pending") for x in s.all_steps)
                    ok = kind == "S" or (kind == "FS" and undefined_step) or (kind == "-" and st != "skipped")
                if not ok:
                    nostep = not any(x.status.name in ("failed",) + ERRC for x in s.all_steps)
                    v.append(({"subcheck": "testcases", "clause": "entry-class", "status": st, "entries": kind,
                               "without_failing_step": str(nostep)},
                              "%s testcase %r has final status %s but entries %s"
                              % (fname, s.name, st, kids)))
                    continue
                # -- failure/error entry names the responsible step or hook
                if st == "failed" or st in ERRC:
                    el = children(c, "failure" if st == "failed" else "error")[0]
                    hay = el.getAttribute("message") + u"\n" + node_text(el)
                    needles = responsible(s, raised_hooks, hostile)
                    if needles and not any(n in hay for n in needles):
                        first = next((x.status.name for x in s.all_steps
                                      if x.status.name in ("failed",) + ERRC), "none")
                        v.append(({"subcheck": "testcases", "clause": "entry-names-culprit", "status": st,
                                   "step_status": first},
                                  "%s testcase %r (%s): %s entry names none of %s:\n%s"
                                  % (fname, s.name, st, el.tagName, needles, hay[:600])))
        # -- counters == numbers of corresponding entries
        for attr, n in (("tests", len(cases)), ("failures", n_fail), ("errors", n_err), ("skipped", n_skip)):
            val = suite.getAttribute(attr)
            if val != str(n):
                v.append(({"subcheck": "counters", "clause": attr, "direction": "over" if val.isdigit() and int(val) > n
                           else "under", "shown": str(bool(shown))},
                          "%s testsuite %s=%r but the document holds %d such entries (testcases: %s)"
                          % (fname, attr, val, n, classes)))
        summary.append((fname, tuple(classes), tuple(suite.getAttribute(k) for k in ("tests", "failures", "errors", "skipped"))))
    for fn in files:
        if fn not in expected_files and (filemap is not None or not fn.startswith("TESTS-f")):
            v.append(({"subcheck": "report", "clause": "unexpected-file",
                       "addressing": "files-on-disk" if info.get("addressing") else "harness"},
                      "file %s belongs to no reported feature (files: %s)" % (fn, files)))
    return summary


def where_text(raw, e):
    line, col = getattr(e, "lineno", None), getattr(e, "offset", None)
    if line is None:
        return "?"
    lines = raw.split(b"\n")
    if 1 <= line <= len(lines):
        seg = lines[line - 1][max(0, col - 60): col + 20]
        return repr(seg.decode("utf-8", "replace"))
    return "?"


def locate_ill_formed(raw, e):
    """attribute (which one) or text: the construct of the document in which expat stopped"""
    pos = error_pos(raw, e)
    if pos is None:
        return "unknown", "-"
    before = raw[:pos]
    lt, gt = before.rfind(b"<"), before.rfind(b">")
    cd = before.rfind(b"<![CDATA[")
    if cd >= 0 and before.find(b"]]>", cd) < 0:
        return "cdata", "-"
    if lt > gt:          # inside a tag: find the attribute
        tag = before[lt:]
        el = tag[1:].split(b" ", 1)[0].decode("ascii", "replace")
        eq = tag.rfind(b"=\"")
        if eq >= 0 and tag.count(b"\"") % 2 == 1:
            attr = tag[:eq].rsplit(b" ", 1)[-1].decode("ascii", "replace")
            return "attribute", "%s@%s" % (el, attr)
        return "tag", el
    return "text", "-"


def error_pos(raw, e):
    line, col = getattr(e, "lineno", None), getattr(e, "offset", None)
    if line is None:
        return None
    lines = raw.split(b"\n")
    if not (1 <= line <= len(lines)):
        return None
    return sum(len(l) + 1 for l in lines[:line - 1]) + col


ATTR_SLOTS = {"testsuite@name": ("feature-name",), "testcase@classname": ("feature-name",),
              "testcase@name": ("scenario-name",),
              "failure@message": ("assertion-message", "exception-message", "hook-message", "step-name"),
              "error@message": ("exception-message", "hook-message", "assertion-message", "step-name")}


def blame(raw, e, attr, info):
    """which assigned (slot, atom) made the document ill-formed: the atom that stands at the position where expat
    stopped, among several the one whose slot feeds that attribute"""
    assigned = list(info.get("atoms", ()))
    if not assigned:
        return "none", "none"
    pos = error_pos(raw, e)
    cands = assigned
    if pos is not None:
        ch = raw[pos: pos + 4].decode("utf-8", "ignore")[:1]
        cands = [(s, a) for s, a in assigned if ch and ch in ATOM[a][1] and ch not in u"<&\">]"]
        if not cands and b"]]>" in raw[max(0, pos - 4): pos + 4]:
            cands = [(s, a) for s, a in assigned if "cdata-end" in ATOM[a][2]]
        cands = cands or assigned
    order = ATTR_SLOTS.get(attr, ())
    cands = sorted(cands, key=lambda sa: order.index(sa[0]) if sa[0] in order else len(order))
    s, a = cands[0]
    return s, ATOM[a][2]


def escaped_violation(v, escaped, info, feats):
    exc, msg = escaped
    trig = trigger_class(info)
    # minimal trigger class from the model: an errored scenario without any failing step and without error message
    for f in feats:
        for s in expected_scenarios(f):
            if s.status.is_error() and s.error_message is None and \
               not any(x.status.name in ERRC for x in s.all_steps):
                trig = "cleanup-error-only" if not getattr(s, "hook_failed", False) else "hook-error-without-message"
    v.append(({"subcheck": "reporter", "clause": "raises", "exc": exc, "trigger": trig},
              "run() raised %s: %s" % (exc, msg)))


# ------------------------------------------------------------------ case functions
def finish(v, summary, case, nontrivial, marks=()):
    flat = repr(summary)
    classes = set(marks)
    for item in summary:
        if len(item) == 3:
            for cl in item[1]:
                classes.add((cl[0],) + tuple(cl[1:]))
        else:
            classes.add(item[1])
    interesting = nontrivial or any(c for c in classes if not isinstance(c, tuple) or
                                    (c[0] not in ("seen", "addressed", "rowless-block", "locale", "flip") and c[1:] != (False, False, False)))
    return {"v": v, "dg": flat, "out": tuple(sorted(map(repr, classes))), "n": 1,
            "nt": digest(case) if interesting else None}


def rowless_marks(prog):
    """vacuity evidence: the program holds an outline with a heading-only Examples block before / after a block with
    rows one of which does not pass"""
    marks = []

    def walk(node):
        for it in node[3]:
            if it[0] == "R":
                walk(it)
            elif it[0] == "O" and len(it[3]) > 1:
                sizes = [len(rows) for _, rows in it[3]]
                bad = any(o != "pass" for _, rows in it[3] for row in rows for o in row)
                if bad and 0 in sizes and max(sizes) > 0:
                    first_rows = min(i for i, n in enumerate(sizes) if n)
                    if sizes.index(0) < first_rows:
                        marks.append(("rowless-block", "before"))
                    if len(sizes) - 1 - sizes[::-1].index(0) > first_rows:
                        marks.append(("rowless-block", "after"))
    for f in prog:
        walk(f)
    return marks



def _run_tag():
    """pid of the DRIVER process of this run (workers are its forked children): scratch directories carry it, so that
    two runs of this check at the same time (evaluations of several trees) do not see each other's directories"""
    import multiprocessing
    return os.getpid() if multiprocessing.current_process().name == "MainProcess" else os.getppid()


def run_plain(case):
    """case = (prog, cfg key, faults, cleanups, hooks, show_skipped)"""
    prog, cfg, faults, cleanups, hooks, show = case
    cfgd = dict(runcases.CFGS[cfg] if isinstance(cfg, str) else cfg)
    d = tempfile.mkdtemp(dir=SHM, prefix="c16run-%d-" % _run_tag())
    d2 = os.path.join(d, "other")
    d = os.path.join(d, "primary")
    try:
        cfgd["show_skipped"] = bool(show)
        cfgd["extra"] = ["--junit", "--junit-directory", d]

        def reporters(config):
            # the JUnitReporter built by the real Configuration + a second one with show_skipped flipped
            from behave.reporter.junit import JUnitReporter
            config.base_dir = os.getcwd()
            other = copy.copy(config)
            other.show_skipped = not config.show_skipped
            other.junit_directory = d2
            return list(config.reporters) + [JUnitReporter(other)]

        rec = ExecRecorder()
        obs = harness.run_case(prog, cfgd, faults=faults, cleanups=cleanups, hooks=hooks, reporters=reporters,
                               keep_model=True, formatters=lambda config, o2p: [rec])
        v = []
        feats, config = obs["model"][0], obs["model"][4]
        if not any(type(r).__name__ == "JUnitReporter" for r in config.reporters):
            raise AssertionError("harness: no JUnitReporter configured")
        raised = [obs["hooks"][k][0] for k in (faults or {}) if k < len(obs["hooks"])]
        trig = "plain"
        if cleanups and any(r for cl in cleanups.values() for _, r, _ in cl):
            trig = "raising-cleanup"
        elif faults:
            trig = "hook-fault:" + "+".join(sorted(set(raised)))
        info = {"raised": raised, "trigger": trig}
        execution_truth(v, feats, rec, info)
        if obs["escaped"]:
            info["escaped"] = True
            escaped_violation(v, (obs["escaped"], obs.get("escaped_msg")), info, feats)
        summary = check_reports(v, feats, d, bool(show), info)
        summary += check_reports(v, feats, d2, not show, info)
        summary.append(("escaped", obs["escaped"]))
        return finish(v, summary, case, False, rowless_marks(prog))
    finally:
        shutil.rmtree(os.path.dirname(d), ignore_errors=True)


def run_hostile(case):
    """case = (shape id, ((slot, atom id), ...), show_skipped, switch bits or None)"""
    shape, assign, show, bits = case
    _, tagexpr, feat_hook = HSHAPES[shape]
    d = tempfile.mkdtemp(dir=SHM, prefix="c16run-%d-" % _run_tag())
    try:
        args = ["--junit", "--junit-directory", d, "--no-summary", "--show-skipped" if show else "--no-skipped"]
        if tagexpr:
            args.append("--tags=%s" % tagexpr)
        always = False
        if bits is not None:
            for i, sw in enumerate(SWITCHES):
                val = bool(bits >> i & 1)
                args += ["-D", "behave.reporter.junit.%s=%s" % (sw, "true" if val else "false")]
                if sw == "show_skipped_always":
                    always = val
        text = render_hostile(shape, assign)
        second = u"Feature: Second\n  Scenario: Tail\n    Given step 1 pass\n"
        escaped, feats, config, raised, rec = run_text([text, second], args, assign, feat_hook)
        v = []
        info = {"hostile": True, "atoms": tuple(assign), "raised": raised,
                "roundtrip": all(ATOM[a][2] in ROUNDTRIP_CLASSES for _, a in assign)}
        if bits is not None:
            info["trigger"] = "switches"
        execution_truth(v, feats, rec, info)
        if escaped:
            info["escaped"] = True
            escaped_violation(v, escaped, info, feats)
        summary = check_reports(v, feats, d, bool(show) or always, info)
        summary.append(("escaped", escaped and escaped[0]))
        marks = []
        if len(assign) == 1 and info["roundtrip"] and bits is None:
            # vacuity evidence: the atom really arrived in a document (legal atoms only; nothing is demanded)
            slot, aid = assign[0]
            marker = (u"t%sx" if slot == "tag" else u"a%sb") % ATOM[aid][1]
            if marker in u"\n".join(info.get("doc_text", ())):
                marks.append(("seen", slot))
        return finish(v, summary, case, bool(assign), marks)
    finally:
        shutil.rmtree(d, ignore_errors=True)


# ------------------------------------------------------------------ process locale / preferred file encoding
# The bytes of a report must not depend on the environment of the process that wrote it. A child interpreter is started
# with an ASCII locale (and one with a UTF-8 locale as control), runs a batch of hostile programs with non-ASCII atoms
# and writes the reports; the parent applies the oracle to the bytes.
LOCALE_ENVS = {
    "ascii": {"LC_ALL": "C", "LANG": "C", "LC_CTYPE": "C", "PYTHONUTF8": "0", "PYTHONCOERCECLOCALE": "0"},
    "utf-8": {"LC_ALL": "C.UTF-8", "LANG": "C.UTF-8", "LC_CTYPE": "C.UTF-8", "PYTHONUTF8": "0", "PYTHONCOERCECLOCALE": "0"},
}
LOCALE_ATOMS = ("eacute", "astral")
ASCII_NAMES = ("ascii", "ansi_x3.4-1968", "us-ascii", "646")
LOCALE_BATCH = 8


def locale_programs():
    """(shape, assignment, show_skipped): an all-ASCII control, every slot singly with each non-ASCII atom on a shape that
    holds the slot, all ten slots at once on three shapes"""
    progs = [("mixed", (), True)]
    for aid in LOCALE_ATOMS:
        for slot in SLOTS:
            progs.append(("hooks" if slot == "hook-message" else "mixed", ((slot, aid),), True))
        for shape in ("mixed", "outline", "hooks"):
            progs.append((shape, tuple((slot, aid) for slot in SLOTS), shape != "outline"))
    return progs


def locale_cases():
    progs = locale_programs()
    for env in ("ascii", "utf-8"):
        for i in range(0, len(progs), LOCALE_BATCH):
            yield (env, tuple(progs[i:i + LOCALE_BATCH]))


def child_main(jobfile):
    """runs in the child interpreter: executes the batch, writes reports below the job's directory and result.json (ASCII)"""
    import json, locale
    with open(jobfile) as f:
        job = json.load(f)
    base = os.path.dirname(jobfile)
    out = {"preferred": locale.getpreferredencoding(False), "fsenc": sys.getfilesystemencoding(),
           "utf8_mode": sys.flags.utf8_mode, "subs": []}
    for k, (shape, assign, show) in enumerate(job["programs"]):
        assign = tuple((sl, a) for sl, a in assign)
        _, tagexpr, feat_hook = HSHAPES[shape]
        d = os.path.join(base, "r%d" % k)
        args = ["--junit", "--junit-directory", d, "--no-summary", "--show-skipped" if show else "--no-skipped"]
        if tagexpr:
            args.append("--tags=%s" % tagexpr)
        text = render_hostile(shape, assign)
        second = u"Feature: Second\n  Scenario: Tail\n    Given step 1 pass\n"
        escaped, feats, config, raised, rec = run_text([text, second], args, assign, feat_hook)
        v, info = [], {}
        execution_truth(v, feats, rec, info)
        sub = {"escaped": list(escaped) if escaped else None, "raised": list(raised), "differs": v, "features": []}
        for fi, f in enumerate(feats):
            sub["features"].append({
                "name": f.name, "filename": f.filename, "status": f.status.name,
                "scenarios": [{"name": sc.name, "status": sc.status.name,
                               "steps": [[x.name, x.status.name] for x in sc.all_steps]} for sc in info["truth"][fi]]})
        out["subs"].append(sub)
    with open(os.path.join(base, "result.json"), "w") as f:
        json.dump(out, f, ensure_ascii=True)


class _Status(object):
    def __init__(self, name):
        self.name = name

    def is_passed(self):
        return self.name in ("passed", "xfailed", "xpassed", "pending_warn")


class _Node(object):
    def __init__(self, **kw):
        self.__dict__.update(kw)


def run_locale(case):
    """case = (environment key, ((shape, assignment, show_skipped), ...)): one child interpreter per case"""
    import json, subprocess
    from vlib import core
    envkey, programs = case
    d = tempfile.mkdtemp(dir=SHM, prefix="c16run-%d-loc-" % _run_tag())
    try:
        jobfile = os.path.join(d, "job.json")
        with open(jobfile, "w") as f:
            json.dump({"programs": [[sh, [list(x) for x in asg], show] for sh, asg, show in programs]}, f,
                      ensure_ascii=True)
        env = {k: val for k, val in os.environ.items() if not (k.startswith("LC_") or k in ("LANG", "LANGUAGE"))}
        env.update(LOCALE_ENVS[envkey])
        boot = ("import sys; sys.path[:0] = [%r, %r]; from checks import c16_junit as C; C.child_main(sys.argv[1])"
                % (core.repo_dir(), core.VERIF))
        proc = subprocess.run([sys.executable, "-c", boot, jobfile], env=env, cwd=core.VERIF,
                              stdout=subprocess.PIPE, stderr=subprocess.PIPE, timeout=300)
        respath = os.path.join(d, "result.json")
        if proc.returncode != 0 or not os.path.exists(respath):
            raise AssertionError("locale child failed (%s): %s" % (proc.returncode, proc.stderr.decode("utf-8", "replace")[-2000:]))
        with open(respath) as f:
            res = json.load(f)
        enc = res["preferred"].lower()
        applicable = (enc in ASCII_NAMES) if envkey == "ascii" else enc.replace("-", "") == "utf8"
        results = []
        for k, ((shape, assign, show), sub) in enumerate(zip(programs, res["subs"])):
            v = [(dict(dd), mm) for dd, mm in sub["differs"]]
            feats, truth = [], {}
            for fi, fd in enumerate(sub["features"]):
                feats.append(_Node(name=fd["name"], filename=fd["filename"], status=_Status(fd["status"])))
                truth[fi] = [_Node(name=sd["name"], status=_Status(sd["status"]),
                                   all_steps=[_Node(name=n, status=_Status(st)) for n, st in sd["steps"]])
                             for sd in fd["scenarios"]]
            info = {"hostile": True, "atoms": tuple(assign), "raised": sub["raised"], "truth": truth,
                    "roundtrip": True, "encoding": envkey, "escaped": bool(sub["escaped"])}
            if sub["escaped"]:
                v.append(({"subcheck": "reporter", "clause": "raises", "exc": sub["escaped"][0],
                           "trigger": "preferred-encoding:" + envkey},
                          "with locale.getpreferredencoding()=%s run() raised %s: %s"
                          % (res["preferred"], sub["escaped"][0], sub["escaped"][1])))
            summary = check_reports(v, feats, os.path.join(d, "r%d" % k), bool(show), info)
            # -- the non-ASCII text round-trips: the marker of every assigned slot is in the parsed documents
            text = u"\n".join(info.get("doc_text", ()))
            if not sub["escaped"]:
                for slot, aid in assign:
                    marker = (u"%sx" if slot == "tag" else u"a%sb") % ATOM[aid][1]
                    if marker not in text:
                        v.append(({"subcheck": "locale", "clause": "text-lost", "slot": slot,
                                   "atom_class": ATOM[aid][2], "encoding": envkey},
                                  "preferred encoding %s: %r of slot %s is in no parsed report"
                                  % (res["preferred"], marker, slot)))
            summary.append(("escaped", sub["escaped"] and sub["escaped"][0]))
            r = finish(v, summary, (envkey, (programs[k],)), bool(assign),
                       [("locale", envkey, "applicable" if applicable else "not-applicable:" + enc)])
            r["case"] = (envkey, (programs[k],))
            results.append(r)
        return results
    finally:
        shutil.rmtree(d, ignore_errors=True)


# ------------------------------------------------------------------ configuration changed after construction
FLIP_SECOND = (u"Feature: Second\n  Scenario: Tail\n    Given step 1 pass\n  @skipme\n  Scenario: TailSkipped\n"
               u"    Given step 2 pass\n  Scenario Outline: TailOut\n    Given step 3 <o>\n    @skipme\n    Examples: H\n"
               u"      | o |\n      | pass |\n    Examples: V\n      | o |\n      | fail |\n")
FLIP_THIRD = u"@skipme\nFeature: Third\n  Scenario: Never\n    Given step 1 pass\n"
FLIP_WHEN = ("never", "constructed", "before_all", ("before_feature", 0), ("before_feature", 1))


def flip_cases():
    for shape in ("mixed", "outline"):
        for when in FLIP_WHEN:
            for initial in (True, False):
                yield (shape, when, initial)


def run_flip(case):
    """case = (shape, when, initial show_skipped): config.show_skipped is flipped on the config object after the
    JUnitReporter was constructed; three features (the last one entirely skipped by tags). The document of a feature
    must reflect the value the config object holds when that feature is reported."""
    shape, when, initial = case
    d = tempfile.mkdtemp(dir=SHM, prefix="c16run-%d-" % _run_tag())
    try:
        args = ["--junit", "--junit-directory", d, "--no-summary", "--show-skipped" if initial else "--no-skipped",
                "--tags=not skipme"]
        flip = None if when == "never" else (when, "show_skipped", not initial)
        texts = [render_hostile(shape, ()), FLIP_SECOND, FLIP_THIRD]
        escaped, feats, config, raised, rec = run_text(texts, args, (), None, flip)
        v = []
        first_new = {"never": len(texts), "constructed": 0, "before_all": 0}.get(when, when[1] if isinstance(when, tuple) else 0)
        shown_at = {fi: (initial if fi < first_new else not initial) for fi in range(len(texts))}
        cls = when if isinstance(when, str) else "between-features" if when[1] else "before-first-feature"
        info = {"hostile": True, "atoms": (), "raised": raised, "roundtrip": True,
                "config_changed": "show_skipped:" + cls, "trigger": "config-changed:" + cls}
        if when == "never":
            del info["config_changed"]
        if bool(config.show_skipped) != shown_at[len(texts) - 1]:
            raise AssertionError("harness: the flip %r did not reach the config object" % (when,))
        execution_truth(v, feats, rec, info)
        if escaped:
            info["escaped"] = True
            escaped_violation(v, escaped, info, feats)
        summary = check_reports(v, feats, d, shown_at, info)
        summary.append(("escaped", escaped and escaped[0]))
        return finish(v, summary, case, True, [("flip", cls)])
    finally:
        shutil.rmtree(d, ignore_errors=True)


# ------------------------------------------------------------------ how the features were addressed
ADDR_FILES = ("features/a.feature", "features/sub/b.feature", "other/c.feature")
ADDR_TEXT = {
    "mixed": (u"Feature: Alpha\n  Scenario: A1\n    Given step 1 pass\n  Scenario: A2\n    Given step 2 fail\n",
              u"Feature: Beta\n  Scenario Outline: B\n    Given step 1 <o>\n    Examples:\n      | o |\n      | pass |\n"
              u"      | error |\n",
              u"@skipme\nFeature: Gamma\n  Scenario: C1\n    Given step 1 pass\n"),
    "pass": (u"Feature: Alpha\n  Scenario: A1\n    Given step 1 pass\n  Scenario: A2\n    Given step 2 pass\n",
             u"Feature: Beta\n  Scenario Outline: B\n    Given step 1 <o>\n    Examples:\n      | o |\n      | pass |\n"
             u"      | pass |\n",
             u"Feature: Gamma\n  Scenario: C1\n    Given step 1 pass\n"),
}
A_, B_, C_ = ADDR_FILES
# mode -> command-line paths ("$" = absolute scratch directory); (file, line) = file:LINE of a scenario / an outline
ADDR_MODES = (
    ("default", ()),
    ("dir", ("features",)),
    ("dir-slash", ("features/",)),
    ("dirs", ("features", "other")),
    ("dirs-slash", ("features/", "other/")),
    ("files", (A_, B_, C_)),
    ("files-reversed", (C_, B_, A_)),
    ("two-files", (A_, B_)),
    ("one-file", (B_,)),
    ("file-lines", (A_ + ":2", B_ + ":2", C_ + ":3")),
    ("file-line+file", (A_ + ":4", B_)),
    ("dir+file", ("features/sub", C_)),
    ("file+dir", (C_, "features")),
    ("dot-files", ("./" + A_, "./" + B_)),
    ("abs-files", ("$/" + A_, "$/" + B_, "$/" + C_)),
    ("abs-dir", ("$/features",)),
    ("abs-dir-slash", ("$/features/", "$/other/")),
)
ADDR = dict(ADDR_MODES)


def discover_reports(v, feats, outdir, info):
    """-> {feature index: file name}: every document is attributed to the feature whose name ends its testsuite name
    ("<classname>.<feature name>"); the classname part of testsuite@name and testcase@classname must be a real name"""
    filemap, mode = {}, info.get("addressing", "-")
    for path in sorted(glob.glob(os.path.join(outdir, "*"))):
        fn = os.path.basename(path)
        try:
            suite = minidom.parse(path).documentElement
        except (ExpatError, ValueError, UnicodeError):
            continue        # reported as unexpected-file / missing by check_reports
        sname = suite.getAttribute("name")
        owners = [fi for fi, f in enumerate(feats) if sname == f.name or sname.endswith(u"." + f.name)]
        if len(owners) != 1:
            continue
        fi = owners[0]
        if fi in filemap:
            v.append(({"subcheck": "report", "clause": "several-documents-for-one-feature",
                       "addressing": info["addr_of"].get(fi, "?")},
                      "%s and %s both describe feature %r" % (filemap[fi], fn, feats[fi].name)))
            continue
        filemap[fi] = fn
        fname = feats[fi].name
        names = [("testsuite@name", sname)] + [("testcase@classname", c.getAttribute("classname"))
                                               for c in children(suite, "testcase")]
        for attr, val in names:
            prefix = val[:-len(fname)].rstrip(u".") if val.endswith(fname) else val
            if prefix in (u"", u"None"):
                v.append(({"subcheck": "report", "clause": "classname", "value": prefix or "empty", "attr": attr,
                           "addressing": info["addr_of"].get(fi, "?")},
                          "%s: %s=%r - the class name part is %r (feature file %s, paths %s)"
                          % (fn, attr, val, prefix, feats[fi].filename, info.get("paths"))))
                break
    return filemap


def address_class(filename, paths, scratch):
    """how the command line addressed this feature file: default | directory | explicit-file | file-line, abs- prefix"""
    full = os.path.normpath(os.path.join(scratch, filename))
    for p in paths:
        pre = "abs-" if os.path.isabs(p) else ""
        loc, _, line = p.partition(":")
        target = os.path.normpath(os.path.join(scratch, loc))
        if target == full:
            return pre + ("file-line" if line else "explicit-file")
    for p in paths:
        target = os.path.normpath(os.path.join(scratch, p))
        if full.startswith(target + os.sep):
            return ("abs-" if os.path.isabs(p) else "") + "directory"
    return "default"


def run_addressed(case):
    """case = (addressing mode, text variant, show_skipped): real feature files in a scratch directory, the real Runner
    (setup_paths -> config.base_dir, feature collection, parse_features) with steps from a fresh StepRegistry"""
    mode, variant, show = case
    m = harness._imp()
    harness.reset_globals()
    from behave.runner import Runner
    d = tempfile.mkdtemp(dir=SHM, prefix="c16run-%d-" % _run_tag())
    cwd = os.getcwd()
    root = logging.getLogger()
    saved_handlers, saved_level = list(root.handlers), root.level
    old_out, old_err = sys.stdout, sys.stderr
    saved_path = list(sys.path)
    escaped, feats, v = None, [], []
    try:
        for rel, text in zip(ADDR_FILES, ADDR_TEXT[variant]):
            os.makedirs(os.path.join(d, os.path.dirname(rel)), exist_ok=True)
            with io.open(os.path.join(d, rel), "w", encoding="utf-8") as f:
                f.write(text)
        os.makedirs(os.path.join(d, "features", "steps"))
        os.makedirs(os.path.join(d, "steps"))           # so that a run addressed through other/ finds a base directory
        paths = [p.replace("$", d) for p in ADDR[mode]]
        args = ["--junit", "--junit-directory", "reports", "--no-summary", "-f", "null",
                "--show-skipped" if show else "--no-skipped", "--tags=not skipme"] + paths
        os.chdir(d)
        sys.stdout, sys.stderr = io.StringIO(), io.StringIO()
        config = m["Configuration"](args, load_config=False)
        reg = m["StepRegistry"]()

        def make_step(kind):
            def step_impl(ctx, n):
                if kind == "fail":
                    assert False, "boom %d" % n
                if kind == "error":
                    raise RuntimeError("err %d" % n)
            return step_impl
        for kind in ("pass", "fail", "error"):
            reg.add_step_definition("step", "step {n:d} %s" % kind, make_step(kind))

        class FileRunner(Runner):
            def load_hooks(self, filename=None):
                self.hooks = {}

            def load_step_definitions(self, extra_step_paths=None):
                pass        # no step modules on disk: the process-wide registry stays untouched

            def run_model(self, features=None):
                self.formatters.append(rec)
                return super(FileRunner, self).run_model(features)

        rec = ExecRecorder()
        runner = FileRunner(config)
        runner.step_registry = reg
        try:
            runner.run()
        except BaseException as e:      # noqa - property: nothing escapes run()
            escaped = (type(e).__name__, str(e)[:200])
        feats = list(runner.features)
        info = {"addressing": mode, "trigger": "addressing:" + mode, "paths": paths, "escaped": bool(escaped),
                "addr_of": {fi: address_class(f.filename, paths, d) for fi, f in enumerate(feats)}}
        execution_truth(v, feats, rec, info)
        if escaped:
            escaped_violation(v, escaped, info, feats)
        outdir = os.path.join(d, "reports")
        filemap = discover_reports(v, feats, outdir, info)
        summary = check_reports(v, feats, outdir, bool(show), info, filemap)
        summary.append(("escaped", escaped and escaped[0]))
        return finish(v, summary, case, True, [("addressed", mode, len(feats), len(filemap))])
    finally:
        os.chdir(cwd)
        sys.stdout, sys.stderr = old_out, old_err
        sys.path[:] = saved_path
        root.handlers[:] = saved_handlers
        root.setLevel(saved_level)
        shutil.rmtree(d, ignore_errors=True)


def addressed_cases():
    for mode, _ in ADDR_MODES:
        for variant in ("pass", "mixed"):
            for show in (True, False):
                yield (mode, variant, show)


# ------------------------------------------------------------------ enumeration
QUICK_CFGS_SIZE3 = ("default", "dry")


def plain_cases(tier):
    """C01's runs; each is reported twice (show_skipped on and off): `show` is the value given to the real
    Configuration (alternating), the other value goes to a second JUnitReporter on a copy of that Configuration"""
    quick = tier == "quick"
    k = 0
    for case in runcases.step_cases(tier):
        sz = P.size(case[0][0])
        if sz > (3 if quick else 4):
            continue
        if quick and sz == 3 and case[1] not in QUICK_CFGS_SIZE3:
            continue
        k += 1
        yield case + (bool(k % 2),)
    for case in runcases.fault_cases(tier):
        if quick and P.size(case[0][0]) > 2:
            continue
        k += 1
        yield case + (bool(k % 2),)


def single_cases():
    for shape in SINGLE_SHAPES:
        for show in (True, False):
            yield (shape, (), show, None)
    for slot in SLOTS:
        for aid, _, _ in ATOMS:
            if not slot_atom_ok(slot, aid):
                continue
            for shape in SINGLE_SHAPES:
                for show in (True, False):
                    yield (shape, ((slot, aid),), show, None)


def composite_cases(tier):
    """every (slot, composite atom) single; quick: on the two shapes that together hold all ten slots, skipped shown"""
    quick = tier == "quick"
    for slot in SLOTS:
        for aid, _, _ in COMPOSITES:
            for shape in (QUICK_COMPOSITE_SHAPES if quick else SINGLE_SHAPES):
                for show in ((True,) if quick else (True, False)):
                    yield (shape, ((slot, aid),), show, None)


def pair_cases(tier):
    atoms = QUICK_PAIR_ATOMS if tier == "quick" else tuple(a[0] for a in ATOMS)
    for s1, s2 in itertools.combinations(SLOTS, 2):
        for a1 in atoms:
            for a2 in atoms:
                if slot_atom_ok(s1, a1) and slot_atom_ok(s2, a2):
                    yield ("small", ((s1, a1), (s2, a2)), True, None)


def switch_cases():
    for shape in SWITCH_SHAPES:
        for bits in range(128):
            for show in (True, False):
                yield (shape, SWITCH_ASSIGN, show, bits)


def run(ctx):
    ctx.bounds = {"runs": "C01 enumeration: " + (
                      "step cases on shapes with <=2 step positions (all configurations) and 3 positions (default, "
                      "--dry-run); hook/cleanup faults on shapes with <=2 positions" if ctx.quick else
                      "step cases on shapes with <=4 step positions, all hook/cleanup fault cases") +
                      "; every run reported with show_skipped on and off",
                  "slots": len(SLOTS), "atoms": len(ATOMS), "single_shapes": len(SINGLE_SHAPES),
                  "pair_atoms": len(QUICK_PAIR_ATOMS) if ctx.quick else len(ATOMS),
                  "switch_combinations": 128, "switch_shapes": len(SWITCH_SHAPES),
                  "addressing_modes": len(ADDR_MODES), "composite_atoms": len(COMPOSITES),
                  "composite_shapes": len(QUICK_COMPOSITE_SHAPES) if ctx.quick else len(SINGLE_SHAPES),
                  "locale_environments": sorted(LOCALE_ENVS), "locale_programs": len(locale_programs())}
    ctx.sweep(run_hostile, single_cases(), chunk=16, name="hostile singles (slot x atom x shape x show_skipped)")
    seen = set()
    for out in ctx.outcomes:
        seen |= set(m for m in out if m.startswith("('seen'"))
    ctx.note("slots_seen_in_documents", sorted(seen))
    ctx.guard(len(seen) == len(SLOTS), "an XML-legal atom of every one of the ten slots arrived in a parsed document "
                                       "(seen: %s)" % sorted(seen))
    ctx.sweep(run_hostile, composite_cases(ctx.tier), chunk=16,
              name="composite atoms (one filter pass creating another pass's token) x slot")
    ctx.sweep(run_locale, locale_cases(), chunk=1, name="child interpreters with ASCII / UTF-8 locale x non-ASCII programs")
    flat_loc = " ".join(" ".join(out) for out in ctx.outcomes)
    ctx.guard("('locale', 'ascii', 'applicable')" in flat_loc and "('locale', 'ascii', 'not-applicable" not in flat_loc,
              "the child started with LC_ALL=C PYTHONUTF8=0 PYTHONCOERCECLOCALE=0 really has an ASCII preferred encoding "
              "(otherwise the locale sweep is not applicable on this machine)")
    ctx.guard("('locale', 'utf-8', 'applicable')" in flat_loc, "the control child has a UTF-8 preferred encoding")
    ctx.sweep(run_flip, flip_cases(), chunk=2, name="config.show_skipped changed after the reporter was constructed")
    ctx.sweep(run_addressed, addressed_cases(), chunk=4, name="feature files on disk x how they are addressed (real Runner)")
    ctx.sweep(run_hostile, switch_cases(), chunk=16, name="128 userdata switch combinations x 3 shapes")
    ctx.sweep(run_hostile, pair_cases(ctx.tier), chunk=32, name="hostile pairs on the small shape")
    ctx.sweep(run_plain, plain_cases(ctx.tier), chunk=64, name="C01 runs, JUnit on, show_skipped on and off")
    flat = " ".join(" ".join(out) for out in ctx.outcomes)
    for st in ("passed", "failed", "error", "hook_error", "skipped", "untested"):
        ctx.guard("('%s'," % st in flat, "some reported test case has final status %s" % st)
    for where in ("before", "after"):
        ctx.guard("('rowless-block', '%s')" % where in flat,
                  "a run with a heading-only Examples block %s a block with a non-passing row" % where)
    for mode, _ in ADDR_MODES:
        ctx.guard("('addressed', '%s', " % mode in flat and "('addressed', '%s', 0" % mode not in flat,
                  "addressing mode %s ran at least one feature" % mode)
    ctx.guard(len(ctx.outcomes) > 20, "at least 20 distinct report structures")
    ctx.guard(not glob.glob(os.path.join(SHM, "c16run-%d-*" % _run_tag())), "every per-case report directory was removed")
