# -*- coding: utf-8 -*-
"""C10 - file:LINE location selection and --name selection pick exactly the addressed scenarios.

Engine E4: a family of rendered feature documents (the renderer below knows the
1-based start line of every entity it writes), and for each document EVERY line
number from 0 to last+3 (plus the bare file name), all pairs / triples of
entity-adjacent lines, location lists over two files (also interleaved, also
through an @listfile living in another directory) - each pushed through the
real ``collect_feature_locations`` -> ``parse_features`` -> ``ModelRunner.run``
pipeline on real files (fresh directory under /dev/shm per case) and compared
with a reference ``select(L)`` computed from the renderer's line map alone.
Name selection: every pattern drawn from the scenario names of a document,
through a real ``Configuration(["--name", ...])`` and a real run.
"""
from __future__ import print_function
import io
import itertools
import os
import re
import shutil
import sys
import tempfile

from vlib.core import digest

PROPERTY = "C10"
LEVEL = "exploration"
RULE = ("Documents = 27 feature shapes (plain scenarios, outlines with 0-2 examples blocks of 0-3 rows, rules with and "
        "without background, empty rule, outline without examples, @setup/@teardown scenarios and outline; 4 shapes with DUPLICATE names: two scenarios 'Alpha', unnamed "
        "'Scenario:' entries, two outlines generating identical row names, same-named rules and scenarios across "
        "rules; 4 shapes with @setup/@teardown on the feature, on rules, on an outline and on one examples block; 4 shapes "
        "with Examples sections WITHOUT a table - keyword only / named / tagged - before, between and after populated "
        "blocks, next to a header-only table, and an outline with tableless Examples only) "
        "x 5 layouts "
        "(tight / blank / comment / blank+comment+tab-indent / tags on two lines with trailing comment, comment between "
        "tag and keyword, blank lines between table rows) x 2 headers (none / language comment + two feature tag lines + "
        "description) = 270: 24 of them (quick) / all (thorough) for the multi-location sweeps. The feature FILE on disk also varies its line endings (CRLF, lone CR, LF with one / two "
        "stray lone CRs, LF with one CRLF line; with and without a final newline; lines counted as an editor that "
        "honours all three kinds does): every single line on 6 documents (quick) / 24 (thorough) x 8 ending variants; "
        "list files also with CRLF / CR endings and without a final newline. "
        "Per document: every single line 0..last+3 and the bare "
        "name; all multisets of 2 (quick: on 24 documents; thorough: on all, and all multisets of 3) over {bare, 0, entity lines, entity "
        "lines +/-1}; two-file lists in grouped and interleaved order; the same through @listfile (other directory, "
        "relative entries, comments, blank lines, padding) and with absolute paths. Every selection is observed twice "
        "(should_skip after parse_features; executed step functions + status after a real run). A single location "
        "given as a plain argument is compared with the reference: entity starting at L, else nearest entity starting "
        "above L; 0/bare = all; unselected non-@setup/@teardown scenarios skipped. Every other selection (several "
        "locations, two files, absolute paths, @listfile) must select, per file, exactly the union of what its "
        "locations select when given alone as plain arguments. One file through two spellings/sources (9 sources x 9 sources x 4 line "
        "pairs on 2 document pairs quick / 8 thorough): loaded once, union, each scenario once, first-mention order. "
        "Direct use of FeatureLineDatabase / FeatureScenarioLocationCollector2 (6 documents quick "
        "/ 24 thorough): for every line L the list returned by select_scenarios_by_line(L) is mutated in place "
        "(extend with another line's result, clear, remove first, reverse); afterwards every selection through the "
        "same database, a new database, build_feature() and walk_scenarios() must equal that of a freshly parsed copy. "
        "Name selection: each scenario name, its words and "
        "substrings, ^name$, alternations and two --name options, on every document. FileLocationParser / "
        "FeatureListParser on name, name:N, name:0, padded. A selection is non-trivial (and counted distinct by "
        "(document, locations)) when it selects a non-empty proper subset of the document's scenarios.")
ASSUMPTIONS = [
    "entity 'starts at' its keyword line (tag lines above a keyword belong, by the nearest-above rule, to the previous entity)",
    "lines above the first entity of a file (language comment, feature tags) are not constrained by the statement: only 'does not raise' is demanded there",
    "an @setup/@teardown scenario that is not addressed is demanded to RUN (the statement only says it is not skipped)",
    "a scenario is an @setup/@teardown scenario by its OWN tags (outline rows: the generated scenario's tags, i.e. outline + examples-block tags); tags inherited from the feature or a rule do not exempt the scenarios below from being skipped",
    "the SAME file mentioned in ADJACENT positions of a location list through different spellings/sources (plain relative, './' prefix, 'dir/../' detour, absolute; command-line argument, list file in the cwd / a sub-directory / a sibling directory, list file named absolutely) is one file: demanded are one Feature object, the union of the selections, every selected scenario run once, features in the order of first mention",
    "a file named in two non-adjacent positions of a location list may be loaded twice; demanded is only that, per file, the scenarios executed at least once are exactly the union of the selections",
    "scenario names used by the name-selection oracle are the names behave reports (outline rows: default annotation schema)",
    "harness discipline: the model objects that are run are never read by the check between parsing and ModelRunner.run() (walking a feature expands its outlines and fills ScenarioOutline's cache); expected sets come from the rendered document, should_skip and names from a second, separately parsed/loaded copy, executed scenarios are identified by (file, line, name) reported by the step functions, statuses are read after the run",
    "collections returned by the public selection API (select_scenarios_by_line) belong to the caller: mutating them must not change the model (differential against a freshly parsed copy; no identity is demanded)",
    "wildcards in @listfile entries and Windows drive letters in locations are not covered",
]

SHM = "/dev/shm"


# =============================================================================
# abstract documents
# =============================================================================
def S(name, tags=(), n=1):
    return ("S", name, tuple(tags), n)


def O(name, blocks, tags=(), n=1):
    return ("O", name, tuple(tags), n, tuple(blocks))


def B(nrows, name="", tags=()):
    return (name, tuple(tags), nrows)


def R(name, items, tags=(), bg=False):
    return ("R", name, tuple(tags), bg, tuple(items))


# (feature background?, items) - simplest first
SHAPES = [
    (False, [S("Alpha")]),
    (False, [S("Alpha"), S("Alpha two", ("t1",), 2)]),
    (True, [S("Alpha"), S("Beta", ("t1", "t2")), S("Gamma ray")]),
    (False, [O("Out <a>", [B(2)])]),
    (True, [S("Alpha", ("t1",)), O("Out <a>", [B(2, "E1", ("e1",)), B(1)], ("o1", "o2"), 2), S("Omega")]),
    (False, [R("Rule one", [S("Alpha"), S("Beta")])]),
    (True, [S("Alpha"), R("Rule one", [S("Beta", ("t1",))], ("r1",), True),
            R("Rule two", [O("Out <a>", [B(1), B(2, "E2")]), S("Omega")])]),
    (False, [S("Prepare", ("setup",)), S("Alpha"), O("Out <a>", [B(2)]), S("Cleanup", ("teardown",))]),
    (False, [O("Out <a>", [B(0), B(2)]), S("Alpha")]),
    (False, [O("Empty", []), S("Alpha"), O("Out <a>", [B(1)])]),
    (True, [R("Rule one", [S("Prepare", ("setup",)), O("Out <a>", [B(1, "", ("e1",)), B(1)], ("o1",))], (), True),
            R("Rule two", [S("Alpha"), S("Cleanup", ("t1", "teardown"))])]),
    (False, [S("Alpha"), O("Out <a>", [B(2), B(0)]), O("Other <a>", [B(1)], ("setup",))]),
    (False, [S("Alpha"), R("Rule one", []), R("Rule two", [S("Beta")])]),
    (True, [O("Out <a>", [B(2, "E1", ("e1", "e2")), B(2, "E2", ("e3",))], ("o1",), 2)]),
    (True, [S("Alpha"), S("Alpha two", ("t1",)), O("Out <a>", [B(3)], ("o1",)),
            R("Rule one", [S("Beta"), O("Other <a>", [B(1), B(1, "E2", ("e1",))]), S("Beta two", ("teardown",))],
              ("r1", "r2"), True),
            R("Rule two", [O("Last <a>", [B(2)])], (), False)]),
    # --- duplicate names: scenarios are told apart by position/line only (all bookkeeping below keys on the line)
    (False, [S("Alpha"), S("Beta"), S("Alpha"), S("Gamma ray")]),
    (False, [S(""), S("", ("t1",)), S("Alpha"), S("")]),                       # unnamed 'Scenario:' entries
    (False, [O("Out <a>", [B(2, "E1")]), S("Alpha"), O("Out <a>", [B(2, "E1"), B(1, "E1")])]),   # same generated names
    (True, [S("Alpha"), R("Rule one", [S("Alpha"), S("Beta", ("setup",))]), R("Rule one", [S("Beta"), S("Alpha")])]),
    # --- @setup/@teardown on CONTAINERS (third element = feature tags). A scenario is a setup/teardown scenario by
    #     its OWN tags (for outline rows these include the outline's and the examples block's tags); a tag on the
    #     feature or on a rule does not make the scenarios below it setup/teardown scenarios.
    (False, [S("Alpha"), S("Beta"), O("Out <a>", [B(2)])], ("setup",)),
    (False, [S("Alpha"), R("Rule one", [S("Beta"), S("Gamma ray")], ("teardown",)),
             R("Rule two", [S("Omega"), O("Out <a>", [B(1)])], ("setup", "r2"), True)]),
    (False, [S("Alpha"), O("Out <a>", [B(2, "E1", ("setup",)), B(2, "E2")]), O("Other <a>", [B(1)], ("teardown",)),
             S("Omega")]),
    (True, [R("Rule one", [S("Alpha"), S("Beta", ("setup",))]), R("Rule two", [S("Gamma ray")], ("r1",))],
     ("ft9", "teardown")),
    # --- Examples sections WITHOUT a table (B(None): keyword only / keyword + name / tagged; a description-only
    #     Examples section is a ParserError, so it is not a document) before / between / after populated blocks of the
    #     same outline, and an outline with tableless Examples only. Such a section has no rows, hence no scenarios;
    #     its keyword line and the lines after it fall, by the nearest-above rule, to the entity above.
    (False, [O("Out <a>", [B(None), B(2)]), S("Alpha")]),
    (False, [S("Alpha"), O("Out <a>", [B(1), B(None, "named"), B(2, "E3")]), S("Omega")]),
    (True, [O("Out <a>", [B(2), B(None, "tail", ("e1",))]), S("Alpha")]),
    (False, [O("Only <a>", [B(None), B(None, "named")]), S("Alpha"), O("Out <a>", [B(1), B(0), B(None)])]),
]
N_GAPS = 5
N_HEADS = 2
QUICK_DOCS = [(s, s % N_GAPS, s % N_HEADS) for s in (0, 1, 3, 4, 6, 7, 8, 9, 10, 11, 12, 14, 15, 16, 17, 18, 19, 20, 21,
                                                             22, 23, 24, 25, 26)]
ALL_DOCS = [(s, g, h) for s in range(len(SHAPES)) for g in range(N_GAPS) for h in range(N_HEADS)]

# layout table: pre = lines before an entity's tag block, mid = between tag line(s) and keyword,
# inner = after the keyword line, step = between steps, row = between table rows
LAYOUTS = [
    dict(ind="", pre=[], mid=[], inner=[], step=[], row=[], split=False, tagc="", tail=None),
    dict(ind="  ", pre=[""], mid=[], inner=[], step=[], row=[], split=False, tagc="", tail=[]),
    dict(ind="    ", pre=["# comment"], mid=[], inner=[], step=["# between steps"], row=[], split=False, tagc="",
         tail=[]),
    dict(ind="\t", pre=["", "# comment", ""], mid=[], inner=["# inner"], step=[], row=["# row comment"], split=True,
         tagc="", tail=["", "# end", ""]),
    dict(ind="  ", pre=[""], mid=["# between tag and keyword", ""], inner=[""], step=[], row=[""], split=True,
         tagc="  # trailing", tail=["", ""]),
]


class Doc(object):
    """result of rendering: text, entity table, scenario table"""
    __slots__ = ("text", "nlines", "ents", "scen", "first")


def render(dockey):
    """(shape, gap, head) -> Doc.   Doc.ents = sorted [(line, kind, frozenset(scenario lines))];
    Doc.scen = {line: (name_template_or_name, tags, kind)}; kinds: F R O row S"""
    shape, gap, head = dockey[:3]       # an optional 4th element selects the line ENDINGS of the file on disk
    has_bg, items = SHAPES[shape][:2]
    ftags = SHAPES[shape][2] if len(SHAPES[shape]) > 2 else ()
    lay = LAYOUTS[gap]
    out = []

    def emit(level, text):
        out.append((lay["ind"] * level + text) if text else "")
        return len(out)

    def emit_raw(lines, level):
        for l in lines:
            emit(level if l else 0, l)

    def emit_tags(tags, level):
        if not tags:
            return
        tags = ["@" + t for t in tags]
        if lay["split"] and len(tags) > 1:
            emit(level, tags[0] + lay["tagc"])
            emit(level, " ".join(tags[1:]))
        else:
            emit(level, " ".join(tags) + lay["tagc"])
        emit_raw(lay["mid"], level)

    def emit_steps(n, level, suffix=""):
        for i in range(n):
            if i:
                emit_raw(lay["step"], level)
            emit(level, ("Given" if i == 0 else "And") + " a step" + suffix)

    ents = []
    scen = {}

    def background(level):
        emit_raw(lay["pre"], level)
        emit(level, "Background: common")
        emit_raw(lay["inner"], level + 1)
        emit_steps(1, level + 1)

    def item(it, level, blockno):
        kind = it[0]
        if kind == "S":
            _, name, tags, n = it
            emit_raw(lay["pre"], level)
            emit_tags(tags, level)
            line = emit(level, "Scenario: " + name)
            emit_raw(lay["inner"], level + 1)
            emit_steps(n, level + 1)
            ents.append((line, "S", frozenset([line])))
            scen[line] = (name, tags, "S")
            return [line]
        if kind == "O":
            _, name, tags, n, blocks = it
            emit_raw(lay["pre"], level)
            emit_tags(tags, level)
            line = emit(level, "Scenario Outline: " + name)
            emit_raw(lay["inner"], level + 1)
            emit_steps(n, level + 1, " <a>")
            rows = []
            for bi, (bname, btags, nrows) in enumerate(blocks):
                emit_raw(lay["pre"], level + 1)
                emit_tags(btags, level + 1)
                emit(level + 1, "Examples:" + (" " + bname if bname else ""))
                if nrows is None:
                    continue                    # Examples keyword without any table
                emit(level + 2, "| a |")
                for ri in range(nrows):
                    emit_raw(lay["row"], level + 2)
                    val = "v%d%d" % (bi + 1, ri + 1)
                    rl = emit(level + 2, "| %s |" % val)
                    rows.append(rl)
                    ents.append((rl, "row", frozenset([rl])))
                    rname = "%s -- @%d.%d %s" % (name.replace("<a>", val), bi + 1, ri + 1, bname)
                    scen[rl] = (rname, tags + btags, "row")
            ents.append((line, "O", frozenset(rows)))
            return rows
        _, name, tags, bg, sub = it
        emit_raw(lay["pre"], level)
        emit_tags(tags, level)
        line = emit(level, "Rule: " + name)
        emit_raw(lay["inner"], level + 1)
        if bg:
            background(level + 1)
        inside = []
        for s in sub:
            inside += item(s, level + 1, 0)
        ents.append((line, "R", frozenset(inside)))
        return inside

    if head:
        emit(0, "# language: en")
        emit(0, "@ft1")
        emit(0, "@ft2 @ft3")
    if ftags:
        emit(0, " ".join("@" + t for t in ftags))
    fline = emit(0, "Feature: Feature %d" % shape)
    if head:
        emit(1, "free text describing")
        emit(1, "the feature")
    if has_bg:
        background(1)
    everything = []
    for it in items:
        everything += item(it, 1, 0)
    ents.append((fline, "F", frozenset(everything)))
    tail = lay["tail"]
    text = "\n".join(out)
    if tail is not None:
        text += "\n" + "".join(l + "\n" for l in tail)
    d = Doc()
    d.text = text
    d.nlines = len(out) + len(tail or ())
    d.ents = sorted(ents)
    d.scen = scen
    d.first = fline
    # self-check of the renderer's own line bookkeeping (harness sanity, not an oracle)
    lines = text.split("\n")
    for line, kind, _ in d.ents:
        kw = {"F": "Feature:", "R": "Rule:", "O": "Scenario Outline:", "S": "Scenario:", "row": "|"}[kind]
        assert lines[line - 1].strip().startswith(kw), (dockey, line, kind, lines[line - 1])
    assert len(set(l for l, _, _ in d.ents)) == len(d.ents)
    return d


# =============================================================================
# reference selection
# =============================================================================
UNCONSTRAINED = "unconstrained"


def ref_select_line(doc, line):
    """scenario lines selected by one location of this document (None = bare name)"""
    everything = doc.ents[[k for _, k, _ in doc.ents].index("F")][2]
    if line is None or line == 0:
        return everything, "all"
    best = None
    for l, kind, scs in doc.ents:          # sorted by line
        if l == line:
            return scs, kind
        if l < line:
            best = (scs, kind)
    if best is None:
        return UNCONSTRAINED, "above-first"
    return best[0], "after-" + best[1]


def ref_select(doc, lines):
    sel = set()
    kinds = []
    for l in lines:
        s, k = ref_select_line(doc, l)
        kinds.append(k)
        if s is UNCONSTRAINED:
            return UNCONSTRAINED, kinds
        sel |= s
    return sel, kinds


def special(doc, line):
    tags = doc.scen[line][1]
    return "setup" in tags or "teardown" in tags


# =============================================================================
# driving the real code
# =============================================================================
_LOG = []


def _step_impl(context, **kw):
    # executed scenarios are identified by file + line + name as the step function sees them at run time
    _LOG.append((os.path.abspath(context.feature.filename), context.scenario.line, u"%s" % context.scenario.name))


def init_worker():
    global behave_ok
    import behave.runner_util      # noqa: F401  (import cost once per worker)
    import behave.runner           # noqa: F401
    import behave.configuration    # noqa: F401
    behave_ok = True


def _registry():
    from behave.step_registry import StepRegistry
    from behave import matchers
    matchers.use_step_matcher("parse")
    reg = StepRegistry()
    reg.add_step_definition("step", u"a step", _step_impl)
    reg.add_step_definition("step", u"a step {v}", _step_impl)
    return reg


def _walk_model(feature):
    """own walk over the model (does not use walk_scenarios): [(line, scenario)]"""
    from behave.model import Rule, ScenarioOutline
    out = []

    def walk(items):
        for it in items:
            if isinstance(it, Rule):
                walk(it.run_items)
            elif isinstance(it, ScenarioOutline):
                for s in it.scenarios:
                    out.append((s.line, s))
            else:
                out.append((it.line, it))
    walk(feature.run_items)
    return out


def run_features(features, config, reg):
    from behave.runner import ModelRunner
    del _LOG[:]
    runner = ModelRunner(config, features, step_registry=reg)
    runner.formatters = []
    runner.hooks = {}
    old = sys.stdout, sys.stderr
    sys.stdout = sys.stderr = io.StringIO()
    try:
        runner.run()
    finally:
        sys.stdout, sys.stderr = old
    _LAST_LOG[:] = list(_LOG)
    return set(_LOG)


_LAST_LOG = []



def _run_tag():
    """pid of the DRIVER process of this run (workers are its forked children): scratch directories carry it, so that
    two runs of this check at the same time (evaluations of several trees) do not see each other's directories"""
    import multiprocessing
    return os.getpid() if multiprocessing.current_process().name == "MainProcess" else os.getppid()


# line endings of the feature file on disk (dockey[3]); line numbers are those of an editor that honours LF, CRLF and a
# lone CR alike, i.e. exactly the renderer's numbers
EOLS = (None, ("crlf", True), ("crlf", False), ("cr", True), ("cr", False), ("lf+stray-cr", True),
        ("lf+stray-cr", False), ("lf+one-crlf", True), ("lf+two-stray-cr", True))


def with_line_endings(text, eol):
    if eol is None:
        return text                         # as rendered: LF, final newline as the layout has it
    kind, final = eol
    lines = text.split("\n")
    if lines and lines[-1] == "":
        lines.pop()
    seps = [{"crlf": "\r\n", "cr": "\r"}.get(kind, "\n")] * (len(lines) - 1)

    def lone(i):
        """a separator at or after #i whose following line is not empty (CR + empty line + LF would read as ONE
        CRLF line end, also in an editor)"""
        while i < len(seps) - 1 and lines[i + 1] == "":
            i += 1
        return i
    if kind == "lf+stray-cr" and seps:
        seps[lone(len(seps) // 3)] = "\r"    # one lone CR somewhere in the upper part of an LF file
    elif kind == "lf+two-stray-cr" and seps:
        seps[lone(0)] = "\r"
        seps[lone((2 * len(seps)) // 3)] = "\r"
    elif kind == "lf+one-crlf" and seps:
        seps[len(seps) // 2] = "\r\n"
    out = "".join(l + sp for l, sp in zip(lines, seps + [""]))
    if final:
        out += {"crlf": "\r\n", "cr": "\r"}.get(kind, "\n")
    return out


class Sandbox(object):
    """fresh directory under /dev/shm holding the rendered documents; cwd = <root>/run"""
    FILES = ("features/a.feature", "features/sub/b.feature")

    def __init__(self, dockeys):
        self.root = tempfile.mkdtemp(prefix="verif-c10-%d-" % _run_tag(), dir=SHM)
        self.oldcwd = os.getcwd()
        self.docs = []
        self.abs = []
        os.makedirs(os.path.join(self.root, "run", "features", "sub"))
        os.makedirs(os.path.join(self.root, "lists"))
        for i, dk in enumerate(dockeys):
            d = render(dk)
            p = os.path.join(self.root, "run", self.FILES[i])
            with io.open(p, "w", encoding="utf-8", newline="") as f:
                f.write(with_line_endings(d.text, EOLS[dk[3]] if len(dk) > 3 else None))
            self.docs.append(d)
            self.abs.append(p)
        os.chdir(os.path.join(self.root, "run"))

    def close(self):
        os.chdir(self.oldcwd)
        shutil.rmtree(self.root, ignore_errors=True)


def _loc_text(path, line):
    return path if line is None else "%s:%d" % (path, line)


LISTFILE_STYLES = ("plain", "comments", "padded", "indented", "crlf", "cr", "nofinal")


def make_paths(sb, selection, via):
    """selection = ((file_idx, line|None), ...) -> argument list for collect_feature_locations"""
    if via == "args":
        return [_loc_text(sb.FILES[i], l) for i, l in selection]
    if via == "abs":
        return [_loc_text(sb.abs[i], l) for i, l in selection]
    assert via.startswith("list-")
    style = via.split("-")[1]
    how = via.split("-")[2]          # rel: "@../lists/sel.txt" from cwd; abs: absolute listfile name
    entries = [_loc_text("../run/" + sb.FILES[i], l) for i, l in selection]
    if style == "plain":
        body = "".join(e + "\n" for e in entries)
    elif style == "comments":
        body = "# -- selected features\n\n" + "\n# next\n\n".join(entries) + "\n\n#end"
    elif style == "padded":
        body = "".join(e + "   \n" for e in entries) + "   \n"
    elif style == "indented":
        body = "".join("  " + e + "\n" for e in entries)
    elif style == "crlf":
        body = "# selected\r\n" + "".join(e + "\r\n" for e in entries)
    elif style == "cr":
        body = "# selected\r" + "".join(e + "\r" for e in entries)
    elif style == "nofinal":
        body = "\n".join(entries)
    else:
        raise ValueError(style)
    lf = os.path.join(sb.root, "lists", "sel.txt")
    with io.open(lf, "w", encoding="utf-8", newline="") as f:
        f.write(body)
    return ["@" + (lf if how == "abs" else "../lists/sel.txt")]


def observe_selection(sb, selection, via, config, reg, do_run=True):
    """-> {file_idx: (kept scenario lines, executed scenario lines | None, statuses | None, model lines, nfeatures)}

    kept     = scenarios with should_skip == False after parse_features in SOME Feature object of that file
    executed = scenarios of which a step function was called during a real run of all returned features"""
    from behave.runner_util import collect_feature_locations, parse_features
    paths = make_paths(sb, selection, via)

    def load():
        feats = parse_features(collect_feature_locations(paths))
        by_file = {}
        for f in feats:
            by_file.setdefault(sb.abs.index(os.path.abspath(f.filename)), []).append(f)     # filename only: no walk
        return feats, by_file

    # The model objects that are RUN are not touched by this harness between parse_features() and run(): walking a
    # feature expands its outlines (ScenarioOutline.scenarios fills a cache) and can mask defects of lazy expansion.
    # should_skip is therefore read from a SECOND, separately loaded copy of the same selection.
    executed = run_by_file = None
    if do_run:
        run_feats, run_by_file = load()
        executed = run_features(run_feats, config, reg)
    pre_feats, pre_by_file = load()
    obs = {}
    for idx, feats in pre_by_file.items():
        ms = [_walk_model(f) for f in feats]
        kept = set()
        for m in ms:
            kept |= set(line for line, s in m if not s.should_skip)
        ex = st = None
        if do_run:
            ex = tuple(sorted(set(l for (p, l, _) in executed if p == sb.abs[idx])))
            st = tuple(tuple((line, s.status.name) for line, s in _walk_model(f))     # after the run
                       for f in run_by_file.get(idx, ()))
        obs[idx] = (tuple(sorted(kept)), ex, st, tuple(tuple(line for line, _ in m) for m in ms), len(ms))
    if do_run:
        for idx in run_by_file:
            if idx not in obs:
                obs[idx] = ((), tuple(sorted(set(l for (p, l, _) in executed if p == sb.abs[idx]))), (), (), 0)
    return obs


def _site(exc):
    """innermost behave function on the traceback of an exception (names the call site, not the input)"""
    import traceback
    site = "?"
    for fs in traceback.extract_tb(exc.__traceback__):
        if "/behave/" in fs.filename:
            site = "%s:%s" % (os.path.basename(fs.filename), fs.name)
    return site


def _target_class(kind):
    """exact hits keep the entity kind; every line that is not an entity start is one class"""
    return "between-entities" if kind.startswith("after-") else kind


def _via_keys(via):
    if via.startswith("list"):
        return {"via": "listfile", "liststyle": via.split("-")[1]}
    return {"via": via}


def judge_single(doc, line, ob):
    """ONE location given as a plain command-line argument, against the reference line map"""
    want, kind = ref_select_line(doc, line)
    base = {"subcheck": "location-select", "target": _target_class(kind)}
    all_lines = sorted(doc.scen)
    v = []
    if ob is None:
        return [(dict(base, clause="file-missing-from-features"), "no Feature object for the named file")], False, kind
    kept, ex, st, model_lines, nfeat = ob
    for ml in model_lines:
        if list(ml) != all_lines:
            # independent of the line that was addressed: one class
            v.append(({"subcheck": "location-select", "clause": "model-scenario-lines"},
                      "scenario lines in the model %r differ from the rendered ones %r (lines counted as an editor "
                      "honouring LF, CRLF and lone CR counts them)" % (list(ml), all_lines)))
            return v, False, kind
    if want is UNCONSTRAINED:
        return v, False, kind
    must_run = set(want) | set(l for l in all_lines if special(doc, l))
    where = "%s (%s)" % (_loc_text("a.feature", line), kind)

    def first_diff(observed):
        for l in all_lines:
            if (l in must_run) != (l in observed):
                return l
    l = first_diff(set(kept))
    if l is not None:
        if l in must_run and l not in want:
            clause = "setup-teardown-scenario-skipped"
        else:
            clause = "wrong-scenarios-selected"
        if clause == "setup-teardown-scenario-skipped":
            base = {"subcheck": "location-select"}      # independent of what was addressed
        v.append((dict(base, clause=clause),
                  "%s: after parse_features the scenarios with should_skip=False are %r, the reference selection is %r "
                  "(+ @setup/@teardown %r); first difference: line %d %r"
                  % (where, sorted(kept), sorted(want), sorted(must_run - set(want)), l, doc.scen[l][0])))
    elif ex is not None:
        l = first_diff(set(ex))
        if l is not None:
            v.append((dict(base, clause="wrong-scenarios-executed"),
                      "%s: should_skip flags are right but the scenarios whose steps ran are %r, expected %r; first "
                      "difference: line %d %r" % (where, sorted(ex), sorted(must_run), l, doc.scen[l][0])))
        else:
            for l, status in (st[0] if st else ()):
                expect = "passed" if l in must_run else "skipped"
                if status != expect:
                    v.append((dict(base, clause="scenario-status", expected=expect, status=status),
                              "%s: scenario at line %d %r has status %s, expected %s"
                              % (where, l, doc.scen[l][0], status, expect)))
                    break
    nontrivial = bool(want) and len(want) < len(all_lines)
    return v, nontrivial, kind


def judge_union(sb, selection, via, ob, singles):
    """several locations / other ways of naming them: per file, exactly the union of what each location selects when
    given alone as a plain argument (those single selections are themselves checked against the reference)"""
    files = sorted(set(i for i, _ in selection))
    form = "one-file"
    seen, last = set(), None
    for i, _ in selection:
        if i != last and i in seen:
            form = "interleaved"
        seen.add(i)
        last = i
    if len(files) > 1 and form != "interleaved":
        form = "grouped"
    base = {"subcheck": "location-union", "form": form, "via": _via_keys(via)["via"]}
    v = []
    for idx in files:
        want_kept, want_ex = set(), set()
        for (i, l) in selection:
            if i == idx:
                k, e = singles[(i, l)]
                want_kept |= set(k)
                want_ex |= set(e or ())
        if idx not in ob:
            v.append((dict(base, clause="file-missing-from-features"),
                      "%s via %s: file %s produced no Feature object" % (_sel_text(selection), via, "ab"[idx])))
            continue
        kept, ex, st, model_lines, nfeat = ob[idx]
        if set(kept) != want_kept:
            v.append((dict(base, clause="selection-is-not-the-union"),
                      "%s via %s: file %s: scenarios with should_skip=False are %r; the locations given one at a time "
                      "select %r" % (_sel_text(selection), via, "ab"[idx], sorted(kept), sorted(want_kept))))
        elif ex is not None and set(ex) != want_ex:
            v.append((dict(base, clause="executed-is-not-the-union"),
                      "%s via %s: file %s: executed scenarios %r; the locations given one at a time execute %r"
                      % (_sel_text(selection), via, "ab"[idx], sorted(ex), sorted(want_ex))))
    for idx in ob:
        if idx not in files:
            v.append((dict(base, clause="unnamed-file-loaded"), "%s: file %s was not named" % (_sel_text(selection), "ab"[idx])))
    return v


def _sel_text(selection):
    return "[" + ", ".join(_loc_text("ab"[i] + ".feature", l) for i, l in selection) + "]"


# =============================================================================
# case functions
# =============================================================================
def check_locations(case):
    """case = ("loc", dockeys, via, do_run, [selection, ...]);  selection = ((file_idx, line|None), ...)"""
    _, dockeys, via, do_run, selections = case
    from behave.configuration import Configuration
    results = []
    sb = Sandbox(dockeys)
    real_out = sys.stdout, sys.stderr           # behave print()s "ERROR: ... NO-TABLE syndrome" while expanding
    sys.stdout = sys.stderr = io.StringIO()
    try:
        reg = _registry()
        config = Configuration("", load_config=False)
        config.reporters = []
        singles = {}

        def single(i, l):
            """what ONE location selects when given alone as a plain relative argument (cached per shard)"""
            if (i, l) not in singles:
                o = observe_selection(sb, ((i, l),), "args", config, reg, do_run).get(i)
                singles[(i, l)] = (o[0], o[1]) if o else ((), ())
            return singles[(i, l)]

        for selection in selections:
            sub = ("loc", dockeys, via, do_run, [selection])
            plain_single = len(selection) == 1 and via == "args"
            try:
                ob = observe_selection(sb, selection, via, config, reg, do_run)
            except Exception as e:      # the property's domain contains no input on which this may raise
                desc = dict({"subcheck": "location-select" if plain_single else "location-union", "clause": "raises",
                             "exc": type(e).__name__, "site": _site(e)}, **_via_keys(via))
                results.append({"case": sub, "v": [(desc, "%s via %s raised %s: %s"
                                                    % (_sel_text(selection), via, type(e).__name__,
                                                       str(e).replace(sb.root, "<sandbox>")))],
                                "out": "exc:" + type(e).__name__, "dg": ("exc", type(e).__name__)})
                continue
            n = 1
            if plain_single:
                (i, l), = selection
                v, nontrivial, kind = judge_single(sb.docs[i], l, ob.get(i))
                want = ref_select_line(sb.docs[i], l)[0]
                outcome = ((i, want if want is UNCONSTRAINED else tuple(sorted(want))),)
            else:
                before = len(singles)
                for (i, l) in selection:
                    single(i, l)
                n += len(singles) - before
                v = judge_union(sb, selection, via, ob, singles)
                outcome, nontrivial = [], False
                for idx in sorted(set(i for i, _ in selection)):
                    want, _ = ref_select(sb.docs[idx], [l for i, l in selection if i == idx])
                    if want is UNCONSTRAINED:
                        outcome.append((idx, want))
                    else:
                        outcome.append((idx, tuple(sorted(want))))
                        nontrivial = nontrivial or (bool(want) and len(want) < len(sb.docs[idx].scen))
            results.append({"case": sub, "v": v, "n": n,
                            "nt": (dockeys, via, selection) if nontrivial else None,
                            "out": digest((dockeys, tuple(outcome))),
                            "dg": sorted(ob.items())})
    finally:
        sys.stdout, sys.stderr = real_out
        sb.close()
    return results


# ---- one file, several SPELLINGS / SOURCES of its name in one location list ---------------------------------
SPELL_SOURCES = ("arg:plain", "arg:dot-prefix", "arg:detour", "arg:absolute", "list-cwd:plain", "list-cwd:dot-prefix",
                 "list-subdir:dotdot", "list-sibling:dotdot", "list-sibling-abs:dotdot")


def spelled_path(sb, k, src, idx, line):
    """command-line argument that names file #idx through one source/spelling; list files are written on the way
    (one list file per item, in the cwd, in a sub-directory of it, or in a sibling directory of it)"""
    plain = sb.FILES[idx]
    detour = "features/sub/../" + plain[len("features/"):]
    kind, spelling = src.split(":")
    if kind == "arg":
        path = {"plain": plain, "dot-prefix": "./" + plain, "detour": detour, "absolute": sb.abs[idx]}[spelling]
        return _loc_text(path, line)
    where = {"list-cwd": ("run", "", ""), "list-subdir": ("run/lists2", "lists2/", "../"),
             "list-sibling": ("lists", "../lists/", "../run/"), "list-sibling-abs": ("lists", None, "../run/")}[kind]
    entry = {"plain": plain, "dot-prefix": "./" + plain, "dotdot": where[2] + plain}[spelling]
    d = os.path.join(sb.root, where[0])
    if not os.path.isdir(d):
        os.makedirs(d)
    name = "sel_%d.txt" % k
    with io.open(os.path.join(d, name), "w", encoding="utf-8", newline="") as f:
        f.write(u"# list file %d\n%s\n" % (k, _loc_text(entry, line)))
    return "@" + (os.path.join(d, name) if where[1] is None else where[1] + name)


def check_spellings(case):
    """case = ("spell", dockeys, [selection, ...]); selection = ((source, file_idx, line|None), ...)

    The same feature file addressed through different spellings/sources in ONE run: the file is loaded once, the
    selection is the union of the single selections, every selected scenario runs once, features come in the order
    of their first mention."""
    from behave.configuration import Configuration
    from behave.runner_util import collect_feature_locations, parse_features
    _, dockeys, selections = case
    results = []
    sb = Sandbox(dockeys)
    real_out = sys.stdout, sys.stderr
    sys.stdout = sys.stderr = io.StringIO()
    try:
        reg = _registry()
        config = Configuration("", load_config=False)
        config.reporters = []
        singles = {}

        def single(i, l):
            if (i, l) not in singles:
                feats = parse_features(collect_feature_locations([_loc_text(sb.FILES[i], l)]))
                run_features(feats, config, reg)
                calls = {}
                for p_, line, _n in _LAST_LOG:
                    calls[line] = calls.get(line, 0) + 1
                singles[(i, l)] = calls
            return singles[(i, l)]

        for selection in selections:
            sub = ("spell", dockeys, [selection])
            srcs = sorted(set(src for src, _, _ in selection))
            base = {"subcheck": "location-spelling"}
            text = "[" + ", ".join("%s %s" % (src, _loc_text("ab"[i] + ".feature", l)) for src, i, l in selection) + "]"
            try:
                paths = [spelled_path(sb, k, src, i, l) for k, (src, i, l) in enumerate(selection)]
                locs = collect_feature_locations(paths)
                loc_names = [u"%s" % l_.filename for l_ in locs]
                feats = parse_features(locs)
                order = [sb.abs.index(os.path.abspath(f.filename)) for f in feats]
                run_features(feats, config, reg)
                log = list(_LAST_LOG)
            except Exception as e:
                results.append({"case": sub, "v": [(dict(base, clause="raises", exc=type(e).__name__, site=_site(e)),
                                                    "%s raised %s: %s" % (text, type(e).__name__,
                                                                          str(e).replace(sb.root, "<sandbox>")))],
                                "out": "exc", "dg": ("exc", type(e).__name__)})
                continue
            v = []
            first_mention = []
            for _, i, _l in selection:
                if i not in first_mention:
                    first_mention.append(i)
            nontrivial = False
            for i in first_mention:
                want = {}
                for _, j, l in selection:
                    if j == i:
                        for line, n in single(i, l).items():
                            want[line] = n                      # union; a scenario addressed twice still runs ONCE
                got = {}
                for p_, line, _n in log:
                    if p_ == sb.abs[i]:
                        got[line] = got.get(line, 0) + 1
                nload = order.count(i)
                if nload != 1:
                    # trigger class: how the names behave compares relate, and which source delivered a name that
                    # is not in normal form (the call site that skipped the normalisation)
                    mine = [(src, nm) for (src, j, _l), nm in zip(selection, loc_names) if j == i] \
                        if len(loc_names) == len(selection) else []
                    normed = set(os.path.normpath(nm) for _, nm in mine)
                    relation = "names-equal-after-normpath" if len(normed) == 1 else "names-equal-only-as-abspath"
                    raw = sorted(set(src.split(":")[0].split("-")[0] for src, nm in mine if nm != os.path.normpath(nm)))
                    base = dict(base, relation=relation, unnormalised_name_from="+".join(raw) or "none")
                    v.append((dict(base, clause="same-file-loaded-%s" % ("twice" if nload > 1 else "never")),
                              "%s -> arguments %r -> location names %r: file %s gives %d Feature objects (executed step calls per scenario "
                              "line %r, the union of the single selections is %r)"
                              % (text, [p_.replace(sb.root, "<sandbox>") for p_ in paths],
                                 [n_.replace(sb.root, "<sandbox>") for n_ in loc_names], "ab"[i], nload, got, want)))
                elif set(got) != set(want):
                    v.append((dict(base, clause="selection-is-not-the-union"),
                              "%s: executed scenario lines %r, union of the single selections %r"
                              % (text, sorted(got), sorted(want))))
                elif got != want:
                    v.append((dict(base, clause="scenario-runs-more-than-once"),
                              "%s: step calls per scenario line %r, in a single run %r" % (text, got, want)))
                if want and len(want) < len(sb.docs[i].scen):
                    nontrivial = True
            dedup_order = [i for k, i in enumerate(order) if i not in order[:k]]
            if not v and dedup_order != first_mention:
                v.append((dict(base, clause="feature-order"), "%s: features come as %r, first mentions are %r"
                          % (text, order, first_mention)))
            results.append({"case": sub, "v": v, "n": 1,
                            "nt": ("spell", dockeys, selection) if nontrivial and len(srcs) > 1 else None,
                            "out": digest(("spell", dockeys, tuple(sorted(set((p_, l) for p_, l, _ in log))) and
                                           tuple(sorted(set(l for _, l, _ in log))))),
                            "dg": (order, sorted((os.path.basename(p_), l, n) for p_, l, n in log))})
    finally:
        sys.stdout, sys.stderr = real_out
        sb.close()
    return results


def spelling_cases(dockeys_pairs, sources):
    for dka, dkb in dockeys_pairs:
        da = render(dka)
        ents = [l for l, k, _ in da.ents if k in ("S", "row")]
        s1, s2 = ents[0], ents[-1]
        line_pairs = [(s1, s2), (s1, s1), (None, s2), (s2, da.nlines + 1)]
        sels = []
        for a in sources:
            for b in sources:
                for n, (l1, l2) in enumerate(line_pairs):
                    sel = ((a, 0, l1), (b, 0, l2))
                    if n == 0:
                        sel = sel + (("arg:plain", 1, None),)       # a second file afterwards: order of features
                    sels.append(sel)
        for i in range(0, len(sels), 27):
            yield ("spell", (dka, dkb), sels[i:i + 27])


# ---- direct use of the public FeatureLineDatabase / FeatureScenarioLocationCollector2 ----------------------------
MUTATIONS = ("extend", "clear", "remove-first", "reverse")


def check_direct_api(case):
    """case = ("api", dockey, [line, ...]).  The collections these classes RETURN are the caller's to change: after
    r = db.select_scenarios_by_line(L) has been mutated in place, every later selection (same database, a new
    database over the same model, FeatureScenarioLocationCollector2.build_feature, feature.walk_scenarios) must give
    what a freshly parsed copy of the document gives.  Differential oracle; nothing about object identity."""
    from behave.parser import parse_feature
    from behave.model_core import FileLocation
    from behave.runner_util import FeatureLineDatabase, FeatureScenarioLocationCollector2
    _, dockey, lines = case
    doc = render(dockey)
    all_lines = list(range(0, doc.nlines + 2))
    fname = u"features/a.feature"

    def observe(feature, db, L):
        """everything a later reader can ask, as plain line numbers"""
        obs = [("select_scenarios_by_line", tuple((l2, tuple(s.line for s in db.select_scenarios_by_line(l2)))
                                                   for l2 in all_lines))]
        db2 = FeatureLineDatabase.make(feature)
        obs.append(("new-database", tuple((l2, tuple(s.line for s in db2.select_scenarios_by_line(l2)))
                                          for l2 in all_lines)))
        obs.append(("walk_scenarios", tuple(s.line for s in feature.walk_scenarios())))
        collector = FeatureScenarioLocationCollector2(feature, location=FileLocation(fname, L))
        collector.build_feature()
        obs.append(("build_feature", tuple((line, bool(s.should_skip)) for line, s in _walk_model(feature))))
        return obs

    real_out = sys.stdout, sys.stderr
    sys.stdout = sys.stderr = io.StringIO()
    results = []
    try:
        scen_lines = sorted(doc.scen)
        for L in lines:
            fresh_feature = parse_feature(doc.text, filename=fname)
            want = observe(fresh_feature, FeatureLineDatabase.make(fresh_feature), L)
            for m in MUTATIONS:
                sub = ("api", dockey, [L])
                feature = parse_feature(doc.text, filename=fname)
                db = FeatureLineDatabase.make(feature)
                v = []
                try:
                    r1 = db.select_scenarios_by_line(L)
                    before = tuple(s.line for s in r1)
                    other = [l for l in scen_lines if l not in before]
                    if m == "extend":
                        r1.extend(db.select_scenarios_by_line(other[-1] if other else 0))
                    elif m == "clear":
                        del r1[:]
                    elif m == "remove-first":
                        if r1:
                            r1.pop(0)
                    else:
                        r1.reverse()
                    got = observe(feature, db, L)
                except Exception as e:
                    results.append({"case": sub, "v": [({"subcheck": "direct-api", "clause": "raises",
                                                         "exc": type(e).__name__, "site": _site(e)},
                                                        "line %r, %s: %s: %s" % (L, m, type(e).__name__, e))],
                                    "out": "exc", "dg": ("exc", type(e).__name__)})
                    continue
                for (name, g), (_, w) in zip(got, want):
                    if g != w:
                        kind = ref_select_line(doc, L)[1]
                        v.append(({"subcheck": "direct-api", "clause": "model-changed-by-mutating-a-returned-list",
                                   "seen_through": name, "target": _target_class(kind)},
                                  "a.feature: r = select_scenarios_by_line(%d) gave lines %r; after r.%s in place, %s "
                                  "gives %r, a freshly parsed copy gives %r"
                                  % (L, list(before), m, name, _first_diff(g, w)[0], _first_diff(g, w)[1])))
                        break
                results.append({"case": sub, "v": v, "n": 1,
                                "nt": ("api", dockey, L, m) if before and len(before) < len(scen_lines) else None,
                                "out": digest(("api", dockey, before)), "dg": (L, m, got)})
    finally:
        sys.stdout, sys.stderr = real_out
    return results


def _first_diff(g, w):
    if isinstance(g, tuple) and isinstance(w, tuple) and len(g) == len(w):
        for a, b in zip(g, w):
            if a != b:
                return a, b
    return g, w


def direct_api_cases(dockeys_list):
    for dk in dockeys_list:
        doc = render(dk)
        ls = list(range(0, doc.nlines + 2))
        for i in range(0, len(ls), 12):
            yield ("api", dk, ls[i:i + 12])


def name_patterns(doc):
    """pattern lists drawn from the scenario names of the document + regex fragments"""
    names = [doc.scen[l][0] for l in sorted(doc.scen)]
    pats = []

    def add(*p):
        if list(p) not in pats and all(p):        # an empty pattern is "no pattern" for argparse/behave
            pats.append(list(p))
    for n in names:
        add(n)
        add("^%s$" % n)
        add("^" + re.escape(n) + "$")
        words = n.split()
        for w in words:
            if w != "--":           # argparse swallows a lone "--" option value (not behave's doing)
                add(w)
        add(n[1:-1] or n)
        add(n[:3])
        add(n[-3:])
        add(n + "$")
        add("^" + n[:4])
    for a, b in itertools.combinations(names[:4], 2):
        add("%s|%s" % (a, b))
        add("^%s$|^%s$" % (a, b))
        add(a, b)
        add("^%s$" % a, (b.split() or [""])[0])
    add("Feature")
    add("Rule one")
    add("no such name")
    add("a step")
    add(".")
    add("^$")
    add("two$", "^Out")
    add("v11|v21")
    add("@1\\.2", "Omega|Alpha$")
    add("(Alpha|Beta) two")
    add("-- @\\d\\.1 ")
    return pats


def check_names(case):
    """case = ("name", dockey, [pattern-list, ...])"""
    _, dockey, patlists = case
    from behave.configuration import Configuration
    from behave.parser import parse_feature
    doc = render(dockey)
    reg = _registry()
    results = []
    real_out = sys.stdout, sys.stderr
    sys.stdout = sys.stderr = io.StringIO()
    try:
        return _check_names(dockey, patlists, doc, reg, results)
    finally:
        sys.stdout, sys.stderr = real_out


def _check_names(dockey, patlists, doc, reg, results):
    from behave.configuration import Configuration
    from behave.parser import parse_feature
    for pats in patlists:
        sub = ("name", dockey, [pats])
        args = []
        for p in pats:
            args.append("--name=" + p)
        try:
            config = Configuration(args, load_config=False)
            config.reporters = []
            # expectations come from the rendered document and a SEPARATE parsed copy; the feature that is run is
            # handed to the runner untouched (as `behave -n PATTERN file.feature` does: nothing has expanded its
            # outlines yet) and is only walked AFTER the run, for the statuses
            names = dict((l, u"%s" % s.name)
                         for l, s in _walk_model(parse_feature(doc.text, filename=u"features/a.feature")))
            feature = parse_feature(doc.text, filename=u"features/a.feature")
            log = run_features([feature], config, reg)
            executed = set(l for _, l, _ in log)
            ran_names = dict((l, n) for _, l, n in log)
            status = dict((l, s.status.name) for l, s in _walk_model(feature))
        except Exception as e:
            results.append({"case": sub, "v": [({"subcheck": "name-select", "clause": "raises",
                                                 "exc": type(e).__name__, "npatterns": str(len(pats))},
                                                "--name %r raised %r" % (pats, e))],
                            "out": "exc", "dg": ("exc", type(e).__name__)})
            continue
        v = []
        base = {"subcheck": "name-select"}
        if sorted(names) != sorted(doc.scen):
            v.append((dict(base, clause="model-scenario-lines"), "lines differ %r %r" % (sorted(names), sorted(doc.scen))))
        for l, n in sorted(ran_names.items()):
            if names.get(l) != n:
                v.append((dict(base, clause="executed-scenario-name", scenario=doc.scen.get(l, ("", (), "?"))[2]),
                          "--name %r: the scenario executed at line %d calls itself %r, the separately parsed copy "
                          "names it %r" % (pats, l, n, names.get(l))))
                break
        want = set()
        for l, n in names.items():
            if l in doc.scen and n != doc.scen[l][0]:
                v.append((dict(base, clause="scenario-name-differs-from-rendered", scenario=doc.scen[l][2]),
                          "scenario at line %d is named %r, rendered as %r" % (l, n, doc.scen[l][0])))
            if any(re.search(p, n) for p in pats):
                want.add(l)
        for l in sorted(names):
            skind = doc.scen.get(l, ("", (), "?"))[2]
            expect = "passed" if l in want else "skipped"
            if (l in want) != (l in executed):
                v.append((dict(base, clause="wrong-scenarios-executed", scenario=skind),
                          "--name %r: scenario %r (line %d) %s but %s; executed lines %r, matching lines %r"
                          % (pats, names[l], l, "matches" if l in want else "matches no pattern",
                             "was run" if l in executed else "was not run (status %s)" % status[l],
                             sorted(executed), sorted(want))))
                break
            if status[l] != expect:
                v.append((dict(base, clause="scenario-status", scenario=skind, status=status[l], expected=expect),
                          "--name %r: scenario %r (line %d) has status %s, expected %s"
                          % (pats, names[l], l, status[l], expect)))
                break
        nt = ("name", dockey, tuple(pats)) if want and len(want) < len(names) else None
        results.append({"case": sub, "v": v, "nt": nt, "out": digest((dockey, sorted(want))),
                        "dg": (sorted(executed), sorted(status.items()))})
    return results


# ---- FileLocationParser / FeatureListParser as pure functions -------------------
FL_NAMES = (u"a.feature", u"features/a.feature", u"dir with space/a b.feature", u"/abs/x.feature",
            u"features/ü.feature", u"odd:name/a.feature", u"a.feature:12/b.feature", u"./a.feature",
            u"../up/a.feature", u"sub/../a.feature")
FL_SUFFIX = ((u"", None, "name"), (u":0", 0, "name:0"), (u":1", 1, "name:N"), (u":7", 7, "name:N"),
             (u":12", 12, "name:N"), (u":007", 7, "name:0N"), (u":1234567", 1234567, "name:N"))
FL_PADS = ((u"", u"", "none"), (u" ", u"", "leading"), (u"", u"  ", "trailing"), (u"  ", u" ", "both"),
           (u"\t", u"\t", "tabs"))


def check_flparse(case):
    name, (suffix, line, form), (lpad, rpad, padname) = case
    from behave.runner_util import FileLocationParser
    text = lpad + name + suffix + rpad
    v = []
    try:
        loc = FileLocationParser.parse(text)
        got = (loc.filename, loc.line)
    except Exception as e:
        return {"v": [({"subcheck": "FileLocationParser", "clause": "raises", "form": form, "pad": padname,
                        "exc": type(e).__name__}, "parse(%r) raised %r" % (text, e))], "dg": "exc", "out": "exc"}
    if got[0] != name:
        v.append(({"subcheck": "FileLocationParser", "clause": "filename", "form": form, "pad": padname},
                  "parse(%r).filename = %r, expected %r" % (text, got[0], name)))
    if got[1] != line:
        v.append(({"subcheck": "FileLocationParser", "clause": "line", "form": form, "pad": padname},
                  "parse(%r).line = %r, expected %r" % (text, got[1], line)))
    return {"v": v, "dg": got, "out": (form, padname), "nt": ("flparse", case) if line is not None else None}


def check_listparse(case):
    """FeatureListParser.parse(text, here) on a text assembled from entries and decorations"""
    entries, style, here = case
    from behave.runner_util import FeatureListParser
    deco = {"plain": (u"", u"", u"\n"), "comments": (u"", u"", u"\n# comment\n\n   \n#x:3\n"),
            "padded": (u"", u"  \t", u"\n"), "indented": (u"  ", u"", u"\n"), "crlf": (u"", u"", u"\r\n"),
            "cr": (u"", u"", u"\r")}[style]
    text = u"".join(deco[0] + n + s + deco[1] + deco[2] for n, (s, _, _) in entries)
    want = []
    for n, (s, line, _) in entries:
        p = n
        if here and not os.path.isabs(n):
            p = here + "/" + n
        want.append((os.path.normpath(p), line))
    try:
        got = [(l.filename, l.line) for l in FeatureListParser.parse(text, here)]
    except Exception as e:
        return {"v": [({"subcheck": "FeatureListParser", "clause": "raises", "liststyle": style,
                        "exc": type(e).__name__}, "parse(%r, %r) raised %r" % (text, here, e))],
                "dg": "exc", "out": "exc"}
    v = []
    # the statement asks that an entry names the right FILE (relative to the list file) and line - not for a
    # particular spelling of the path: compared after normalisation
    got_n = [(os.path.normpath(f), l) for f, l in got]
    if got_n != want:
        v.append(({"subcheck": "FeatureListParser", "clause": "locations-differ", "liststyle": style,
                   "here": "given" if here else "none"},
                  "FeatureListParser.parse(%r, here=%r) = %r, expected %r" % (text, here, got, want)))
    return {"v": v, "dg": got, "out": (style, bool(here)), "nt": ("listparse", case)}


# =============================================================================
# enumeration
# =============================================================================
def adjacent_lines(doc):
    a = set([0, doc.nlines + 1])
    for l, _, _ in doc.ents:
        a.update((l - 1, l, l + 1))
    return [None] + sorted(x for x in a if 0 <= x <= doc.nlines + 2)


def shards(dockeys, via, do_run, selections, size):
    selections = list(selections)
    for i in range(0, len(selections), size):
        yield ("loc", dockeys, via, do_run, selections[i:i + size])


def single_cases(dockeys_list, via="args"):
    for dk in dockeys_list:
        doc = render(dk)
        sels = [((0, None),)] + [((0, l),) for l in range(0, doc.nlines + 4)]
        for c in shards((dk,), via, True, sels, 24):
            yield c


def _mix(t):
    """present a multiset in a deterministic, varying order"""
    t = list(t)
    k = sum(x or 0 for x in t) % len(t)
    return t[k:] + t[:k]


def multiset_cases(dockeys_list, size, do_run, via="args"):
    for dk in dockeys_list:
        doc = render(dk)
        adj = adjacent_lines(doc)
        sels = []
        for combo in itertools.combinations_with_replacement(range(len(adj)), size):
            sels.append(tuple((0, adj[i]) for i in _mix(combo)))
        for c in shards((dk,), via, do_run, sels, 48 if size < 3 else 160):
            yield c


def twofile_selections(da, db, rich):
    """location lists over two files: grouped, interleaved, with bare names"""
    def key_lines(doc, n):
        ls = [None, 0] + [l for l, k, _ in doc.ents if k != "F"] + [doc.nlines + 1]
        ents = [l for l, k, _ in doc.ents]
        ls += [l + 1 for l in ents[:2]]
        out = []
        for l in ls:
            if l not in out:
                out.append(l)
        return out[:n]
    la, lb = key_lines(da, 9 if rich else 6), key_lines(db, 9 if rich else 6)
    for a in la:
        for b in lb:
            yield ((0, a), (1, b))
            yield ((1, b), (0, a))
    for a in la:
        for a2 in la[:5]:
            for b in lb[:4]:
                yield ((0, a), (0, a2), (1, b))       # grouped: first location of a group must count
                yield ((1, b), (0, a), (0, a2))       # group at the end
                yield ((0, a), (1, b), (0, a2))       # interleaved: file a named twice, not adjacent
    for b in lb:
        for b2 in lb[:4]:
            yield ((0, la[2 % len(la)]), (1, b), (1, b2))
            yield ((1, b), (0, None), (1, b2))


def twofile_cases(pairs, via, rich):
    for dka, dkb in pairs:
        sels = list(twofile_selections(render(dka), render(dkb), rich))
        for c in shards((dka, dkb), via, True, sels, 48):
            yield c


def listfile_cases(pairs, rich):
    for dka, dkb in pairs:
        da, db = render(dka), render(dkb)
        sels = []
        la = [None, 0] + [l for l, k, _ in da.ents][:6] + [da.ents[-1][0] + 1]
        lb = [None] + [l for l, k, _ in db.ents][:4]
        for a in la:
            sels.append(((0, a),))
            for b in lb:
                sels.append(((0, a), (1, b)))
                sels.append(((1, b), (0, a), (0, la[3 % len(la)])))
        for style in LISTFILE_STYLES:
            for how in (("rel", "abs") if rich or style == "comments" else ("rel",)):
                for c in shards((dka, dkb), "list-%s-%s" % (style, how), True, sels, 48):
                    yield c


def name_cases(dockeys_list):
    for dk in dockeys_list:
        pats = name_patterns(render(dk))
        for i in range(0, len(pats), 24):
            yield ("name", dk, pats[i:i + 24])


def run(ctx):
    init_worker()
    docs = QUICK_DOCS if ctx.quick else ALL_DOCS
    # every shape x layout renders and carries consistent line bookkeeping (asserted inside render)
    for dk in ALL_DOCS:
        render(dk)
    pair_docs = QUICK_DOCS if ctx.quick else ALL_DOCS
    two = [(QUICK_DOCS[i], QUICK_DOCS[(i + 5) % len(QUICK_DOCS)]) for i in range(len(QUICK_DOCS))]
    two_q = [two[3], two[5], two[11]]
    ctx.bounds = {"documents": len(ALL_DOCS), "single_lines": "0..last+3 and bare name, all %d documents" % len(ALL_DOCS),
                  "pairs": "all multisets of 2 over {bare,0,entity lines,+/-1,last+1} on %d documents" % len(pair_docs),
                  "triples": "none (quick)" if ctx.quick else "all multisets of 3 over the same set on all documents (real run on the 24 quick documents, should_skip only on the rest)",
                  "two_file_pairs": len(two_q) if ctx.quick else len(two),
                  "listfile_styles": list(LISTFILE_STYLES)}

    ctx.sweep(check_flparse, [(n, s, p) for n in FL_NAMES for s in FL_SUFFIX for p in FL_PADS],
              chunk=64, name="FileLocationParser")
    entries2 = [tuple((n, s) for n, s in zip(FL_NAMES[i:i + 3], FL_SUFFIX[j:j + 3]))
                for i in range(0, len(FL_NAMES) - 2) for j in range(0, 5)]
    ctx.sweep(check_listparse, [(e, st, here) for e in entries2
                                for st in ("plain", "comments", "padded", "indented", "crlf", "cr")
                                for here in (None, "/some/where", "rel/dir")],
              chunk=32, name="FeatureListParser.parse")

    ctx.sweep(check_locations, single_cases(ALL_DOCS), chunk=1, name="single lines")
    ctx.sweep(check_locations, single_cases(QUICK_DOCS[:6] if ctx.quick else QUICK_DOCS, via="abs"), chunk=1,
              name="single lines, absolute paths")
    eol_docs = [QUICK_DOCS[i] for i in ((1, 3, 4, 6, 11, 20) if ctx.quick else range(len(QUICK_DOCS)))]
    ctx.sweep(check_locations, single_cases([dk + (e,) for dk in eol_docs for e in range(1, len(EOLS))]), chunk=1,
              name="single lines, CRLF / CR / mixed line endings")
    ctx.sweep(check_locations, multiset_cases(pair_docs, 2, True), chunk=1, name="location pairs")
    if not ctx.quick:
        ctx.sweep(check_locations, multiset_cases(QUICK_DOCS, 3, True), chunk=1, name="location triples (run)")
        ctx.sweep(check_locations, multiset_cases([d for d in ALL_DOCS if d not in QUICK_DOCS], 3, False), chunk=1,
                  name="location triples (should_skip only)")
    ctx.sweep(check_locations, twofile_cases(two_q if ctx.quick else two, "args", not ctx.quick), chunk=1,
              name="two-file lists")
    ctx.sweep(check_locations, listfile_cases(two_q[:2] if ctx.quick else two, not ctx.quick), chunk=1,
              name="@listfile")
    spell_docs = [(QUICK_DOCS[3], QUICK_DOCS[0]), (QUICK_DOCS[4], QUICK_DOCS[1])]
    if not ctx.quick:
        spell_docs += [(QUICK_DOCS[i], QUICK_DOCS[(i + 7) % len(QUICK_DOCS)]) for i in (5, 9, 11, 14, 17, 19)]
    ctx.sweep(check_spellings, spelling_cases(spell_docs, SPELL_SOURCES), chunk=1,
              name="one file, two spellings/sources")
    api_docs = [QUICK_DOCS[i] for i in ((1, 3, 4, 6, 14, 21) if ctx.quick else range(len(QUICK_DOCS)))]
    ctx.sweep(check_direct_api, direct_api_cases(api_docs), chunk=1,
              name="direct API: returned lists mutated in place")
    ctx.sweep(check_names, name_cases(docs), chunk=1, name="name selection")

    ctx.guard(len(ctx.nt) > (1500 if ctx.quick else 50000), "enough distinct non-trivial selections")
    ctx.guard(len(ctx.outcomes) > (150 if ctx.quick else 1500), "enough distinct selected sets observed")
    left = [d for d in os.listdir(SHM) if d.startswith("verif-c10-%d-" % _run_tag())]
    ctx.guard(not left, "no sandbox directory left behind under /dev/shm (%d found)" % len(left))
